(** Model of statime/src/overlay_clock.rs (OverlayClock<C>) on bit patterns.

    State of the overlay clock = (last_sync : Time bits, shift : Duration bits,
    freq_scale_ppm_diff : f64).  The underlying read-only clock is an oracle:
    every operation receives the value(s) its calls of `roclock.now()` return
    (`new`, `now`, `set_frequency` and `step_clock` read it exactly once each;
    `time_from_underlying` does not read it).

    The ppm value is a Coq primitive float (IEEE binary64, the same arithmetic
    as Rust's f64 for + and /).  `Duration * f64` converts the float with
    `to_fixed::<I96F32>()`: round to nearest, ties to even, at 2^-32
    resolution ([float_to_fixed], exact, through [Prim2SF]), then multiplies
    fixed-point numbers: floor (a*b / 2^32).  `Duration / i32` is the
    truncating fixed-point division ([dur_div_int] of Time/TimeModel.v).
    `Time + Duration` saturates at 0 and at the largest U96F32 value
    ([time_add_dur], after the repair of F7 in /repo).
    These semantics are validated by the C18 correspondence run. *)
From Coq Require Export Floats.
From SV Require Export Base.Prelude Time.TimeModel.

Definition site_debug_assert : nat := 181.

(** * f64 -> I96F32 (`ToFixed for f64`) *)
Definition float_to_fixed (f : float) : outcome Z :=
  match Prim2SF f with
  | S754_zero _ => Ok 0
  | S754_finite s m e =>
      let mag := if 0 <=? e + 32 then Z.pos m * 2 ^ (e + 32)
                 else round_half_even_div_pow2 (Z.pos m) (- (e + 32)) in
      chk_i site_to_fixed 128 (if s then - mag else mag)
  | _ => Panic site_to_fixed            (* NaN, +-inf: panics in every build *)
  end.

(** Exact value of a finite float as a dyadic rational  num / 2^k, k >= 0. *)
Definition float_to_q (f : float) : option (Z * Z) :=
  match Prim2SF f with
  | S754_zero _ => Some (0, 0)
  | S754_finite s m e =>
      let n := if s then - Z.pos m else Z.pos m in
      if 0 <=? e then Some (n * 2 ^ e, 0) else Some (n, - e)
  | _ => None
  end.

Definition float_is_zero (f : float) : bool :=
  match Prim2SF f with S754_zero _ => true | _ => false end.

(** Concrete syntax used by the harness for an f64: (-1)^s * m * 2^e, m < 2^53. *)
Definition mkf (s : bool) (m e : Z) : float :=
  let f := Z.ldexp (of_uint63 (Uint63.of_Z m)) e in
  if s then (- f)%float else f.

(** * The overlay clock *)
Record ostate := mk_ostate { last_sync : Z; shift : Z; ppm : float }.

(** OverlayClock::new(underlying) where `underlying.now()` returned [t]. *)
Definition overlay_new (t : Z) : ostate := mk_ostate t 0 0%float.

(** `Duration * f64` : to_fixed of the float, then the fixed-point product. *)
Definition dur_mul_float (d : Z) (f : float) : outcome Z :=
  let! p := float_to_fixed f in
  chk_i site_dur_mul 128 ((d * p) / FRAC).

(** time_from_underlying(&self, roclock_time) *)
Definition tfu (s : ostate) (t : Z) : outcome Z :=
  let! elapsed := time_diff t (last_sync s) in
  let! m := dur_mul_float elapsed (ppm s) in
  let! corr := dur_div_int m 1000000 in
  let! a := time_add_dur t (shift s) in
  time_add_dur a corr.

(** Clock::now : reads the underlying clock once ([t]) and converts it. *)
Definition overlay_now (s : ostate) (t : Z) : outcome Z := tfu s t.

(** Clock::set_frequency(ppm) where `roclock.now()` returned [t].
    [dbg] = the build has debug assertions (the `debug_assert_eq!`). *)
Definition set_frequency (dbg : bool) (s : ostate) (t : Z) (f : float) : outcome (ostate * Z) :=
  let! now_local := tfu s t in
  let! sh := time_diff now_local t in
  let s' := mk_ostate t sh f in
  let! _ := (if dbg then
               let! again := tfu s' t in
               if again =? now_local then Ok tt else Panic site_debug_assert
             else Ok tt) in
  Ok (s', now_local).

(** Clock::step_clock(offset) AS IT IS in /repo (finding F9): re-anchors
    [last_sync] without folding the accrued correction into [shift], and adds
    offset * (1e6 / (1e6 + ppm)) computed in f64. *)
Definition recip_float (f : float) : float := (1000000 / (1000000 + f))%float.

Definition step_clock_current (s : ostate) (t : Z) (off : Z) : outcome (ostate * Z) :=
  let! d := dur_mul_float off (recip_float (ppm s)) in
  let! sh := dur_add (shift s) d in
  let s' := mk_ostate t sh (ppm s) in
  let! ret := tfu s' t in
  Ok (s', ret).

(** ------------------------------------------------------------------ *)
(** * PROPOSED REPAIR of F9 (not what /repo does today)

    Re-anchor exactly like set_frequency does, moving the reading by offset:

        fn step_clock(&mut self, offset: Duration) -> Result<Time, Self::Error> {
            let now_roclock = self.roclock.now();
            let now_local = self.time_from_underlying(now_roclock) + offset;
            self.shift = now_local - now_roclock;
            self.last_sync = now_roclock;
            Ok(now_local)
        }                                                                  *)
Definition step_clock_fixed (s : ostate) (t : Z) (off : Z) : outcome (ostate * Z) :=
  let! before := tfu s t in
  let! now_local := time_add_dur before off in
  let! sh := time_diff now_local t in
  Ok (mk_ostate t sh (ppm s), now_local).
(** ------------------------------------------------------------------ *)

(** The step_clock the model runs.  ONE-LINE SWITCH: after the patch above is
    applied to /repo replace [step_clock_current] by [step_clock_fixed];
    Clock/OverlayLemmas.v ([step_clock_ok]) and Properties/C18.v compile
    unchanged with either choice. *)
Definition step_clock := step_clock_fixed.

(** * Operation sequences *)
Inductive oop :=
| ONow                      (* now()                         : [r]            *)
| OAdv (dt : Z)             (* now(); underlying += dt; now(): [r0; r1]       *)
| OSetFreq (f : float)      (* now(); set_frequency(f); now(): [pre; ret; post] *)
| OStep (off : Z)           (* now(); step_clock(off); now() : [pre; ret; post] *)
| OConv (q : Z).            (* time_from_underlying(q); now() with the underlying
                               clock showing q                : [c; r]        *)

(** Number of reads of the underlying clock an operation performs. *)
Definition op_reads (o : oop) : Z :=
  match o with ONow => 1 | OAdv _ => 2 | OSetFreq _ => 3 | OStep _ => 3 | OConv _ => 1 end.

Section RunOps.
  (* the step_clock implementation the sequence runs with *)
  Variable step : ostate -> Z -> Z -> outcome (ostate * Z).

  Fixpoint run_ops_with (dbg : bool) (s : ostate) (t : Z) (ops : list oop) : outcome (list (list Z)) :=
    match ops with
    | [] => Ok []
    | o :: ops' =>
        match o with
        | ONow =>
            let! r := overlay_now s t in
            let! rest := run_ops_with dbg s t ops' in Ok ([r] :: rest)
        | OAdv dt =>
            let! r0 := overlay_now s t in
            let! r1 := overlay_now s (t + dt) in
            let! rest := run_ops_with dbg s (t + dt) ops' in Ok ([r0; r1] :: rest)
        | OSetFreq f =>
            let! pre := overlay_now s t in
            let! sr := set_frequency dbg s t f in
            let! post := overlay_now (fst sr) t in
            let! rest := run_ops_with dbg (fst sr) t ops' in Ok ([pre; snd sr; post] :: rest)
        | OStep off =>
            let! pre := overlay_now s t in
            let! sr := step s t off in
            let! post := overlay_now (fst sr) t in
            let! rest := run_ops_with dbg (fst sr) t ops' in Ok ([pre; snd sr; post] :: rest)
        | OConv q =>
            let! c := tfu s q in
            let! r := overlay_now s q in
            let! rest := run_ops_with dbg s t ops' in Ok ([c; r] :: rest)
        end
    end.

  (** Whole run: `OverlayClock::new` with the underlying clock at [t0], then the
      operations; the last entry is [number of reads of the underlying clock;
      number of calls that reached the underlying clock's adjustment API (0)]. *)
  Definition run_overlay_with (dbg : bool) (t0 : Z) (ops : list oop) : outcome (list (list Z)) :=
    let! obs := run_ops_with dbg (overlay_new t0) t0 ops in
    Ok (obs ++ [[fold_right (fun o a => op_reads o + a) 1 ops; 0]]).
End RunOps.

Definition run_ops := run_ops_with step_clock.
Definition run_overlay := run_overlay_with step_clock.
