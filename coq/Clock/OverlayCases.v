(** Executable case format, model runner and property oracle for C18.
    No proofs here: this file must keep compiling when a proof breaks. *)
From SV Require Export Base.Cases Clock.OverlayModel.

(** * Domain of the property (computed from the INPUT only)

    underlying clock readings in [0, TMAX) with TMAX = 2^111 units of 2^-32 ns
    (about 2^79 ns; the PTP range [0, 2^48 s) plus any 50 advances of 10^4 s
    ends below 2^110); |ppm| <= 500 after conversion; |offset| <= 10 s;
    advances >= 0; converted timestamps taken since the last adjustment; and
    the clock starts at least 11 s * (number of operations + 1) after the
    epoch, so that the overlay reading (an unsigned `Time`) cannot be driven
    below zero by the requested steps. *)
Definition TMAX : Z := 2 ^ 111.
Definition SEC : Z := NS_PER_S * FRAC.                 (* one second, in bits *)
Definition B_STEP : Z := 11 * SEC.
Definition PPM_MAX : Z := 500 * FRAC.
Definition OFF_MAX : Z := 10 * SEC.
Definition MEGA : Z := 1000000.

(** |ppm| <= 500 in I96F32, and the f64 reciprocal 1e6/(1e6+ppm) used by the
    current step_clock converts to within 1/1000 of 1.0 (true of every f64 in
    [-500, 500]; here it is evaluated, not assumed). *)
Definition ppm_ok (f : float) : bool :=
  match float_to_fixed f, float_to_fixed (recip_float f) with
  | Ok p, Ok r => (Z.abs p <=? PPM_MAX) && (Z.abs (r - FRAC) * 1000 <=? FRAC)
  | _, _ => false
  end.

Fixpoint dom_ops (t la : Z) (ops : list oop) : bool :=
  match ops with
  | [] => true
  | ONow :: r => dom_ops t la r
  | OAdv dt :: r => (0 <=? dt) && (t + dt <? TMAX) && dom_ops (t + dt) la r
  | OSetFreq f :: r => ppm_ok f && dom_ops t t r
  | OStep off :: r => (Z.abs off <=? OFF_MAX) && dom_ops t t r
  | OConv q :: r => (la <=? q) && (q <? TMAX) && dom_ops t la r
  end.

Definition in_domain (t0 : Z) (ops : list oop) : bool :=
  ((Z.of_nat (length ops) + 1) * B_STEP <=? t0) && (t0 <? TMAX) && dom_ops t0 t0 ops.

(** * The property, written from its text, on OBSERVED readings only.

    Every operation of the trace is bracketed by readings of the overlay
    clock taken while the scripted underlying clock stands still, so that
    "the reading immediately before / after" is an observation, not a
    computation of the model.

    rate: over an advance of the underlying clock by dt (bits) with the
    frequency set to ppm = N / 2^k exactly (the f64 as a rational), the reading
    advances by dt * (1 + ppm/10^6) within 2^-32 ns * (2 + dt_ns / 10^6), i.e.
       | D - dt * ppm / 10^6 | <= 2 + dt / (10^6 * 2^32),   D = r1 - r0 - dt
    cleared of denominators (times 10^6 * 2^32 * 2^k). *)
Definition rate_ok (f : float) (dt r0 r1 : Z) : bool :=
  match float_to_q f with
  | Some (n, k) =>
      let D := r1 - r0 - dt in
      Z.abs (D * MEGA * 2 ^ k * FRAC - dt * n * FRAC) <=? (2 * MEGA * FRAC + dt) * 2 ^ k
  | None => false
  end.

(** [strict = false] skips the exactness of a step taken while the frequency
    offset is not zero (the recorded finding F9); nothing else is relaxed.
    [f] = the frequency in force (last set_frequency of the input, 0 at start). *)
Fixpoint ok_ops (strict : bool) (f : float) (ops : list oop) (obs : list (list Z)) : bool :=
  match ops with
  | [] => true
  | o :: ops' =>
      match obs with
      | [] => false
      | ob :: obs' =>
          match o, ob with
          | ONow, [_] => ok_ops strict f ops' obs'
          | OAdv dt, [r0; r1] => rate_ok f dt r0 r1 && ok_ops strict f ops' obs'
          | OSetFreq g, [pre; ret; post] =>
              (* continuous across the change; the returned time is the reading *)
              (post =? pre) && (ret =? pre) && ok_ops strict g ops' obs'
          | OStep off, [pre; ret; post] =>
              (* jumps by exactly the requested amount; returned = reading after *)
              (ret =? post)
              && ((post =? pre + off) || (negb strict && negb (float_is_zero f)))
              && ok_ops strict f ops' obs'
          | OConv _, [c; r] => (c =? r) && ok_ops strict f ops' obs'
          | _, _ => false
          end
      end
  end.

Definition ok_gen (strict : bool) (t0 : Z) (ops : list oop) (r : option (list (list Z))) : bool :=
  if in_domain t0 ops then
    match r with
    | Some obs => ok_ops strict 0%float ops obs
    | None => false
    end
  else true.

Definition ok_C18 := ok_gen true.

(* (start of the underlying clock, operations, built without debug checks?, observed) *)
Definition case := (Z * list oop * bool * option (list (list Z)))%type.

(** Known findings (see /verif/known_findings.txt).
    1 : F9 -- the ONLY failing checks are exact-jump checks of step_clock calls
        made while the frequency offset is not zero. *)
Definition kf_C18 (c : case) : Z :=
  let '(t0, ops, _, r) := c in
  if ok_gen true t0 ops r then 0
  else if ok_gen false t0 ops r then 1 else 0.

Fixpoint zll_eqb (a b : list (list Z)) : bool :=
  match a, b with
  | [], [] => true
  | x :: a', y :: b' => zlist_eqb x y && zll_eqb a' b'
  | _, _ => false
  end.

(* In a release build an overflow wraps instead of panicking and the
   debug_assert is compiled out; wrapped values are not modelled, so a case
   on which the model panics is only compared in debug builds. *)
Definition agree_C18 (c : case) : bool :=
  let '(t0, ops, rel, r) := c in
  match run_overlay (negb rel) t0 ops with
  | Panic _ => if rel then true else match r with None => true | Some _ => false end
  | Ok v => match r with Some w => zll_eqb v w | None => false end
  end.

Definition run_cases :=
  run_cases_gen agree_C18 (fun c : case => let '(t0, ops, _, r) := c in ok_C18 t0 ops r) kf_C18.
