(** Proofs about the overlay clock model (C18). *)
From SV Require Import Clock.OverlayCases.

(** * Numerals and small tools *)
Lemma P128 : 2 ^ 128 = 340282366920938463463374607431768211456. Proof. reflexivity. Qed.
Lemma P127 : 2 ^ 127 = 170141183460469231731687303715884105728. Proof. reflexivity. Qed.
Lemma P126 : 2 ^ 126 = 85070591730234615865843651857942052864. Proof. reflexivity. Qed.
Lemma P111 : 2 ^ 111 = 2596148429267413814265248164610048. Proof. reflexivity. Qed.
Lemma P32 : 2 ^ 32 = 4294967296. Proof. reflexivity. Qed.

Ltac consts :=
  unfold TMAX, B_STEP, PPM_MAX, OFF_MAX, SEC, MEGA, NS_PER_S, FRAC in *;
  change (128 - 1) with 127 in *;
  rewrite ?P128, ?P127, ?P126, ?P111, ?P32 in *.

Lemma in_u_true bits x : in_u bits x = true <-> 0 <= x < 2 ^ bits.
Proof. unfold in_u; lia. Qed.
Lemma in_i_true bits x : in_i bits x = true <-> - 2 ^ (bits - 1) <= x < 2 ^ (bits - 1).
Proof. unfold in_i; lia. Qed.
Lemma chk_u_ok s bits x : 0 <= x < 2 ^ bits -> chk_u s bits x = Ok x.
Proof. intros H; unfold chk_u. rewrite (proj2 (in_u_true bits x) H); reflexivity. Qed.
Lemma chk_i_ok s bits x : - 2 ^ (bits - 1) <= x < 2 ^ (bits - 1) -> chk_i s bits x = Ok x.
Proof. intros H; unfold chk_i. rewrite (proj2 (in_i_true bits x) H); reflexivity. Qed.
Lemma chk_u_inv s bits x y : chk_u s bits x = Ok y -> y = x /\ 0 <= x < 2 ^ bits.
Proof.
  unfold chk_u. destruct (in_u bits x) eqn:E; [|discriminate].
  intros H; inversion H; subst. split; [reflexivity | apply in_u_true; exact E].
Qed.
Lemma chk_i_inv s bits x y : chk_i s bits x = Ok y -> y = x /\ - 2 ^ (bits - 1) <= x < 2 ^ (bits - 1).
Proof.
  unfold chk_i. destruct (in_i bits x) eqn:E; [|discriminate].
  intros H; inversion H; subst. split; [reflexivity | apply in_i_true; exact E].
Qed.

Lemma obind_ok {A B} (x : outcome A) (f : A -> outcome B) b :
  obind x f = Ok b -> exists a, x = Ok a /\ f a = Ok b.
Proof. destruct x; cbn [obind]; [eauto | discriminate]. Qed.

(** quotient towards zero, as variables *)
Lemma quot_spec y n : 0 < n ->
  exists c r, Z.quot y n = c /\ y = n * c + r /\
              ((0 <= y /\ 0 <= r < n) \/ (y <= 0 /\ - n < r <= 0)).
Proof.
  intros Hn. exists (Z.quot y n), (Z.rem y n). split; [reflexivity|].
  split; [apply Z.quot_rem'|].
  destruct (Z_le_gt_dec 0 y) as [Hy|Hy].
  - left. split; [exact Hy|]. apply Z.rem_bound_pos; lia.
  - right. split; [lia|]. pose proof (Z.rem_bound_pos_neg y n ltac:(lia) ltac:(lia)). lia.
Qed.

Lemma floor_spec x n : 0 < n -> exists y r, x / n = y /\ x = n * y + r /\ 0 <= r < n.
Proof.
  intros Hn. exists (x / n), (x mod n). split; [reflexivity|].
  split; [apply Z.div_mod; lia | apply Z.mod_pos_bound; lia].
Qed.

Lemma abs_mul_le a b m : Z.abs b <= m -> Z.abs (a * b) <= Z.abs a * m.
Proof. intros H. rewrite Z.abs_mul. apply Z.mul_le_mono_nonneg_l; [apply Z.abs_nonneg | exact H]. Qed.

(** * Time/Duration primitives inside their ranges *)
(** `Time + Duration` saturates at 0 and at the largest U96F32 value *)
Definition sat_add (t d : Z) : Z :=
  if d <? 0 then Z.max 0 (t - Z.abs d) else Z.min TIME_MAX (t + Z.abs d).

Lemma time_add_dur_sat t d : time_add_dur t d = Ok (sat_add t d).
Proof. unfold time_add_dur, sat_add. destruct (d <? 0); reflexivity. Qed.

Lemma sat_add_exact t d : 0 <= t + d < 2 ^ 128 -> sat_add t d = t + d.
Proof. intros H. unfold sat_add, TIME_MAX. destruct (d <? 0) eqn:E; lia. Qed.

Lemma sat_add_range t d : 0 <= t < 2 ^ 128 -> 0 <= sat_add t d < 2 ^ 128.
Proof.
  intros H. unfold sat_add, TIME_MAX. rewrite P128 in *. destruct (d <? 0) eqn:E; lia.
Qed.

Lemma time_add_dur_ok t d : 0 <= t + d < 2 ^ 128 -> time_add_dur t d = Ok (t + d).
Proof. intros H. rewrite time_add_dur_sat, sat_add_exact by exact H. reflexivity. Qed.

Lemma time_diff_ok a b : 0 <= a < 2 ^ 127 -> 0 <= b < 2 ^ 127 -> time_diff a b = Ok (a - b).
Proof.
  intros Ha Hb. unfold time_diff, dur_from_time, dur_sub, dur_neg, dur_add.
  rewrite (chk_i_ok _ 128 a) by (consts; lia). cbn [obind].
  rewrite (chk_i_ok _ 128 b) by (consts; lia). cbn [obind].
  rewrite (chk_i_ok _ 128 (- b)) by (consts; lia). cbn [obind].
  rewrite (chk_i_ok _ 128) by (consts; lia). f_equal; lia.
Qed.

Lemma time_diff_inv a b d : time_diff a b = Ok d ->
  d = a - b /\ - 2 ^ 127 <= a < 2 ^ 127 /\ - 2 ^ 127 <= b < 2 ^ 127.
Proof.
  unfold time_diff, dur_from_time, dur_sub, dur_neg, dur_add. intros H.
  apply obind_ok in H as (x & Hx & H). apply chk_i_inv in Hx as (-> & Hx).
  apply obind_ok in H as (y & Hy & H). apply chk_i_inv in Hy as (-> & Hy).
  apply obind_ok in H as (n & Hn & H). apply chk_i_inv in Hn as (-> & Hn).
  apply chk_i_inv in H as (-> & H). change (128 - 1) with 127 in *. lia.
Qed.

Lemma dur_div_mega m : - 2 ^ 127 <= m < 2 ^ 127 -> dur_div_int m 1000000 = Ok (Z.quot m MEGA).
Proof.
  intros H. unfold dur_div_int. change (1000000 =? 0) with false. cbv iota.
  assert (E : Z.quot (m * FRAC) (1000000 * FRAC) = Z.quot m MEGA).
  { unfold MEGA. apply Z.quot_mul_cancel_r; unfold FRAC; rewrite ?P32; lia. }
  rewrite E. apply chk_i_ok. change (128 - 1) with 127.
  destruct (quot_spec m MEGA ltac:(unfold MEGA; lia)) as (c & r & -> & Hm & Hs).
  unfold MEGA in *. lia.
Qed.

(** * The affine map, on integers *)
Definition corr_z (p e : Z) : Z := Z.quot ((e * p) / FRAC) MEGA.
Definition reading_z (L sh p t : Z) : Z := t + sh + corr_z p (t - L).

Lemma corr_z_0 p : corr_z p 0 = 0.
Proof. unfold corr_z. rewrite Z.mul_0_l. reflexivity. Qed.

Lemma corr_z_p0 e : corr_z 0 e = 0.
Proof. unfold corr_z. rewrite Z.mul_0_r. reflexivity. Qed.

(** the product before the division stays far inside i128 *)
Lemma mul_range e p :
  Z.abs e <= TMAX -> Z.abs p <= PPM_MAX -> - 2 ^ 126 <= (e * p) / FRAC <= 2 ^ 126.
Proof.
  intros He Hp.
  pose proof (abs_mul_le e p PPM_MAX Hp) as Hx.
  assert (Hx2 : Z.abs e * PPM_MAX <= TMAX * PPM_MAX).
  { apply Z.mul_le_mono_nonneg_r; [unfold PPM_MAX, FRAC; rewrite P32; lia | exact He]. }
  destruct (floor_spec (e * p) FRAC ltac:(unfold FRAC; rewrite P32; lia)) as (y & r & -> & Hy & Hr).
  set (x := e * p) in *. clearbody x. consts. lia.
Qed.

(** |corr| <= |elapsed| / 2000 for |ppm| <= 500 *)
Lemma corr_abs p e : Z.abs p <= PPM_MAX -> 2000 * Z.abs (corr_z p e) <= Z.abs e.
Proof.
  intros Hp. unfold corr_z.
  pose proof (abs_mul_le e p PPM_MAX Hp) as Hx.
  destruct (floor_spec (e * p) FRAC ltac:(unfold FRAC; rewrite P32; lia)) as (y & r & -> & Hy & Hr).
  destruct (quot_spec y MEGA ltac:(unfold MEGA; lia)) as (c & r2 & -> & Hc & Hs).
  set (x := e * p) in *. clearbody x. set (ae := Z.abs e) in *.
  assert (0 <= ae) by apply Z.abs_nonneg. clearbody ae. consts. lia.
Qed.

(** truncation error of corr for non-negative elapsed time *)
Lemma corr_err e p : 0 <= e ->
  let d := e * p - MEGA * FRAC * corr_z p e in
  (0 <= p -> 0 <= d < MEGA * FRAC) /\ (p < 0 -> FRAC - MEGA * FRAC <= d < FRAC).
Proof.
  intros He. cbv zeta. unfold corr_z.
  destruct (floor_spec (e * p) FRAC ltac:(unfold FRAC; rewrite P32; lia)) as (y & r & -> & Hy & Hr).
  destruct (quot_spec y MEGA ltac:(unfold MEGA; lia)) as (c & r2 & -> & Hc & Hs).
  split; intros Hp.
  - assert (0 <= e * p) by (apply Z.mul_nonneg_nonneg; lia).
    set (x := e * p) in *. clearbody x. consts. lia.
  - assert (e * p <= 0) by (apply Z.mul_nonneg_nonpos; lia).
    set (x := e * p) in *. clearbody x. consts. lia.
Qed.

(** ** rate_bound (integer core): between two readings taken at underlying
    times t1 <= t2 after the last adjustment, the overlay clock advances by
    (t2 - t1) * (1 + p / (10^6 * 2^32)) with an error below ONE unit of 2^-32 ns. *)
Lemma rate_core L sh p t1 t2 :
  L <= t1 <= t2 ->
  let D := (reading_z L sh p t2 - reading_z L sh p t1) - (t2 - t1) in
  Z.abs (MEGA * FRAC * D - (t2 - t1) * p) < MEGA * FRAC.
Proof.
  intros Ht. cbv zeta. unfold reading_z.
  pose proof (corr_err (t1 - L) p ltac:(lia)) as H1.
  pose proof (corr_err (t2 - L) p ltac:(lia)) as H2.
  cbv zeta in H1, H2.
  set (c1 := corr_z p (t1 - L)) in *. set (c2 := corr_z p (t2 - L)) in *.
  assert (E : (t2 - t1) * p = (t2 - L) * p - (t1 - L) * p) by ring.
  rewrite E.
  set (x1 := (t1 - L) * p) in *. set (x2 := (t2 - L) * p) in *.
  clearbody c1 c2 x1 x2. clear E.
  destruct (Z_le_gt_dec 0 p) as [Hp|Hp].
  - destruct H1 as [H1 _], H2 as [H2 _]. specialize (H1 Hp). specialize (H2 Hp). consts. lia.
  - destruct H1 as [_ H1], H2 as [_ H2]. specialize (H1 ltac:(lia)). specialize (H2 ltac:(lia)). consts. lia.
Qed.

(** * time_from_underlying = the affine map (inside the ranges) *)
Definition safe (L sh p t : Z) : Prop :=
  0 <= L < TMAX /\ 0 <= t < TMAX /\ Z.abs p <= PPM_MAX /\ Z.abs sh <= 2 ^ 126 /\
  0 <= t + sh /\ 0 <= reading_z L sh p t.

Lemma tfu_ok s t p :
  float_to_fixed (ppm s) = Ok p ->
  safe (last_sync s) (shift s) p t ->
  tfu s t = Ok (reading_z (last_sync s) (shift s) p t).
Proof.
  intros Hp (HL & Ht & Hpp & Hsh & Hts & Hr).
  pose proof (corr_abs p (t - last_sync s) Hpp) as Hc.
  pose proof (mul_range (t - last_sync s) p ltac:(consts; lia) Hpp) as Hm.
  unfold reading_z in *. unfold tfu.
  rewrite time_diff_ok by (consts; lia). cbn [obind].
  unfold dur_mul_float. rewrite Hp. cbn [obind].
  rewrite chk_i_ok by (consts; lia). cbn [obind].
  rewrite dur_div_mega by (consts; lia). cbn [obind].
  fold (corr_z p (t - last_sync s)).
  set (c := corr_z p (t - last_sync s)) in *. clearbody c.
  rewrite time_add_dur_ok by (consts; lia). cbn [obind].
  apply time_add_dur_ok. consts. lia.
Qed.

(** every successful conversion is the SATURATING affine map (no range
    hypothesis), which is the affine map itself whenever neither addition
    leaves the range of `Time` *)
Definition reading_sat (L sh p t : Z) : Z := sat_add (sat_add t sh) (corr_z p (t - L)).

Definition exact_at (s : ostate) (p t : Z) : Prop :=
  0 <= t + shift s < 2 ^ 128 /\ 0 <= reading_z (last_sync s) (shift s) p t < 2 ^ 128.

Lemma reading_sat_exact s p t :
  exact_at s p t ->
  reading_sat (last_sync s) (shift s) p t = reading_z (last_sync s) (shift s) p t.
Proof.
  intros (H1 & H2). unfold reading_sat, reading_z in *.
  rewrite (sat_add_exact t (shift s)) by exact H1. apply sat_add_exact. exact H2.
Qed.

Lemma tfu_inv s t r :
  tfu s t = Ok r ->
  exists p, float_to_fixed (ppm s) = Ok p /\
            r = reading_sat (last_sync s) (shift s) p t /\
            (0 <= t -> 0 <= r < 2 ^ 128) /\ - 2 ^ 127 <= t < 2 ^ 127.
Proof.
  unfold tfu. intros H.
  apply obind_ok in H as (e & He & H). apply time_diff_inv in He as (-> & Ht & HL).
  apply obind_ok in H as (m & Hm & H). unfold dur_mul_float in Hm.
  apply obind_ok in Hm as (p & Hp & Hm). apply chk_i_inv in Hm as (-> & Hm).
  apply obind_ok in H as (c & Hc & H).
  rewrite dur_div_mega in Hc by (change (128 - 1) with 127 in Hm; exact Hm).
  inversion Hc; subst c; clear Hc.
  apply obind_ok in H as (a & Ha & H). rewrite time_add_dur_sat in Ha, H.
  inversion Ha; subst a; clear Ha. inversion H; subst r; clear H.
  exists p. split; [exact Hp|]. split; [reflexivity|]. split; [|exact Ht].
  intros H0. apply sat_add_range, sat_add_range. rewrite P128, P127 in *. lia.
Qed.

Lemma tfu_exact s t r p :
  float_to_fixed (ppm s) = Ok p -> exact_at s p t -> tfu s t = Ok r ->
  r = reading_z (last_sync s) (shift s) p t.
Proof.
  intros Hp Hx H. apply tfu_inv in H as (p' & Hp' & -> & _).
  rewrite Hp in Hp'. inversion Hp'; subst p'. apply reading_sat_exact. exact Hx.
Qed.

(** reading at the anchor itself, after re-anchoring with shift = r - t *)
Lemma tfu_after_sync t r f p :
  float_to_fixed f = Ok p -> 0 <= r < 2 ^ 128 -> 0 <= t < 2 ^ 127 ->
  tfu (mk_ostate t (r - t) f) t = Ok r.
Proof.
  intros Hp Hr Ht. unfold tfu. cbn [last_sync shift ppm].
  rewrite time_diff_ok by lia. cbn [obind].
  unfold dur_mul_float. rewrite Hp. cbn [obind].
  replace (t - t) with 0 by lia. rewrite Z.mul_0_l.
  change (0 / FRAC) with 0.
  rewrite chk_i_ok by (change (128 - 1) with 127; rewrite P127; lia). cbn [obind].
  rewrite dur_div_mega by (rewrite P127; lia). cbn [obind].
  change (Z.quot 0 MEGA) with 0.
  rewrite time_add_dur_ok by (replace (t + (r - t)) with r by lia; exact Hr). cbn [obind].
  replace (t + (r - t)) with r by lia.
  rewrite time_add_dur_ok by (rewrite Z.add_0_r; exact Hr).
  f_equal; lia.
Qed.

(** * set_frequency *)

(** freq_change_continuous + returned_is_reading, with no range hypothesis:
    whenever set_frequency returns, the value returned is the reading just
    before the change, and (the new ppm being convertible) also the reading
    just after it, at the same underlying instant. *)
Lemma set_frequency_spec dbg s t f s' ret :
  0 <= t ->
  set_frequency dbg s t f = Ok (s', ret) ->
  tfu s t = Ok ret /\
  (forall p, float_to_fixed f = Ok p -> tfu s' t = Ok ret) /\
  last_sync s' = t /\ shift s' = ret - t /\ ppm s' = f.
Proof.
  intros H0 H. unfold set_frequency in H.
  apply obind_ok in H as (nl & Hnl & H).
  apply obind_ok in H as (sh & Hsh & H).
  apply obind_ok in H as (u & _ & H). inversion H; subst s' ret; clear H.
  apply time_diff_inv in Hsh as (-> & Hr & Ht).
  destruct (tfu_inv _ _ _ Hnl) as (p0 & _ & _ & Hrr & _). specialize (Hrr H0).
  split; [exact Hnl|]. split; [|cbn; auto].
  intros p Hp. apply (tfu_after_sync t nl f p Hp Hrr). lia.
Qed.

(** The `debug_assert_eq!` of set_frequency can never fail: for a convertible
    ppm the debug build computes exactly what the release build computes. *)
Lemma debug_assert_never_fails s t f p :
  0 <= t -> float_to_fixed f = Ok p ->
  set_frequency true s t f = set_frequency false s t f.
Proof.
  intros H0 Hp. unfold set_frequency.
  destruct (tfu s t) as [nl|] eqn:Hnl; cbn [obind]; [|reflexivity].
  destruct (time_diff nl t) as [sh|] eqn:Hsh; cbn [obind]; [|reflexivity].
  apply time_diff_inv in Hsh as (-> & Hr & Ht).
  destruct (tfu_inv _ _ _ Hnl) as (p0 & _ & _ & Hrr & _). specialize (Hrr H0).
  rewrite (tfu_after_sync t nl f p Hp Hrr) by lia. cbn [obind].
  rewrite Z.eqb_refl. reflexivity.
Qed.

(** * step_clock *)
Lemma step_current_returns s t off s' ret :
  step_clock_current s t off = Ok (s', ret) ->
  tfu s' t = Ok ret /\ last_sync s' = t /\ ppm s' = ppm s.
Proof.
  unfold step_clock_current. intros H.
  apply obind_ok in H as (d & Hd & H).
  apply obind_ok in H as (sh & Hsh & H).
  apply obind_ok in H as (r & Hr & H). inversion H; subst s' ret; clear H.
  split; [exact Hr | cbn; auto].
Qed.

(** floats whose [Prim2SF] is a zero are +0.0 and -0.0 (uses the standard
    library's [SF2Prim_Prim2SF]) *)
Lemma float_zero_cases f : float_is_zero f = true -> f = 0%float \/ f = (-0)%float.
Proof.
  unfold float_is_zero. intros H.
  destruct (Prim2SF f) as [sg| | |] eqn:E; try discriminate.
  rewrite <- (SF2Prim_Prim2SF f), E. destruct sg; [right | left]; reflexivity.
Qed.

Lemma zero_ppm_facts f : float_is_zero f = true ->
  float_to_fixed f = Ok 0 /\ float_to_fixed (recip_float f) = Ok FRAC.
Proof.
  intros H. destruct (float_zero_cases f H) as [-> | ->]; split; vm_compute; reflexivity.
Qed.

(** step_exact on the code as it is, for ppm = +-0.0: the reading jumps by
    exactly the requested offset (the only hypothesis: the readings before and
    after are representable, i.e. `Time + Duration` does not saturate). *)
Lemma step_exact_zero_ppm s t off pre s' ret :
  float_is_zero (ppm s) = true ->
  0 <= t + shift s < 2 ^ 128 -> 0 <= t + shift s + off < 2 ^ 128 ->
  tfu s t = Ok pre ->
  step_clock_current s t off = Ok (s', ret) ->
  ret = pre + off /\ tfu s' t = Ok ret.
Proof.
  intros Hz Hx1 Hx2 Hpre H.
  destruct (zero_ppm_facts _ Hz) as (Hp0 & Hr1).
  destruct (step_current_returns _ _ _ _ _ H) as (Hret & _ & _).
  split; [|exact Hret].
  unfold step_clock_current in H.
  apply obind_ok in H as (d & Hd & H).
  apply obind_ok in H as (sh & Hsh & H).
  apply obind_ok in H as (r & Hr & H). inversion H; subst s' ret; clear H.
  unfold dur_mul_float in Hd. rewrite Hr1 in Hd. cbn [obind] in Hd.
  apply chk_i_inv in Hd as (-> & _).
  unfold dur_add in Hsh. apply chk_i_inv in Hsh as (-> & _).
  rewrite Z.div_mul in * by (unfold FRAC; rewrite P32; lia).
  apply (tfu_exact _ _ _ 0 Hp0) in Hpre.
  2:{ unfold exact_at, reading_z. rewrite corr_z_p0. lia. }
  apply (tfu_exact _ _ _ 0) in Hr; [|exact Hp0|].
  2:{ unfold exact_at, reading_z. cbn [ppm last_sync shift]. rewrite corr_z_p0. lia. }
  subst pre r. unfold reading_z. cbn [ppm last_sync shift]. rewrite !corr_z_p0. lia.
Qed.

(** F9: with ppm <> 0 the statement is false of the code as it is.
    +10 s requested after 100 s at +500 ppm moves the reading by about 9.945 s
    (54 997 500 ns short). *)
Definition f9_state : ostate := mk_ostate (1000 * SEC) 0 500%float.
Lemma step_exact_refuted :
  exists s t off pre s' ret,
    ppm_ok (ppm s) = true /\ Z.abs off <= OFF_MAX /\
    tfu s t = Ok pre /\ step_clock_current s t off = Ok (s', ret) /\
    tfu s' t = Ok ret /\ ret <> pre + off /\
    (pre + off - ret) / FRAC = 54997500.
Proof.
  exists f9_state, (1100 * SEC), (10 * SEC).
  eexists. eexists. eexists.
  split; [vm_compute; reflexivity|].
  split; [vm_compute; discriminate|].
  split; [vm_compute; reflexivity|].
  split; [vm_compute; reflexivity|].
  split; [vm_compute; reflexivity|].
  split; [vm_compute; discriminate | vm_compute; reflexivity].
Qed.

(** step_exact for the PROPOSED repair, for every ppm (only hypothesis: the
    stepped reading is representable, i.e. no saturation) *)
Lemma step_exact_fixed s t off pre s' ret :
  0 <= t ->
  tfu s t = Ok pre -> 0 <= pre + off < 2 ^ 128 ->
  step_clock_fixed s t off = Ok (s', ret) ->
  ret = pre + off /\ tfu s' t = Ok ret /\
  last_sync s' = t /\ shift s' = ret - t /\ ppm s' = ppm s.
Proof.
  intros H0 Hpre Hr H. unfold step_clock_fixed in H. rewrite Hpre in H. cbn [obind] in H.
  rewrite (time_add_dur_ok pre off Hr) in H. cbn [obind] in H.
  apply obind_ok in H as (sh & Hsh & H). inversion H; subst s' ret; clear H.
  apply time_diff_inv in Hsh as (-> & Hr2 & Ht).
  destruct (tfu_inv _ _ _ Hpre) as (p & Hp & _).
  split; [reflexivity|]. split; [|cbn; auto].
  apply (tfu_after_sync t (pre + off) (ppm s) p Hp Hr). lia.
Qed.

(** * The f64 ppm as an exact rational, and its I96F32 conversion *)
Lemma rhe_spec m k : 0 < k -> 0 <= m ->
  Z.abs (2 * (round_half_even_div_pow2 m k * 2 ^ k) - 2 * m) <= 2 ^ k.
Proof.
  intros Hk Hm. unfold round_half_even_div_pow2.
  assert (HK : 0 < 2 ^ k) by (apply Z.pow_pos_nonneg; lia).
  destruct (floor_spec m (2 ^ k) HK) as (q & r & Eq & Hq & Hr).
  assert (Er : m mod 2 ^ k = r).
  { rewrite Hq. rewrite Z.mul_comm, Z.add_comm, Z.mod_add by lia. apply Z.mod_small; lia. }
  rewrite Eq, Er. set (K := 2 ^ k) in *. clearbody K.
  destruct (2 * r <? K) eqn:E1; [lia|].
  destruct (K <? 2 * r) eqn:E2; [lia|].
  destruct (Z.even q); lia.
Qed.

Lemma to_fixed_q f p : float_to_fixed f = Ok p ->
  exists n k, float_to_q f = Some (n, k) /\ 0 <= k /\
              Z.abs (2 * (p * 2 ^ k) - 2 * (n * FRAC)) <= 2 ^ k.
Proof.
  unfold float_to_fixed, float_to_q. destruct (Prim2SF f) as [sg|sg| |sg m e]; try discriminate.
  - intros H; inversion H; subst p. exists 0, 0. split; [reflexivity|]. split; [lia|]. cbn. lia.
  - intros H. apply chk_i_inv in H as (-> & _).
    assert (HF : FRAC = 2 ^ 32) by reflexivity.
    destruct (0 <=? e) eqn:E0.
    + (* integer-valued float: exact *)
      replace (0 <=? e + 32) with true by lia.
      exists ((if sg then - Z.pos m else Z.pos m) * 2 ^ e), 0.
      split; [reflexivity|]. split; [lia|].
      rewrite Z.pow_add_r by lia. rewrite HF. change (2 ^ 0) with 1.
      destruct sg; lia.
    + exists (if sg then - Z.pos m else Z.pos m), (- e).
      split; [reflexivity|]. split; [lia|].
      destruct (0 <=? e + 32) eqn:E1.
      * (* at least 2^-32 resolution: exact *)
        assert (E : 2 ^ (e + 32) * 2 ^ (- e) = 2 ^ 32).
        { rewrite <- Z.pow_add_r by lia. f_equal. lia. }
        assert (0 < 2 ^ (- e)) by (apply Z.pow_pos_nonneg; lia).
        rewrite HF. set (A := 2 ^ (e + 32)) in *. set (Bk := 2 ^ (- e)) in *.
        assert (E' : Z.pos m * A * Bk = Z.pos m * 2 ^ 32) by (rewrite <- E; ring).
        destruct sg.
        -- replace (2 * (- (Z.pos m * A) * Bk) - 2 * (- Z.pos m * 2 ^ 32)) with 0 by lia. lia.
        -- replace (2 * (Z.pos m * A * Bk) - 2 * (Z.pos m * 2 ^ 32)) with 0 by lia. lia.
      * (* rounded to nearest, ties to even *)
        pose proof (rhe_spec (Z.pos m) (- (e + 32)) ltac:(lia) ltac:(lia)) as Hr.
        assert (E : 2 ^ (- e) = 2 ^ (- (e + 32)) * 2 ^ 32).
        { rewrite <- Z.pow_add_r by lia. f_equal. lia. }
        rewrite E, HF.
        set (q := round_half_even_div_pow2 (Z.pos m) (- (e + 32))) in *.
        set (J := 2 ^ (- (e + 32))) in *.
        assert (0 < J) by (apply Z.pow_pos_nonneg; lia).
        clearbody q J. rewrite P32.
        destruct sg.
        -- replace (2 * (- q * (J * 4294967296)) - 2 * (- Z.pos m * 4294967296))
             with (- (4294967296 * (2 * (q * J) - 2 * Z.pos m))) by ring.
           rewrite Z.abs_opp, Z.abs_mul. change (Z.abs 4294967296) with 4294967296. lia.
        -- replace (2 * (q * (J * 4294967296)) - 2 * (Z.pos m * 4294967296))
             with (4294967296 * (2 * (q * J) - 2 * Z.pos m)) by ring.
           rewrite Z.abs_mul. change (Z.abs 4294967296) with 4294967296. lia.
Qed.

(** the oracle's rate check is implied by [rate_core] *)
Lemma rate_ok_model f p L sh t dt :
  float_to_fixed f = Ok p -> L <= t -> 0 <= dt ->
  rate_ok f dt (reading_z L sh p t) (reading_z L sh p (t + dt)) = true.
Proof.
  intros Hp Ht Hdt.
  destruct (to_fixed_q f p Hp) as (n & k & Hq & Hk & HE).
  unfold rate_ok. rewrite Hq. apply Z.leb_le.
  pose proof (rate_core L sh p t (t + dt) ltac:(lia)) as HA. cbv zeta in HA.
  replace (t + dt - t) with dt in HA by lia.
  set (D := reading_z L sh p (t + dt) - reading_z L sh p t - dt) in *. clearbody D.
  assert (HK : 0 < 2 ^ k) by (apply Z.pow_pos_nonneg; lia).
  set (K := 2 ^ k) in *. clearbody K.
  set (A := MEGA * FRAC * D - dt * p) in *.
  set (E := p * K - n * FRAC) in *.
  replace (D * MEGA * K * FRAC - dt * n * FRAC) with (K * A + dt * E) by (unfold A, E; ring).
  assert (H1 : Z.abs (K * A) <= K * (MEGA * FRAC)).
  { rewrite Z.abs_mul. rewrite (Z.abs_eq K) by lia. apply Z.mul_le_mono_nonneg_l; lia. }
  assert (H2 : 2 * Z.abs (dt * E) <= dt * K).
  { rewrite Z.abs_mul. rewrite (Z.abs_eq dt) by lia.
    replace (2 * (dt * Z.abs E)) with (dt * (2 * Z.abs E)) by ring.
    apply Z.mul_le_mono_nonneg_l; [lia|].
    replace (2 * (p * K) - 2 * (n * FRAC)) with (2 * E) in HE by (unfold E; ring).
    rewrite Z.abs_mul in HE. change (Z.abs 2) with 2 in HE. exact HE. }
  pose proof (Z.abs_triangle (K * A) (dt * E)).
  replace ((2 * MEGA * FRAC + dt) * K) with (2 * (K * (MEGA * FRAC)) + dt * K) by ring.
  assert (0 <= K * (MEGA * FRAC)) by (apply Z.mul_nonneg_nonneg; consts; lia).
  assert (0 <= dt * K) by (apply Z.mul_nonneg_nonneg; lia).
  lia.
Qed.

(** * Invariant of operation sequences

    [k] = number of adjustments made so far.  Each adjustment can move [shift]
    by at most B_STEP = 11 s (a step) resp. by the accrued correction, which is
    at most 1/2000 of the underlying time elapsed since the previous anchor. *)
Definition Inv (t0 k : Z) (s : ostate) : Prop :=
  ppm_ok (ppm s) = true /\ t0 <= last_sync s /\
  2000 * Z.abs (shift s) <= 2000 * k * B_STEP + (last_sync s - t0).

Lemma ppm_ok_inv f : ppm_ok f = true ->
  exists p r, float_to_fixed f = Ok p /\ float_to_fixed (recip_float f) = Ok r /\
              Z.abs p <= PPM_MAX /\ Z.abs (r - FRAC) * 1000 <= FRAC.
Proof.
  unfold ppm_ok. destruct (float_to_fixed f) as [p|]; [|discriminate].
  destruct (float_to_fixed (recip_float f)) as [r|]; [|discriminate].
  intros H. exists p, r. repeat split; lia.
Qed.

(** Inside the invariant every reading at or after the anchor is computed
    without overflow, equals the affine map, and is at least t0 - k * 11 s. *)
Lemma inv_now t0 k s q :
  0 <= k -> Inv t0 k s -> (k + 1) * B_STEP <= t0 -> last_sync s <= q < TMAX ->
  exists p, float_to_fixed (ppm s) = Ok p /\ Z.abs p <= PPM_MAX /\
            tfu s q = Ok (reading_z (last_sync s) (shift s) p q) /\
            t0 - k * B_STEP <= reading_z (last_sync s) (shift s) p q < 2 ^ 126 /\
            2000 * Z.abs (corr_z p (q - last_sync s)) <= q - last_sync s.
Proof.
  intros Hk (Hppm & HL & Hsh) Hb Hq.
  destruct (ppm_ok_inv _ Hppm) as (p & r & Hp & _ & Hpp & _).
  exists p. split; [exact Hp|]. split; [exact Hpp|].
  pose proof (corr_abs p (q - last_sync s) Hpp) as Hc.
  rewrite (Z.abs_eq (q - last_sync s)) in Hc by lia.
  assert (Hr : t0 - k * B_STEP <= reading_z (last_sync s) (shift s) p q < 2 ^ 126).
  { unfold reading_z. set (c := corr_z p (q - last_sync s)) in *. clearbody c. consts. lia. }
  split; [|split; [exact Hr | exact Hc]].
  apply tfu_ok; [exact Hp|]. unfold safe.
  unfold reading_z in *. set (c := corr_z p (q - last_sync s)) in *. clearbody c.
  consts. repeat split; lia.
Qed.

Lemma inv_set_frequency dbg t0 k s t f :
  0 <= k -> Inv t0 k s -> (k + 2) * B_STEP <= t0 -> last_sync s <= t < TMAX ->
  ppm_ok f = true ->
  exists s' ret,
    tfu s t = Ok ret /\ set_frequency dbg s t f = Ok (s', ret) /\ tfu s' t = Ok ret /\
    Inv t0 (k + 1) s' /\ last_sync s' = t /\ ppm s' = f.
Proof.
  intros Hk HI Hb Ht Hf.
  destruct (inv_now t0 k s t Hk HI ltac:(consts; lia) Ht) as (p & Hp & Hpp & Hnow & Hr & Hc).
  destruct HI as (Hppm & HL & Hsh).
  destruct (ppm_ok_inv _ Hf) as (p' & r' & Hp' & _).
  set (r := reading_z (last_sync s) (shift s) p t) in *.
  assert (Hfalse : set_frequency false s t f = Ok (mk_ostate t (r - t) f, r)).
  { unfold set_frequency. rewrite Hnow. cbn [obind].
    rewrite time_diff_ok by (consts; lia). cbn [obind]. reflexivity. }
  assert (Hany : set_frequency dbg s t f = Ok (mk_ostate t (r - t) f, r)).
  { destruct dbg; [|exact Hfalse].
    rewrite (debug_assert_never_fails s t f p') by (try exact Hp'; consts; lia). exact Hfalse. }
  exists (mk_ostate t (r - t) f), r.
  split; [exact Hnow|]. split; [exact Hany|].
  split; [apply (tfu_after_sync t r f p' Hp'); consts; lia|].
  split; [|cbn; auto].
  unfold Inv. cbn [ppm last_sync shift]. split; [exact Hf|]. split; [lia|].
  subst r. unfold reading_z in *. set (c := corr_z p (t - last_sync s)) in *. clearbody c.
  consts. lia.
Qed.

(** the scaled offset of the current step_clock stays below 11 s *)
Lemma recip_mul_bound off r :
  Z.abs off <= OFF_MAX -> Z.abs (r - FRAC) * 1000 <= FRAC ->
  Z.abs ((off * r) / FRAC) <= B_STEP - 1.
Proof.
  intros Ho Hr.
  assert (E : off * r = off * FRAC + off * (r - FRAC)) by ring.
  rewrite E. rewrite Z.div_add_l by (unfold FRAC; rewrite P32; lia).
  pose proof (abs_mul_le off (r - FRAC) 4294968 ltac:(consts; lia)) as Hx.
  destruct (floor_spec (off * (r - FRAC)) FRAC ltac:(unfold FRAC; rewrite P32; lia)) as (y & r2 & -> & Hy & Hr2).
  set (x := off * (r - FRAC)) in *. clearbody x. consts. lia.
Qed.

Definition step_spec (strict : bool) (step : ostate -> Z -> Z -> outcome (ostate * Z)) : Prop :=
  forall t0 k s t off,
    0 <= k -> Inv t0 k s -> (k + 2) * B_STEP <= t0 -> last_sync s <= t < TMAX ->
    Z.abs off <= OFF_MAX ->
    exists pre s' ret,
      tfu s t = Ok pre /\ step s t off = Ok (s', ret) /\ tfu s' t = Ok ret /\
      Inv t0 (k + 1) s' /\ last_sync s' = t /\ ppm s' = ppm s /\
      (strict = true \/ float_is_zero (ppm s) = true -> ret = pre + off).

Lemma step_current_ok : step_spec false step_clock_current.
Proof.
  intros t0 k s t off Hk HI Hb Ht Ho.
  destruct (inv_now t0 k s t Hk HI ltac:(consts; lia) Ht) as (p & Hp & Hpp & Hnow & Hr & Hc).
  pose proof HI as (Hppm & HL & Hsh).
  destruct (ppm_ok_inv _ Hppm) as (p1 & r & Hp1 & Hrf & _ & Hrr).
  pose proof (recip_mul_bound off r Ho Hrr) as Hd.
  set (d := (off * r) / FRAC) in *.
  set (s' := mk_ostate t (shift s + d) (ppm s)).
  assert (HI' : Inv t0 (k + 1) s').
  { unfold Inv, s'. cbn [ppm last_sync shift]. split; [exact Hppm|]. split; [lia|].
    clearbody d. consts. lia. }
  destruct (inv_now t0 (k + 1) s' t ltac:(lia) HI' ltac:(consts; lia) ltac:(cbn; lia))
    as (p2 & _ & _ & Hnow' & _).
  set (ret := reading_z (last_sync s') (shift s') p2 t) in *.
  assert (Hstep : step_clock_current s t off = Ok (s', ret)).
  { unfold step_clock_current, dur_mul_float. rewrite Hrf. cbn [obind]. fold d.
    rewrite chk_i_ok by (clearbody d; consts; lia). cbn [obind].
    unfold dur_add. rewrite chk_i_ok by (clearbody d; consts; lia). cbn [obind].
    fold s'. rewrite Hnow'. reflexivity. }
  exists (reading_z (last_sync s) (shift s) p t), s', ret.
  split; [exact Hnow|]. split; [exact Hstep|]. split; [exact Hnow'|].
  split; [exact HI'|]. split; [reflexivity|]. split; [reflexivity|].
  intros [Hs | Hz]; [discriminate|].
  apply (step_exact_zero_ppm s t off _ s' ret Hz); [| |exact Hnow|exact Hstep].
  - clear - Hk Hb Ht Ho HL Hsh. consts. lia.
  - clear - Hk Hb Ht Ho HL Hsh. consts. lia.
Qed.

Lemma step_fixed_ok strict : step_spec strict step_clock_fixed.
Proof.
  intros t0 k s t off Hk HI Hb Ht Ho.
  destruct (inv_now t0 k s t Hk HI ltac:(consts; lia) Ht) as (p & Hp & Hpp & Hnow & Hr & Hc).
  pose proof HI as (Hppm & HL & Hsh).
  set (pre := reading_z (last_sync s) (shift s) p t) in *.
  set (s' := mk_ostate t (pre + off - t) (ppm s)).
  assert (Hstep : step_clock_fixed s t off = Ok (s', pre + off)).
  { unfold step_clock_fixed. rewrite Hnow. cbn [obind].
    rewrite time_add_dur_ok by (consts; lia). cbn [obind].
    rewrite time_diff_ok by (consts; lia). reflexivity. }
  exists pre, s', (pre + off).
  split; [exact Hnow|]. split; [exact Hstep|].
  split; [apply (tfu_after_sync t (pre + off) (ppm s) p Hp); consts; lia|].
  split; [|auto].
  unfold Inv, s'. cbn [ppm last_sync shift]. split; [exact Hppm|]. split; [lia|].
  subst pre. unfold reading_z in *. set (c := corr_z p (t - last_sync s)) in *. clearbody c.
  consts. lia.
Qed.

(** the step_clock the model currently runs satisfies the (relaxed) spec;
    after the one-line switch of the model the second alternative applies *)
Lemma step_clock_ok : step_spec false step_clock.
Proof. first [exact step_current_ok | exact (step_fixed_ok false)]. Qed.

(** * Sequences of any length *)
Lemma ok_ops_app strict ops : forall f obs extra,
  ok_ops strict f ops obs = true -> ok_ops strict f ops (obs ++ extra) = true.
Proof.
  induction ops as [|o ops IH]; intros f obs extra H; [reflexivity|].
  destruct obs as [|ob obs]; [discriminate|].
  cbn [ok_ops app] in *.
  destruct o; destruct ob as [|a [|b [|c [|? ?]]]]; try discriminate;
    repeat (apply andb_true_iff in H as [H ?]);
    repeat (apply andb_true_iff; split); auto.
Qed.

Section Sequences.
  Variable step : ostate -> Z -> Z -> outcome (ostate * Z).
  Variable strict : bool.
  Hypothesis step_ok : step_spec strict step.

  Lemma run_ops_ok dbg t0 : forall ops k s t,
    0 <= k -> Inv t0 k s ->
    (k + Z.of_nat (length ops) + 1) * B_STEP <= t0 ->
    last_sync s <= t < TMAX ->
    dom_ops t (last_sync s) ops = true ->
    exists obs, run_ops_with step dbg s t ops = Ok obs /\
                ok_ops strict (ppm s) ops obs = true.
  Proof.
    induction ops as [|o ops IH]; intros k s t Hk HI Hb Ht Hd.
    - exists []. split; reflexivity.
    - assert (Hlen : Z.of_nat (length (o :: ops)) = Z.of_nat (length ops) + 1)
        by (cbn [length]; lia).
      rewrite Hlen in Hb.
      assert (Hb1 : (k + 1) * B_STEP <= t0) by (consts; lia).
      assert (Hb2 : (k + 2) * B_STEP <= t0) by (consts; lia).
      destruct o as [|dt|f|off|q]; cbn [dom_ops] in Hd.
      + (* now *)
        destruct (inv_now t0 k s t Hk HI Hb1 Ht) as (p & _ & _ & Hnow & _).
        destruct (IH k s t Hk HI ltac:(consts; lia) Ht Hd) as (obs & Hrun & Hok).
        eexists. cbn [run_ops_with]. unfold overlay_now. rewrite Hnow. cbn [obind].
        rewrite Hrun. cbn [obind]. split; [reflexivity|]. cbn [ok_ops]. exact Hok.
      + (* advance *)
        apply andb_true_iff in Hd as [Hd Hd3]. apply andb_true_iff in Hd as [Hd1 Hd2].
        destruct (inv_now t0 k s t Hk HI Hb1 Ht) as (p & Hp & _ & Hnow & _).
        destruct (inv_now t0 k s (t + dt) Hk HI Hb1 ltac:(lia)) as (p' & Hp' & _ & Hnow' & _).
        rewrite Hp in Hp'. inversion Hp'; subst p'.
        destruct (IH k s (t + dt) Hk HI ltac:(consts; lia) ltac:(lia) Hd3) as (obs & Hrun & Hok).
        eexists. cbn [run_ops_with]. unfold overlay_now. rewrite Hnow, Hnow'. cbn [obind].
        rewrite Hrun. cbn [obind]. split; [reflexivity|]. cbn [ok_ops].
        rewrite (rate_ok_model (ppm s) p) by (try exact Hp; lia). exact Hok.
      + (* set_frequency *)
        apply andb_true_iff in Hd as [Hd1 Hd2].
        destruct (inv_set_frequency dbg t0 k s t f Hk HI Hb2 Ht Hd1)
          as (s' & ret & Hpre & Hset & Hpost & HI' & HL' & Hf').
        rewrite <- HL' in Hd2 at 2.
        destruct (IH (k + 1) s' t ltac:(lia) HI' ltac:(consts; lia) ltac:(lia) Hd2) as (obs & Hrun & Hok).
        eexists. cbn [run_ops_with]. unfold overlay_now. rewrite Hpre. cbn [obind].
        rewrite Hset. cbn [obind fst snd]. rewrite Hpost. cbn [obind].
        rewrite Hrun. cbn [obind]. split; [reflexivity|]. cbn [ok_ops].
        rewrite !Z.eqb_refl. rewrite <- Hf'. exact Hok.
      + (* step_clock *)
        apply andb_true_iff in Hd as [Hd1 Hd2].
        destruct (step_ok t0 k s t off Hk HI Hb2 Ht ltac:(lia))
          as (pre & s' & ret & Hpre & Hstep & Hpost & HI' & HL' & Hf' & Hex).
        rewrite <- HL' in Hd2 at 2.
        destruct (IH (k + 1) s' t ltac:(lia) HI' ltac:(consts; lia) ltac:(lia) Hd2) as (obs & Hrun & Hok).
        eexists. cbn [run_ops_with]. unfold overlay_now. rewrite Hpre. cbn [obind].
        rewrite Hstep. cbn [obind fst snd]. rewrite Hpost. cbn [obind].
        rewrite Hrun. cbn [obind]. split; [reflexivity|]. cbn [ok_ops].
        rewrite Z.eqb_refl. rewrite Hf' in Hok. rewrite Hok. rewrite andb_true_r. cbn [andb].
        destruct strict eqn:Es.
        * rewrite (Hex (or_introl eq_refl)), Z.eqb_refl. reflexivity.
        * destruct (float_is_zero (ppm s)) eqn:Ez.
          -- rewrite (Hex (or_intror eq_refl)), Z.eqb_refl. reflexivity.
          -- cbn [negb andb]. apply orb_true_r.
      + (* time_from_underlying *)
        apply andb_true_iff in Hd as [Hd Hd3]. apply andb_true_iff in Hd as [Hd1 Hd2].
        destruct (inv_now t0 k s q Hk HI Hb1 ltac:(lia)) as (p & _ & _ & Hnow & _).
        destruct (IH k s t Hk HI ltac:(consts; lia) Ht Hd3) as (obs & Hrun & Hok).
        eexists. cbn [run_ops_with]. unfold overlay_now. rewrite Hnow. cbn [obind].
        rewrite Hrun. cbn [obind]. split; [reflexivity|]. cbn [ok_ops].
        rewrite Z.eqb_refl. exact Hok.
  Qed.

  (** no overflow / no panic / no failed debug assertion, and every check of
      the oracle holds, for every sequence in the domain *)
  Lemma run_overlay_ok dbg t0 ops :
    in_domain t0 ops = true ->
    exists obs, run_overlay_with step dbg t0 ops = Ok obs /\
                ok_ops strict 0%float ops obs = true.
  Proof.
    unfold in_domain. intros H.
    apply andb_true_iff in H as [H H3]. apply andb_true_iff in H as [H1 H2].
    assert (HI : Inv t0 0 (overlay_new t0)).
    { unfold Inv, overlay_new. cbn [ppm last_sync shift].
      split; [vm_compute; reflexivity|]. split; lia. }
    destruct (run_ops_ok dbg t0 ops 0 (overlay_new t0) t0 ltac:(lia) HI
                ltac:(consts; lia) ltac:(cbn; consts; lia) H3) as (obs & Hrun & Hok).
    unfold run_overlay_with. rewrite Hrun. cbn [obind].
    eexists. split; [reflexivity|]. apply ok_ops_app. exact Hok.
  Qed.

  Lemma ok_gen_all dbg t0 ops :
    ok_gen strict t0 ops (to_opt (run_overlay_with step dbg t0 ops)) = true.
  Proof.
    unfold ok_gen. destruct (in_domain t0 ops) eqn:Hd; [|reflexivity].
    destruct (run_overlay_ok dbg t0 ops Hd) as (obs & -> & Hok). exact Hok.
  Qed.
End Sequences.

(** * Main statements *)

(** code as it is: every check except the exact jump of steps taken at ppm <> 0 *)
Lemma C18_relaxed dbg t0 ops :
  ok_gen false t0 ops (to_opt (run_overlay dbg t0 ops)) = true.
Proof. exact (ok_gen_all step_clock false step_clock_ok dbg t0 ops). Qed.

Lemma C18_all t0 ops rel :
  kf_C18 (t0, ops, rel, to_opt (run_overlay (negb rel) t0 ops)) = 0 ->
  ok_C18 t0 ops (to_opt (run_overlay (negb rel) t0 ops)) = true.
Proof.
  unfold kf_C18, ok_C18.
  destruct (ok_gen true t0 ops _) eqn:E; [reflexivity|].
  rewrite C18_relaxed. discriminate.
Qed.

(** proposed repair: the full property, no exception *)
Lemma C18_fixed_all dbg t0 ops :
  ok_C18 t0 ops (to_opt (run_overlay_with step_clock_fixed dbg t0 ops)) = true.
Proof. exact (ok_gen_all step_clock_fixed true (step_fixed_ok true) dbg t0 ops). Qed.

(** the full property is refuted on the code as it is, by a 3-operation run *)
Definition f9_t0 : Z := 1000 * SEC.
Definition f9_ops : list oop := [OSetFreq 500%float; OAdv (100 * SEC); OStep (10 * SEC)].
Lemma C18_refuted_current :
  in_domain f9_t0 f9_ops = true /\
  ok_C18 f9_t0 f9_ops (to_opt (run_overlay_with step_clock_current true f9_t0 f9_ops)) = false /\
  kf_C18 (f9_t0, f9_ops, false, to_opt (run_overlay_with step_clock_current true f9_t0 f9_ops)) = 1.
Proof. vm_compute. repeat split; reflexivity. Qed.

(** * Readable corollaries *)

(** rate_bound on model outputs: two readings at underlying times t1 <= t2 not
    before the anchor, both representable (no saturation). *)
Lemma rate_bound s p t1 t2 r1 r2 :
  float_to_fixed (ppm s) = Ok p ->
  last_sync s <= t1 <= t2 ->
  exact_at s p t1 -> exact_at s p t2 ->
  tfu s t1 = Ok r1 -> tfu s t2 = Ok r2 ->
  Z.abs (MEGA * FRAC * ((r2 - r1) - (t2 - t1)) - (t2 - t1) * p) < MEGA * FRAC /\
  rate_ok (ppm s) (t2 - t1) r1 r2 = true.
Proof.
  intros Hp Ht Hx1 Hx2 H1 H2.
  apply (tfu_exact _ _ _ p Hp Hx1) in H1. apply (tfu_exact _ _ _ p Hp Hx2) in H2. subst r1 r2.
  split; [apply rate_core; exact Ht|].
  pose proof (rate_ok_model (ppm s) p (last_sync s) (shift s) t1 (t2 - t1) Hp ltac:(lia) ltac:(lia)) as H.
  replace (t1 + (t2 - t1)) with t2 in H by lia. exact H.
Qed.

Lemma no_overflow dbg t0 ops :
  in_domain t0 ops = true -> is_ok (run_overlay dbg t0 ops) = true.
Proof.
  intros H. destruct (run_overlay_ok step_clock false step_clock_ok dbg t0 ops H) as (obs & Hr & _).
  unfold run_overlay. rewrite Hr. reflexivity.
Qed.

Lemma convert_agrees_with_now s q : overlay_now s q = tfu s q.
Proof. reflexivity. Qed.

(** inside the invariant no reading at or after the anchor saturates *)
Lemma inv_exact_at t0 k s p q :
  0 <= k -> Inv t0 k s -> (k + 1) * B_STEP <= t0 -> last_sync s <= q < TMAX ->
  float_to_fixed (ppm s) = Ok p -> exact_at s p q.
Proof.
  intros Hk HI Hb Hq Hp.
  destruct (inv_now t0 k s q Hk HI Hb Hq) as (p' & Hp' & Hpp & _ & Hr & Hc).
  rewrite Hp in Hp'. inversion Hp'; subst p'.
  destruct HI as (_ & HL & Hsh). unfold exact_at.
  set (r := reading_z (last_sync s) (shift s) p q) in *. clearbody r.
  clear Hc. consts. lia.
Qed.
