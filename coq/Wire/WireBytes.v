(** Generic facts about big-endian byte strings, used by the proofs of C04:
    round trips of [be_encode]/[be_decode] for every width, slices, and the
    agreement between the byte readers of the model (WireImpl: accumulator,
    firstn/skipn) and of the specification (WireSpec: positional sum, nth). *)
From SV Require Import Wire.WireImpl Wire.WireSpec.

Definition bok (b : bytes) : Prop := Forall (fun x => 0 <= x < 256) b.

Lemma octets_ok_bok b : octets_ok b = true <-> bok b.
Proof.
  unfold octets_ok, bok. rewrite forallb_forall, Forall_forall.
  split; intros H x Hx; specialize (H x Hx); lia.
Qed.

Lemma bok_nil : bok []. Proof. constructor. Qed.
Lemma bok_cons x b : 0 <= x < 256 -> bok b -> bok (x :: b).
Proof. intros; constructor; assumption. Qed.
Lemma bok_app a b : bok a -> bok b -> bok (a ++ b).
Proof. unfold bok; intros; apply Forall_app; split; assumption. Qed.
Lemma bok_app_inv a b : bok (a ++ b) -> bok a /\ bok b.
Proof. unfold bok; intros H; apply Forall_app in H; exact H. Qed.

Lemma bok_firstn n b : bok b -> bok (firstn n b).
Proof.
  revert b; induction n; intros b H; [constructor|].
  destruct b; [constructor|]. inversion H; subst. cbn [firstn]. constructor; auto.
  apply IHn; assumption.
Qed.
Lemma bok_skipn n b : bok b -> bok (skipn n b).
Proof.
  revert b; induction n; intros b H; [exact H|].
  destruct b; [constructor|]. inversion H; subst. cbn [skipn]. apply IHn; assumption.
Qed.
Lemma bok_slice off n b : bok b -> bok (slice off n b).
Proof. intros; unfold slice; apply bok_firstn, bok_skipn; assumption. Qed.

Lemma bok_nth k b : bok b -> 0 <= nth k b 0 < 256.
Proof.
  revert b; induction k; intros b H; destruct b; cbn [nth]; try lia;
    inversion H; subst; auto.
Qed.
Lemma bok_byte_at k b : bok b -> 0 <= byte_at k b < 256.
Proof. apply bok_nth. Qed.

(** * Powers of 256 *)
Lemma pow256_S n : 256 ^ Z.of_nat (S n) = 256 * 256 ^ Z.of_nat n.
Proof. rewrite Nat2Z.inj_succ, Z.pow_succ_r by lia. reflexivity. Qed.
Lemma pow256_pos n : 0 < 256 ^ Z.of_nat n.
Proof. apply Z.pow_pos_nonneg; lia. Qed.
Lemma pow2_256 n : 2 ^ (8 * Z.of_nat n) = 256 ^ Z.of_nat n.
Proof. rewrite Z.pow_mul_r by lia. reflexivity. Qed.

(** * be_decode *)
Lemma be_decode_acc_lin bs : forall a,
  be_decode_acc a bs = a * 256 ^ Z.of_nat (length bs) + be_decode_acc 0 bs.
Proof.
  induction bs as [|x bs IH]; intros a.
  - cbn [be_decode_acc length]. change (256 ^ Z.of_nat 0) with 1. lia.
  - cbn [be_decode_acc length]. rewrite (IH (a * 256 + x)), (IH (0 * 256 + x)), pow256_S. ring.
Qed.

Lemma be_decode_cons x bs :
  be_decode (x :: bs) = x * 256 ^ Z.of_nat (length bs) + be_decode bs.
Proof.
  unfold be_decode. cbn [be_decode_acc]. rewrite be_decode_acc_lin. f_equal; try lia.
Qed.
Lemma be_decode_nil : be_decode [] = 0. Proof. reflexivity. Qed.
Lemma be_decode_one x : be_decode [x] = x.
Proof. unfold be_decode; cbn [be_decode_acc]; lia. Qed.

Lemma be_decode_bound bs : bok bs -> 0 <= be_decode bs < 256 ^ Z.of_nat (length bs).
Proof.
  induction 1 as [|x bs Hx Hb IH].
  - cbn. lia.
  - rewrite be_decode_cons. cbn [length]. rewrite pow256_S.
    pose proof (pow256_pos (length bs)). nia.
Qed.

Lemma be_decode_inj a : forall b,
  bok a -> bok b -> length a = length b -> be_decode a = be_decode b -> a = b.
Proof.
  induction a as [|x a IH]; intros [|y b] Ha Hb Hl He; try discriminate; [reflexivity|].
  inversion Ha; subst. inversion Hb; subst. cbn [length] in Hl. injection Hl as Hl.
  rewrite !be_decode_cons, Hl in He.
  pose proof (be_decode_bound a ltac:(assumption)) as Ba.
  pose proof (be_decode_bound b ltac:(assumption)) as Bb.
  rewrite Hl in Ba.
  set (P := 256 ^ Z.of_nat (length b)) in *.
  assert (x = y) by nia. subst y.
  f_equal. apply IH; auto. lia.
Qed.

(** * be_encode *)
Lemma be_encode_length n v : length (be_encode n v) = n.
Proof. induction n; cbn [be_encode length]; congruence. Qed.

Lemma be_encode_bok n v : bok (be_encode n v).
Proof.
  induction n; cbn [be_encode]; constructor; auto.
  apply Z.mod_pos_bound; lia.
Qed.

Lemma be_decode_encode n v : be_decode (be_encode n v) = v mod 256 ^ Z.of_nat n.
Proof.
  induction n.
  - cbn [be_encode]. change (256 ^ Z.of_nat 0) with 1. rewrite Z.mod_1_r. reflexivity.
  - cbn [be_encode]. rewrite be_decode_cons, be_encode_length, IHn, pow256_S.
    pose proof (pow256_pos n).
    rewrite (Z.mul_comm 256), Z.rem_mul_r by lia. ring.
Qed.

Lemma be_encode_decode bs : bok bs -> be_encode (length bs) (be_decode bs) = bs.
Proof.
  intros H. apply be_decode_inj; auto using be_encode_bok, be_encode_length.
  rewrite be_decode_encode. apply Z.mod_small, be_decode_bound; assumption.
Qed.

Lemma be_encode_congr n v w :
  v mod 256 ^ Z.of_nat n = w mod 256 ^ Z.of_nat n -> be_encode n v = be_encode n w.
Proof.
  intros H. apply be_decode_inj; auto using be_encode_bok.
  - rewrite !be_encode_length; reflexivity.
  - rewrite !be_decode_encode; assumption.
Qed.

(** * two's complement *)
Lemma to_signed_mod bits c :
  0 < bits -> - 2 ^ (bits - 1) <= c < 2 ^ (bits - 1) -> to_signed bits (c mod 2 ^ bits) = c.
Proof.
  intros Hb Hc. unfold to_signed.
  assert (Hp : 2 ^ bits = 2 * 2 ^ (bits - 1)).
  { replace bits with (Z.succ (bits - 1)) at 1 by lia. rewrite Z.pow_succ_r by lia. reflexivity. }
  assert (0 < 2 ^ (bits - 1)) by (apply Z.pow_pos_nonneg; lia).
  set (P := 2 ^ (bits - 1)) in *. rewrite Hp.
  destruct (Z_lt_le_dec c 0).
  - assert (E : c mod (2 * P) = c + 2 * P).
    { symmetry. apply Z.mod_unique with (-1); lia. }
    rewrite E. destruct (Z.ltb_spec (c + 2 * P) P); lia.
  - rewrite Z.mod_small by lia. destruct (Z.ltb_spec c P); lia.
Qed.

Lemma to_signed_range bits v :
  0 < bits -> 0 <= v < 2 ^ bits -> - 2 ^ (bits - 1) <= to_signed bits v < 2 ^ (bits - 1).
Proof.
  intros Hb Hv. unfold to_signed.
  assert (Hp : 2 ^ bits = 2 * 2 ^ (bits - 1)).
  { replace bits with (Z.succ (bits - 1)) at 1 by lia. rewrite Z.pow_succ_r by lia. reflexivity. }
  destruct (Z.ltb_spec v (2 ^ (bits - 1))); lia.
Qed.

Lemma to_signed_congr bits v : 0 < bits -> (to_signed bits v) mod 2 ^ bits = v mod 2 ^ bits.
Proof.
  intros Hb. unfold to_signed. destruct (Z.ltb_spec v (2 ^ (bits - 1))); [reflexivity|].
  replace (v - 2 ^ bits) with (v + (-1) * 2 ^ bits) by ring.
  apply Z.mod_add. apply Z.pow_nonzero; lia.
Qed.

Lemma be_encode_to_signed n v :
  (0 < n)%nat -> be_encode n (to_signed (8 * Z.of_nat n) v) = be_encode n v.
Proof.
  intros Hn. apply be_encode_congr. rewrite <- pow2_256. apply to_signed_congr. lia.
Qed.

Lemma twos_to_signed bits v : 0 < bits -> 0 <= v < 2 ^ bits -> twos bits v = to_signed bits v.
Proof.
  intros Hb Hv. unfold twos, to_signed.
  assert (Hp : 2 ^ bits = 2 * 2 ^ (bits - 1)).
  { replace bits with (Z.succ (bits - 1)) at 1 by lia. rewrite Z.pow_succ_r by lia. reflexivity. }
  assert (0 < 2 ^ (bits - 1)) by (apply Z.pow_pos_nonneg; lia).
  set (P := 2 ^ (bits - 1)) in *.
  destruct (Z.ltb_spec v P).
  - rewrite Z.div_small by lia. lia.
  - assert (v / P = 1) by (symmetry; apply Z.div_unique with (v - P); lia). lia.
Qed.

(** * slices *)
Lemma blen_length b : blen b = Z.of_nat (length b). Proof. reflexivity. Qed.

Lemma slice_length off n b : (off + n <= length b)%nat -> length (slice off n b) = n.
Proof. intros H. unfold slice. rewrite firstn_length, skipn_length. lia. Qed.

Lemma slice_length_le off n b : (length (slice off n b) <= n)%nat.
Proof. unfold slice. rewrite firstn_length. lia. Qed.

Lemma slice_cons_nth off : forall n b,
  (off < length b)%nat -> slice off (S n) b = nth off b 0 :: slice (S off) n b.
Proof.
  induction off; intros n b H; destruct b; cbn [length] in H; try lia.
  - reflexivity.
  - unfold slice in *. cbn [skipn nth]. apply IHoff. lia.
Qed.

Lemma byte_at_firstn k K b : (k < K)%nat -> byte_at k (firstn K b) = byte_at k b.
Proof.
  unfold byte_at. revert K b; induction k; intros K b H; destruct K; try lia; destruct b; cbn [firstn nth]; auto.
  apply IHk. lia.
Qed.

Lemma slice_firstn off n K b : (off + n <= K)%nat -> slice off n (firstn K b) = slice off n b.
Proof.
  intros H. unfold slice. rewrite skipn_firstn_comm, firstn_firstn. f_equal. lia.
Qed.

Lemma skipn_skipn' {A} x y (l : list A) : skipn x (skipn y l) = skipn (y + x) l.
Proof.
  revert l; induction y; intros l; [reflexivity|].
  destruct l; cbn [skipn Nat.add]; [destruct x; reflexivity|]. apply IHy.
Qed.

Lemma slice_slice k n o len b :
  (k + n <= len)%nat -> slice k n (slice o len b) = slice (o + k) n b.
Proof.
  intros H. unfold slice. rewrite skipn_firstn_comm, firstn_firstn, skipn_skipn'. f_equal. lia.
Qed.

Lemma byte_at_slice k o len b : (k < len)%nat -> byte_at k (slice o len b) = byte_at (o + k) b.
Proof.
  intros H. unfold slice, byte_at.
  transitivity (nth k (skipn o b) 0).
  - apply (byte_at_firstn k len (skipn o b)). assumption.
  - revert b; induction o; intros b; [reflexivity|]. destruct b; cbn [skipn Nat.add nth]; [destruct k; reflexivity|].
    apply IHo.
Qed.

Lemma skipn_slice k o len b : skipn k (slice o len b) = slice (o + k) (len - k) b.
Proof. unfold slice. rewrite skipn_firstn_comm, skipn_skipn'. reflexivity. Qed.

(** * the readers of WireSpec and of WireImpl agree *)
Lemma uint_be_slice b : forall n off,
  (off + n <= length b)%nat -> uint_be b off n = be_decode (slice off n b).
Proof.
  induction n; intros off H.
  - reflexivity.
  - cbn [uint_be]. rewrite slice_cons_nth by lia. rewrite be_decode_cons.
    rewrite slice_length by lia. rewrite IHn by lia. reflexivity.
Qed.

Lemma sub_cons b off n : sub b off (S n) = oct b off :: sub b (S off) n.
Proof.
  unfold sub. cbn [seq map]. rewrite Nat.add_0_r. f_equal.
  rewrite <- seq_shift, map_map. apply map_ext. intros i. f_equal. lia.
Qed.

Lemma sub_slice b : forall n off, (off + n <= length b)%nat -> sub b off n = slice off n b.
Proof.
  induction n; intros off H.
  - reflexivity.
  - rewrite sub_cons, slice_cons_nth by lia. rewrite IHn by lia. reflexivity.
Qed.

(** reading one field *)
Lemma read_LU off n b :
  bok b -> (off + n <= length b)%nat -> read (LU off n) b = be_decode (slice off n b).
Proof.
  intros Hb H. unfold read, LU. cbn [l_off l_len l_shift l_bits l_signed].
  rewrite uint_be_slice by assumption. change (2 ^ 0) with 1. rewrite Z.div_1_r.
  rewrite pow2_256. pose proof (be_decode_bound (slice off n b) (bok_slice _ _ _ Hb)) as B.
  rewrite slice_length in B by assumption. apply Z.mod_small; assumption.
Qed.

Lemma read_LS off n b :
  bok b -> (0 < n)%nat -> (off + n <= length b)%nat ->
  read (LS off n) b = to_signed (8 * Z.of_nat n) (be_decode (slice off n b)).
Proof.
  intros Hb Hn H. unfold read, LS. cbn [l_off l_len l_shift l_bits l_signed].
  rewrite uint_be_slice by assumption. change (2 ^ 0) with 1. rewrite Z.div_1_r.
  pose proof (be_decode_bound (slice off n b) (bok_slice _ _ _ Hb)) as B.
  rewrite slice_length in B by assumption. rewrite <- pow2_256 in B.
  rewrite Z.mod_small by assumption. apply twos_to_signed; [lia | assumption].
Qed.

Lemma read_LB off s k b : read (LB off s k) b = (byte_at off b / 2 ^ s) mod 2 ^ k.
Proof.
  unfold read, LB. cbn [l_off l_len l_shift l_bits l_signed uint_be].
  change (256 ^ Z.of_nat 0) with 1. unfold oct, byte_at. f_equal. f_equal. lia.
Qed.

Lemma slice_one off b : (off < length b)%nat -> slice off 1 b = [byte_at off b].
Proof. intros H. rewrite slice_cons_nth by assumption. reflexivity. Qed.

Lemma read_LU1 off b : bok b -> (off < length b)%nat -> read (LU off 1) b = byte_at off b.
Proof. intros Hb H. rewrite read_LU by (assumption || lia). rewrite slice_one by assumption. apply be_decode_one. Qed.

(** slices of concatenations *)
Lemma slice_app_hit (p x r : bytes) : slice (length p) (length x) (p ++ x ++ r) = x.
Proof.
  unfold slice. rewrite skipn_app, skipn_all, Nat.sub_diag. cbn [app skipn].
  rewrite firstn_app, firstn_all, Nat.sub_diag. cbn [firstn]. apply app_nil_r.
Qed.

Lemma skipn_app_exact {A} (p r : list A) : skipn (length p) (p ++ r) = r.
Proof. rewrite skipn_app, skipn_all, Nat.sub_diag. reflexivity. Qed.

Lemma firstn_app_exact {A} (p r : list A) : firstn (length p) (p ++ r) = p.
Proof. rewrite firstn_app, firstn_all, Nat.sub_diag. cbn [firstn]. apply app_nil_r. Qed.
