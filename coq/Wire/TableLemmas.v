(** The enumeration tables of the implementation, regenerated on every run
    from the source text of /repo (Generated/Tables.v, translate/gen_tables.py),
    agree on EVERY primitive value with the definitions the model uses
    ([canon_*], [msg_type_of_nibble], [msg_type_code], [control_field],
    [tlv_announce_propagate] in Wire/WireImpl.v).  All statements are decided by
    [vm_compute] over the complete domain (256 or 65536 values) and lifted
    with [forallb_forall]; a change to any `match` arm in the Rust sources
    changes the generated table and breaks the corresponding proof. *)
From SV Require Import Wire.WireImpl Generated.Tables.

(** Interpreter for the generated tables (first matching arm wins, as in a
    Rust `match`).  A decoded enumeration value is (variant id, payload). *)
Fixpoint from_prim (tbl : list (Z * Z * Z * option Z)) (v : Z) : option (Z * Z) :=
  match tbl with
  | [] => None
  | (lo, hi, id, pay) :: r =>
      if (lo <=? v) && (v <=? hi)
      then Some (id, match pay with Some k => v - k | None => 0 end)
      else from_prim r v
  end.

Fixpoint to_prim (tbl : list (Z * Z * bool)) (x : Z * Z) : option Z :=
  match tbl with
  | [] => None
  | (id, base, add) :: r =>
      if id =? fst x then Some (if add then base + snd x else base) else to_prim r x
  end.

Definition roundtrip (f : list (Z * Z * Z * option Z)) (t : list (Z * Z * bool)) (v : Z) : option Z :=
  match from_prim f v with
  | Some x => to_prim t x
  | None => None
  end.

Definition opt_z_eqb (a : option Z) (b : Z) : bool :=
  match a with Some x => x =? b | None => false end.
Lemma opt_z_eqb_true a b : opt_z_eqb a b = true -> a = Some b.
Proof. destruct a; cbn; [|discriminate]. intros H. apply Z.eqb_eq in H. congruence. Qed.

Fixpoint zseq (start : Z) (n : nat) : list Z :=
  match n with
  | O => []
  | S k => start :: zseq (start + 1) k
  end.
Lemma zseq_in n : forall s x, s <= x < s + Z.of_nat n -> In x (zseq s n).
Proof.
  induction n; intros s x H; [lia|]. cbn [zseq].
  destruct (Z.eq_dec x s); [left; congruence|]. right. apply IHn. lia.
Qed.
Definition upto (n : nat) : list Z := zseq 0 n.
Lemma upto_all n p : forallb p (upto n) = true -> forall x, 0 <= x < Z.of_nat n -> p x = true.
Proof.
  intros H x Hx. rewrite forallb_forall in H. apply H. apply zseq_in. lia.
Qed.

(** from_primitive is total and to_primitive (from_primitive v) is the
    canonical value the model stores, for every octet / every u16. *)
Theorem clock_accuracy_table : forall v, 0 <= v < 256 ->
  roundtrip clock_accuracy_from clock_accuracy_to v = Some (canon_accuracy v).
Proof.
  intros v Hv. apply opt_z_eqb_true.
  apply (upto_all 256 (fun v => opt_z_eqb (roundtrip clock_accuracy_from clock_accuracy_to v) (canon_accuracy v)));
    [vm_compute; reflexivity | exact Hv].
Qed.

Theorem time_source_table : forall v, 0 <= v < 256 ->
  roundtrip time_source_from time_source_to v = Some (canon_time_source v).
Proof.
  intros v Hv. apply opt_z_eqb_true.
  apply (upto_all 256 (fun v => opt_z_eqb (roundtrip time_source_from time_source_to v) (canon_time_source v)));
    [vm_compute; reflexivity | exact Hv].
Qed.

Theorem management_action_table : forall v, 0 <= v < 256 ->
  roundtrip management_action_from management_action_to v = Some (canon_mgmt_action v).
Proof.
  intros v Hv. apply opt_z_eqb_true.
  apply (upto_all 256 (fun v => opt_z_eqb (roundtrip management_action_from management_action_to v) (canon_mgmt_action v)));
    [vm_compute; reflexivity | exact Hv].
Qed.

Theorem tlv_type_table : forall v, 0 <= v < 65536 ->
  roundtrip tlv_type_from tlv_type_to v = Some (canon_tlv_type v).
Proof.
  intros v Hv. apply opt_z_eqb_true.
  apply (upto_all (Z.to_nat 65536) (fun v => opt_z_eqb (roundtrip tlv_type_from tlv_type_to v) (canon_tlv_type v)));
    [vm_compute; reflexivity | exact Hv].
Qed.

Definition in_ranges (rs : list (Z * Z)) (v : Z) : bool :=
  existsb (fun r => (fst r <=? v) && (v <=? snd r)) rs.

Theorem tlv_propagate_table : forall v, 0 <= v < 65536 ->
  in_ranges tlv_announce_propagate_ranges v = tlv_announce_propagate v.
Proof.
  intros v Hv.
  assert (H : bool_eqb (in_ranges tlv_announce_propagate_ranges v) (tlv_announce_propagate v) = true).
  { apply (upto_all (Z.to_nat 65536) (fun v => bool_eqb (in_ranges tlv_announce_propagate_ranges v) (tlv_announce_propagate v)));
      [vm_compute; reflexivity | exact Hv]. }
  destruct (in_ranges _ v), (tlv_announce_propagate v); cbn in H; congruence.
Qed.

(** MessageType *)
Fixpoint assoc_z {A} (k : Z) (l : list (Z * A)) : option A :=
  match l with [] => None | (k', a) :: r => if k =? k' then Some a else assoc_z k r end.
Fixpoint assoc_mt {A} (k : msg_type) (l : list (msg_type * A)) : option A :=
  match l with [] => None | (k', a) :: r => if msg_type_eqb k k' then Some a else assoc_mt k r end.

Definition opt_mt_eqb (a b : option msg_type) : bool :=
  match a, b with
  | Some x, Some y => msg_type_eqb x y
  | None, None => true
  | _, _ => false
  end.
Lemma msg_type_eqb_true a b : msg_type_eqb a b = true -> a = b.
Proof. destruct a, b; cbn; congruence. Qed.

Theorem message_type_try_from_table : forall v, 0 <= v < 256 ->
  assoc_z v message_type_try_from = msg_type_of_nibble v.
Proof.
  intros v Hv.
  assert (H : opt_mt_eqb (assoc_z v message_type_try_from) (msg_type_of_nibble v) = true).
  { apply (upto_all 256 (fun v => opt_mt_eqb (assoc_z v message_type_try_from) (msg_type_of_nibble v)));
      [vm_compute; reflexivity | exact Hv]. }
  destruct (assoc_z v message_type_try_from), (msg_type_of_nibble v); cbn in H; try congruence.
  f_equal. apply msg_type_eqb_true. exact H.
Qed.

Theorem message_type_discriminant_table : forall t,
  assoc_mt t message_type_discriminants = Some (msg_type_code t).
Proof. destruct t; vm_compute; reflexivity. Qed.

Theorem control_field_table : forall t,
  assoc_z (match assoc_mt t control_field_from with Some c => c | None => control_field_from_default end)
          control_field_to = Some (control_field t).
Proof. destruct t; vm_compute; reflexivity. Qed.
