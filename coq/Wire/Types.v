(** Message types of statime/src/datastructures (model).
    Bytes are [Z] in [0,256); identities and multi-byte fields are the
    big-endian integer value.  Enumerations with reserved values
    (clockAccuracy, timeSource, TLV type, management action) are stored as
    their canonical primitive value, i.e. to_primitive (from_primitive v). *)
From SV Require Export Base.Prelude.

Definition byte := Z.
Definition bytes := list Z.

Record port_identity := mkPI { pi_clock : Z; pi_port : Z }.
Definition pi_eqb (a b : port_identity) : bool :=
  (pi_clock a =? pi_clock b) && (pi_port a =? pi_port b).
Definition pi_default := mkPI 0 0.

Record clock_quality := mkCQ { cq_class : Z; cq_accuracy : Z; cq_variance : Z }.
Definition cq_eqb (a b : clock_quality) : bool :=
  (cq_class a =? cq_class b) && (cq_accuracy a =? cq_accuracy b) && (cq_variance a =? cq_variance b).

Inductive msg_type :=
| MTSync | MTDelayReq | MTPDelayReq | MTPDelayResp | MTFollowUp | MTDelayResp
| MTPDelayRespFollowUp | MTAnnounce | MTSignaling | MTManagement.

Definition msg_type_eqb (a b : msg_type) : bool :=
  match a, b with
  | MTSync, MTSync | MTDelayReq, MTDelayReq | MTPDelayReq, MTPDelayReq
  | MTPDelayResp, MTPDelayResp | MTFollowUp, MTFollowUp | MTDelayResp, MTDelayResp
  | MTPDelayRespFollowUp, MTPDelayRespFollowUp | MTAnnounce, MTAnnounce
  | MTSignaling, MTSignaling | MTManagement, MTManagement => true
  | _, _ => false
  end.

Record header := mkHeader {
  h_sdo_id : Z;                (* 12 bit *)
  h_version_major : Z;         (* 4 bit *)
  h_version_minor : Z;         (* 4 bit *)
  h_domain : Z;
  h_alternate_master : bool;
  h_two_step : bool;
  h_unicast : bool;
  h_profile1 : bool;
  h_profile2 : bool;
  h_leap61 : bool;
  h_leap59 : bool;
  h_utc_valid : bool;
  h_ptp_timescale : bool;
  h_time_traceable : bool;
  h_freq_traceable : bool;
  h_sync_uncertain : bool;
  h_correction : Z;            (* I48F16 bits, signed 64 *)
  h_source : port_identity;
  h_seq : Z;                   (* u16 *)
  h_log_interval : Z           (* i8 *)
}.

Definition header_new (minor : Z) : header :=
  mkHeader 0 2 minor 0 false false false false false false false false false false false false
           0 pi_default 0 0.

Definition bool_eqb (a b : bool) : bool := if a then b else negb b.

Definition header_eqb (a b : header) : bool :=
  (h_sdo_id a =? h_sdo_id b) && (h_version_major a =? h_version_major b)
  && (h_version_minor a =? h_version_minor b) && (h_domain a =? h_domain b)
  && bool_eqb (h_alternate_master a) (h_alternate_master b)
  && bool_eqb (h_two_step a) (h_two_step b) && bool_eqb (h_unicast a) (h_unicast b)
  && bool_eqb (h_profile1 a) (h_profile1 b) && bool_eqb (h_profile2 a) (h_profile2 b)
  && bool_eqb (h_leap61 a) (h_leap61 b) && bool_eqb (h_leap59 a) (h_leap59 b)
  && bool_eqb (h_utc_valid a) (h_utc_valid b) && bool_eqb (h_ptp_timescale a) (h_ptp_timescale b)
  && bool_eqb (h_time_traceable a) (h_time_traceable b)
  && bool_eqb (h_freq_traceable a) (h_freq_traceable b)
  && bool_eqb (h_sync_uncertain a) (h_sync_uncertain b)
  && (h_correction a =? h_correction b) && pi_eqb (h_source a) (h_source b)
  && (h_seq a =? h_seq b) && (h_log_interval a =? h_log_interval b).

(** wire timestamp: seconds (48 bit on the wire), nanoseconds (u32) *)
Record wire_ts := mkTS { ts_secs : Z; ts_nanos : Z }.
Definition ts_eqb (a b : wire_ts) : bool := (ts_secs a =? ts_secs b) && (ts_nanos a =? ts_nanos b).
Definition ts_zero := mkTS 0 0.

Record announce_body := mkAnn {
  an_origin : wire_ts;
  an_utc_offset : Z;           (* i16 *)
  an_prio1 : Z;
  an_quality : clock_quality;
  an_prio2 : Z;
  an_gm_identity : Z;
  an_steps_removed : Z;        (* u16 *)
  an_time_source : Z           (* canonical primitive *)
}.

Definition ann_eqb (a b : announce_body) : bool :=
  ts_eqb (an_origin a) (an_origin b) && (an_utc_offset a =? an_utc_offset b)
  && (an_prio1 a =? an_prio1 b) && cq_eqb (an_quality a) (an_quality b)
  && (an_prio2 a =? an_prio2 b) && (an_gm_identity a =? an_gm_identity b)
  && (an_steps_removed a =? an_steps_removed b) && (an_time_source a =? an_time_source b).

Inductive body :=
| BSync (origin : wire_ts)
| BDelayReq (origin : wire_ts)
| BPDelayReq (origin : wire_ts)
| BPDelayResp (recv : wire_ts) (requester : port_identity)
| BFollowUp (precise : wire_ts)
| BDelayResp (recv : wire_ts) (requester : port_identity)
| BPDelayRespFollowUp (origin : wire_ts) (requester : port_identity)
| BAnnounce (a : announce_body)
| BSignaling (target : port_identity)
| BManagement (target : port_identity) (start_hops hops action : Z).

Definition body_type (b : body) : msg_type :=
  match b with
  | BSync _ => MTSync | BDelayReq _ => MTDelayReq | BPDelayReq _ => MTPDelayReq
  | BPDelayResp _ _ => MTPDelayResp | BFollowUp _ => MTFollowUp
  | BDelayResp _ _ => MTDelayResp | BPDelayRespFollowUp _ _ => MTPDelayRespFollowUp
  | BAnnounce _ => MTAnnounce | BSignaling _ => MTSignaling
  | BManagement _ _ _ _ => MTManagement
  end.

Definition body_eqb (a b : body) : bool :=
  match a, b with
  | BSync x, BSync y | BDelayReq x, BDelayReq y | BPDelayReq x, BPDelayReq y
  | BFollowUp x, BFollowUp y => ts_eqb x y
  | BPDelayResp x p, BPDelayResp y q | BDelayResp x p, BDelayResp y q
  | BPDelayRespFollowUp x p, BPDelayRespFollowUp y q => ts_eqb x y && pi_eqb p q
  | BAnnounce x, BAnnounce y => ann_eqb x y
  | BSignaling p, BSignaling q => pi_eqb p q
  | BManagement p a b c, BManagement q d e f => pi_eqb p q && (a =? d) && (b =? e) && (c =? f)
  | _, _ => false
  end.

(** A message; the TLV suffix is kept as raw validated bytes, as in the code. *)
Record message := mkMsg { m_header : header; m_body : body; m_suffix : bytes }.

Fixpoint bytes_eqb (a b : bytes) : bool :=
  match a, b with
  | [], [] => true
  | x :: a', y :: b' => (x =? y) && bytes_eqb a' b'
  | _, _ => false
  end.

Definition message_eqb (a b : message) : bool :=
  header_eqb (m_header a) (m_header b) && body_eqb (m_body a) (m_body b)
  && bytes_eqb (m_suffix a) (m_suffix b).

(** A single TLV: type (canonical primitive, u16) and value bytes *)
Record tlv := mkTlv { tlv_type : Z; tlv_value : bytes }.

Inductive werr := EEnumConversion | EBufferTooShort | ECapacity | EInvalid.
Inductive res (A : Type) := ROk (a : A) | RErr (e : werr).
Arguments ROk {A} a.
Arguments RErr {A} e.
Definition rbind {A B} (x : res A) (f : A -> res B) : res B :=
  match x with ROk a => f a | RErr e => RErr e end.
Notation "'let?' x ':=' e 'in' f" := (rbind e (fun x => f))
  (at level 200, x pattern, e at level 100, f at level 200, right associativity).

Definition MAX_DATA_LEN : Z := 1024.
