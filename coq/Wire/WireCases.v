(** Executable case format, model runner and property oracle for C04.
    No proofs here: this file must keep compiling when a proof breaks. *)
From SV Require Export Base.Cases Base.Lit Wire.WireImpl Wire.WireSpec.

(** Compact byte-string literal of the generated cases files: [len] octets,
    seven per primitive-integer literal, big endian (decoded with native
    shifts; the files open [uint63_scope], see Base/Lit.v). *)
Definition byte_of (x sh : int) : Z := Uint63.to_Z (Uint63.land (Uint63.lsr x sh) 255%uint63).
Definition b7 (len : int) (l : list int) : list Z :=
  firstn (Z.to_nat (Uint63.to_Z len))
    (flat_map (fun x => [byte_of x 48%uint63; byte_of x 40%uint63; byte_of x 32%uint63;
                         byte_of x 24%uint63; byte_of x 16%uint63; byte_of x 8%uint63;
                         byte_of x 0%uint63]) l).

(** Result of [FuzzMessage::serialize] into a zeroed buffer of some size. *)
Inductive probe_res :=
| PPanic                    (* the call panicked (slice index / unwrap) *)
| PErr (e : werr)           (* it returned an error (never observed) *)
| PBytes (b : bytes).       (* the first [returned length] octets of the buffer *)

(** What the harness saw the implementation do with an input [b]. *)
Inductive obs_res :=
| ObsPanic                                (* deserialize (or the observation code around it) panicked *)
| ObsErr (e : werr)                       (* deserialize failed *)
| ObsOk (main : probe_res)                (* serialize into 2048 zeroed octets *)
        (redecode_equal : bool)           (* deserialize (serialize m) == m   (PartialEq) *)
        (tlvs : list (Z * Z))             (* (type code, value length) seen by the TLV iterator *)
        (probes : list (Z * probe_res)).  (* serialize into buffers of other sizes *)

(** [o_local]: when 34 <= |b| and messageLength <= |b|: deserialising b cut
    at K = max 34 messageLength, and that cut followed by the octets A5 5A FF,
    both give the same result (Ok: PartialEq, Err: same kind) as b itself.
    [true] when the precondition does not hold. *)
Record observed := mkObs { o_res : obs_res; o_local : bool }.

Definition case := (bytes * observed)%type.

(** * The model on the same input *)
Definition werr_eqb (a b : werr) : bool :=
  match a, b with
  | EEnumConversion, EEnumConversion | EBufferTooShort, EBufferTooShort
  | ECapacity, ECapacity | EInvalid, EInvalid => true
  | _, _ => false
  end.

Definition res_eqb (a b : res message) : bool :=
  match a, b with
  | ROk x, ROk y => message_eqb x y
  | RErr e, RErr f => werr_eqb e f
  | _, _ => false
  end.

Definition probe_of (n : Z) (m : message) : probe_res :=
  match encode n m with Ok b => PBytes b | Panic _ => PPanic end.

Definition local_tail : bytes := [165; 90; 255].

Definition run_local (b : bytes) : bool :=
  if 34 <=? blen b then
    let L := be_decode (slice 2 2 b) in
    if L <=? blen b then
      let cut := firstn (Z.to_nat (Z.max L 34)) b in
      res_eqb (decode b) (decode cut) && res_eqb (decode b) (decode (cut ++ local_tail))
    else true
  else true.

Definition tlv_summary (s : bytes) : list (Z * Z) :=
  map (fun t => (tlv_type t, blen (tlv_value t))) (tlvs_of s).

Definition run_C04 (b : bytes) (sizes : list Z) : observed :=
  mkObs
    match decode b with
    | RErr e => ObsErr e
    | ROk m =>
        ObsOk (probe_of 2048 m)
              (res_eqb (decode (encode_raw m)) (ROk m))
              (tlv_summary (m_suffix m))
              (map (fun n => (n, probe_of n m)) sizes)
    end
    (run_local b).

Definition probe_eqb (a b : probe_res) : bool :=
  match a, b with
  | PPanic, PPanic => true
  | PErr e, PErr f => werr_eqb e f
  | PBytes x, PBytes y => bytes_eqb x y
  | _, _ => false
  end.

Fixpoint list_eqb {A} (eqb : A -> A -> bool) (a b : list A) : bool :=
  match a, b with
  | [], [] => true
  | x :: a', y :: b' => eqb x y && list_eqb eqb a' b'
  | _, _ => false
  end.

Definition zz_eqb (a b : Z * Z) : bool := (fst a =? fst b) && (snd a =? snd b).
Definition zp_eqb (a b : Z * probe_res) : bool := (fst a =? fst b) && probe_eqb (snd a) (snd b).

Definition obs_res_eqb (a b : obs_res) : bool :=
  match a, b with
  | ObsErr e, ObsErr f => werr_eqb e f
  | ObsOk m1 r1 t1 p1, ObsOk m2 r2 t2 p2 =>
      probe_eqb m1 m2 && bool_eqb r1 r2 && list_eqb zz_eqb t1 t2 && list_eqb zp_eqb p1 p2
  | _, _ => false
  end.

Definition observed_eqb (a b : observed) : bool :=
  obs_res_eqb (o_res a) (o_res b) && bool_eqb (o_local a) (o_local b).

Definition probe_sizes (o : observed) : list Z :=
  match o_res o with
  | ObsOk _ _ _ ps => map fst ps
  | ObsErr _ | ObsPanic => []
  end.

Definition agree_C04 (c : case) : bool :=
  observed_eqb (run_C04 (fst c) (probe_sizes (snd c))) (snd c).

(** * The property, written from its text with the independent codec WireSpec

    "Decoding any byte string either fails with an error or yields a message
    without reading past the length declared in its header; re-encoding a
    decoded message yields bytes that decode to an equal message, have exactly
    the declared length and agree with the input on every field IEEE 1588
    defines (reserved bits aside).  Every field is read from and written to
    the offset, width and byte order Clause 13 prescribes, as judged by an
    independently written codec."

    Made executable on one observation:
    - a rejected input must not be a well-formed frame, an accepted one must be;
    - [o_local]: nothing beyond the declared length influenced the result;
    - the re-encoded octets (for frames that fit the 2048-octet buffer) have
      exactly the declared length, carry on every field of the layout table the
      canonical form of the value the input carries there, and the same TLV
      octets; they decode to an equal message;
    - the TLVs the implementation iterates over are those of the TLV area as
      framed by WireSpec;
    - serialising into a buffer that is large enough never fails and gives the
      same octets; it may only fail into a buffer shorter than the frame. *)
Definition same_field (b r : bytes) (f : field) : bool :=
  spec_get f r =? spec_canon (spec_msg_type b) f (spec_get f b).

Definition spec_tlv_summary (b : bytes) : option (list (Z * Z)) :=
  match spec_tlvs (spec_tlv_area b) with
  | Some l => Some (map (fun tv => (fst tv, blen (snd tv))) l)
  | None => None
  end.

(* nested [if]s rather than [&&]: vm_compute is strict, and the later tests
   are only cheap once the earlier ones hold *)
Definition reenc_ok (b r : bytes) : bool :=
  if blen r =? spec_get FmessageLength b then
    if forallb (same_field b r) (spec_fields (spec_msg_type b)) then
      bytes_eqb (spec_tlv_area r) (spec_tlv_area b)
    else false
  else false.

Definition ok_C04 (b : bytes) (o : observed) : bool :=
  o_local o &&
  match o_res o with
  | ObsPanic => false
  | ObsErr _ => negb (spec_wellformed b)
  | ObsOk main req tlvs probes =>
      let L := spec_get FmessageLength b in
      if spec_wellformed b then
        req
        && match spec_tlv_summary b with Some t => list_eqb zz_eqb t tlvs | None => false end
        && (if L <=? 2048 then
              match main with PBytes r => reenc_ok b r | _ => false end
            else true)
        && forallb (fun p =>
             match snd p with
             | PBytes r => (L <=? fst p) && reenc_ok b r
             | PPanic => fst p <? L
             | PErr _ => false
             end) probes
      else false
  end.

(** Known findings (see /verif/known_findings.txt): none.
    F5 (a well-formed frame whose LAST TLV has an empty value was rejected with
    BufferTooShort because TlvSet::deserialize looped `while buffer.len() > 4`)
    was repaired in /repo by commit 4fcd0b5 and is no longer excused: such a
    rejection is reported as a violation like any other. *)
Definition kf_C04 (c : case) : Z := 0.

Definition run_cases :=
  run_cases_gen agree_C04 (fun c => ok_C04 (fst c) (snd c)) kf_C04.
