(** Transliteration of the wire codec of statime/src/datastructures:
    Header::{serialize_header,deserialize_header}, every
    {serialize,deserialize}_content, TlvSet::{deserialize,serialize},
    TlvSetIterator, Tlv::{serialize,deserialize}, Message::{serialize,
    deserialize,wire_size}, including the error kinds.
    Executable definitions only (no proofs). *)
From SV Require Export Wire.Types.

(** * Byte helpers *)
Fixpoint be_decode_acc (acc : Z) (bs : bytes) : Z :=
  match bs with
  | [] => acc
  | b :: bs' => be_decode_acc (acc * 256 + b) bs'
  end.
Definition be_decode (bs : bytes) : Z := be_decode_acc 0 bs.

(** [be_encode n v] : the n low-order bytes of v, big endian (v taken mod 256^n) *)
Fixpoint be_encode (n : nat) (v : Z) : bytes :=
  match n with
  | O => []
  | S n' => ((v / 256 ^ Z.of_nat n') mod 256) :: be_encode n' v
  end.

Definition to_signed (bits : Z) (v : Z) : Z := if v <? 2 ^ (bits - 1) then v else v - 2 ^ bits.

Definition slice (off len : nat) (b : bytes) : bytes := firstn len (skipn off b).
Definition byte_at (off : nat) (b : bytes) : Z := nth off b 0.
Definition blen (b : bytes) : Z := Z.of_nat (length b).
Definition bit (v : Z) (k : Z) : bool := Z.testbit v k.
Definition b2z (b : bool) : Z := if b then 1 else 0.

(** * Enumerations (canonical primitive = to_primitive (from_primitive v)) *)
Definition msg_type_of_nibble (v : Z) : option msg_type :=
  if v =? 0 then Some MTSync else if v =? 1 then Some MTDelayReq
  else if v =? 2 then Some MTPDelayReq else if v =? 3 then Some MTPDelayResp
  else if v =? 8 then Some MTFollowUp else if v =? 9 then Some MTDelayResp
  else if v =? 10 then Some MTPDelayRespFollowUp else if v =? 11 then Some MTAnnounce
  else if v =? 12 then Some MTSignaling else if v =? 13 then Some MTManagement
  else None.
Definition msg_type_code (t : msg_type) : Z :=
  match t with
  | MTSync => 0 | MTDelayReq => 1 | MTPDelayReq => 2 | MTPDelayResp => 3
  | MTFollowUp => 8 | MTDelayResp => 9 | MTPDelayRespFollowUp => 10
  | MTAnnounce => 11 | MTSignaling => 12 | MTManagement => 13
  end.
Definition control_field (t : msg_type) : Z :=
  match t with
  | MTSync => 0 | MTDelayReq => 1 | MTFollowUp => 2 | MTDelayResp => 3
  | MTManagement => 4 | _ => 5
  end.

Definition canon_accuracy (v : Z) : Z :=
  if ((23 <=? v) && (v <=? 49)) || ((128 <=? v) && (v <=? 254)) then v else 0.
Definition canon_time_source (v : Z) : Z := v.        (* every byte survives the round trip *)
Definition canon_mgmt_action (v : Z) : Z := if v <=? 4 then v else 5.
Definition canon_tlv_type (v : Z) : Z := v.
Definition tlv_announce_propagate (t : Z) : bool :=
  (t =? 8) || (t =? 9) || ((16384 <=? t) && (t <=? 32767)).

(** * Common structures *)
Definition dec_ts (b : bytes) : wire_ts := mkTS (be_decode (slice 0 6 b)) (be_decode (slice 6 4 b)).
Definition enc_ts (t : wire_ts) : bytes := be_encode 6 (ts_secs t) ++ be_encode 4 (ts_nanos t).
Definition dec_pi (b : bytes) : port_identity := mkPI (be_decode (slice 0 8 b)) (be_decode (slice 8 2 b)).
Definition enc_pi (p : port_identity) : bytes := be_encode 8 (pi_clock p) ++ be_encode 2 (pi_port p).
Definition dec_cq (b : bytes) : clock_quality :=
  mkCQ (byte_at 0 b) (canon_accuracy (byte_at 1 b)) (be_decode (slice 2 2 b)).
Definition enc_cq (q : clock_quality) : bytes :=
  [cq_class q; cq_accuracy q] ++ be_encode 2 (cq_variance q).

(** * Header *)
Record deser_header := mkDH { dh_header : header; dh_type : msg_type; dh_length : Z }.

Definition decode_header (b : bytes) : res deser_header :=
  if blen b <? 34 then RErr EBufferTooShort else
  let b0 := byte_at 0 b in
  let b1 := byte_at 1 b in
  let b6 := byte_at 6 b in
  let b7 := byte_at 7 b in
  let h := mkHeader
    ((b0 / 16) * 256 + byte_at 5 b)
    (b1 mod 16) (b1 / 16)
    (byte_at 4 b)
    (bit b6 0) (bit b6 1) (bit b6 2) (bit b6 5) (bit b6 6)
    (bit b7 0) (bit b7 1) (bit b7 2) (bit b7 3) (bit b7 4) (bit b7 5) (bit b7 6)
    (to_signed 64 (be_decode (slice 8 8 b)))
    (dec_pi (slice 20 10 b))
    (be_decode (slice 30 2 b))
    (to_signed 8 (byte_at 33 b)) in
  match msg_type_of_nibble (b0 mod 16) with
  | None => RErr EEnumConversion
  | Some t => ROk (mkDH h t (be_decode (slice 2 2 b)))
  end.

(** serialize_header content_type content_length : exactly 34 bytes *)
Definition encode_header (h : header) (t : msg_type) (content_len : Z) : bytes :=
  [ ((h_sdo_id h / 256) * 16) mod 256 + msg_type_code t;
    ((h_version_minor h * 16) mod 256) + h_version_major h ]
  ++ be_encode 2 (content_len + 34)
  ++ [ h_domain h; h_sdo_id h mod 256;
       b2z (h_alternate_master h) + 2 * b2z (h_two_step h) + 4 * b2z (h_unicast h)
         + 32 * b2z (h_profile1 h) + 64 * b2z (h_profile2 h);
       b2z (h_leap61 h) + 2 * b2z (h_leap59 h) + 4 * b2z (h_utc_valid h)
         + 8 * b2z (h_ptp_timescale h) + 16 * b2z (h_time_traceable h)
         + 32 * b2z (h_freq_traceable h) + 64 * b2z (h_sync_uncertain h) ]
  ++ be_encode 8 (h_correction h)
  ++ [0; 0; 0; 0]
  ++ enc_pi (h_source h)
  ++ be_encode 2 (h_seq h)
  ++ [ control_field t; (h_log_interval h) mod 256 ].

(** * Bodies *)
Definition body_size (b : body) : Z :=
  match b with
  | BSync _ | BDelayReq _ | BFollowUp _ | BSignaling _ => 10
  | BPDelayReq _      (* originTimestamp + 10 reserved octets (p_delay_req.rs: content_size 20) *)
  | BPDelayResp _ _ | BDelayResp _ _ | BPDelayRespFollowUp _ _ => 20
  | BAnnounce _ => 30
  | BManagement _ _ _ _ => 14
  end.

Definition decode_body (t : msg_type) (c : bytes) : res body :=
  let need (n : Z) (k : res body) := if blen c <? n then RErr EBufferTooShort else k in
  match t with
  | MTSync => need 10 (ROk (BSync (dec_ts c)))
  | MTDelayReq => need 10 (ROk (BDelayReq (dec_ts c)))
  | MTPDelayReq => need 20 (ROk (BPDelayReq (dec_ts c)))
  | MTFollowUp => need 10 (ROk (BFollowUp (dec_ts c)))
  | MTPDelayResp => need 20 (ROk (BPDelayResp (dec_ts c) (dec_pi (slice 10 10 c))))
  | MTDelayResp => need 20 (ROk (BDelayResp (dec_ts c) (dec_pi (slice 10 10 c))))
  | MTPDelayRespFollowUp => need 20 (ROk (BPDelayRespFollowUp (dec_ts c) (dec_pi (slice 10 10 c))))
  | MTAnnounce =>
      need 30 (ROk (BAnnounce (mkAnn
        (dec_ts c)
        (to_signed 16 (be_decode (slice 10 2 c)))
        (byte_at 13 c)
        (dec_cq (slice 14 4 c))
        (byte_at 18 c)
        (be_decode (slice 19 8 c))
        (be_decode (slice 27 2 c))
        (canon_time_source (byte_at 29 c)))))
  | MTSignaling => need 10 (ROk (BSignaling (dec_pi c)))
  | MTManagement =>
      need 14 (ROk (BManagement (dec_pi c) (byte_at 11 c) (byte_at 12 c)
                                (canon_mgmt_action (byte_at 13 c))))
  end.

(** bytes never written by the serializer are left as in the zeroed buffer *)
Definition encode_body (b : body) : bytes :=
  match b with
  | BSync t | BDelayReq t | BFollowUp t => enc_ts t
  | BPDelayReq t => enc_ts t ++ [0; 0; 0; 0; 0; 0; 0; 0; 0; 0]   (* buffer[10..20].fill(0) *)
  | BPDelayResp t p | BDelayResp t p | BPDelayRespFollowUp t p => enc_ts t ++ enc_pi p
  | BAnnounce a =>
      enc_ts (an_origin a) ++ be_encode 2 (an_utc_offset a) ++ [0; an_prio1 a]
      ++ enc_cq (an_quality a) ++ [an_prio2 a] ++ be_encode 8 (an_gm_identity a)
      ++ be_encode 2 (an_steps_removed a) ++ [an_time_source a]
  | BSignaling p => enc_pi p
  | BManagement p s h a => enc_pi p ++ [0; s; h; a]
  end.

(** * TLV sets *)
(** TlvSet::deserialize: returns the validated prefix (which is everything, as
    a non-empty remainder is an error). fuel = length of the buffer. *)
Fixpoint tlvset_scan (fuel : nat) (buf : bytes) (total : nat) : res nat :=
  match fuel with
  | O => if (length buf =? 0)%nat then ROk total else RErr EBufferTooShort
  | S fuel' =>
      if (4 <=? blen buf) then        (* `while buffer.len() >= 4` (repaired F5) *)
        let len := be_decode (slice 2 2 buf) in
        if len mod 2 =? 1 then RErr EInvalid
        else if blen buf <? 4 + len then RErr EBufferTooShort
        else tlvset_scan fuel' (skipn (4 + Z.to_nat len) buf) (total + 4 + Z.to_nat len)
      else if (length buf =? 0)%nat then ROk total else RErr EBufferTooShort
  end.
Definition decode_tlvset (buf : bytes) : res bytes :=
  let? n := tlvset_scan (length buf) buf 0 in ROk (firstn n buf).

(** TlvSetIterator over validated bytes: list of TLVs.
    (`next` stops when <= 4 bytes remain.) *)
Fixpoint tlvset_iter (fuel : nat) (buf : bytes) : list tlv :=
  match fuel with
  | O => []
  | S fuel' =>
      if blen buf <? 4 then []        (* repaired F5 *)
      else
        let len := Z.to_nat (be_decode (slice 2 2 buf)) in
        mkTlv (canon_tlv_type (be_decode (slice 0 2 buf))) (slice 4 len buf)
        :: tlvset_iter fuel' (skipn (4 + len) buf)
  end.
Definition tlvs_of (suffix : bytes) : list tlv := tlvset_iter (length suffix) suffix.

Definition tlv_wire_size (t : tlv) : Z := 4 + blen (tlv_value t).
Definition encode_tlv (t : tlv) : bytes :=
  be_encode 2 (tlv_type t) ++ be_encode 2 (blen (tlv_value t)) ++ tlv_value t.

(** * Messages *)
Definition wire_size (m : message) : Z := 34 + body_size (m_body m) + blen (m_suffix m).

Definition decode (b : bytes) : res message :=
  let? dh := decode_header b in
  if dh_length dh <? 34 then RErr EInvalid else
  if blen b <? dh_length dh then RErr EBufferTooShort else
  let content := slice 34 (Z.to_nat (dh_length dh) - 34) b in
  let? bd := decode_body (dh_type dh) content in
  let tlvbuf := skipn (Z.to_nat (body_size bd)) content in
  let? suffix := decode_tlvset tlvbuf in
  ROk (mkMsg (dh_header dh) bd suffix).

(** Message::serialize into a zeroed buffer of length [buflen]: panics
    (slice index) when the buffer is too small; returns the frame bytes. *)
Definition site_serialize : nat := 201.
Definition encode_raw (m : message) : bytes :=
  encode_header (m_header m) (body_type (m_body m)) (body_size (m_body m) + blen (m_suffix m))
  ++ encode_body (m_body m) ++ m_suffix m.
Definition encode (buflen : Z) (m : message) : outcome bytes :=
  if buflen <? wire_size m then Panic site_serialize else Ok (encode_raw m).

(** is_compatible *)
Definition is_compatible (b : bytes) : bool := (2 <=? blen b) && (byte_at 1 b mod 16 =? 2).
