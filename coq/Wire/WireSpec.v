(** An independently written codec for the PTP message formats of
    IEEE 1588-2019 Clause 13 (common header 13.3, Announce 13.5, Sync and
    Delay_Req 13.6, Follow_Up 13.7, Delay_Resp 13.8, Pdelay_Req 13.9,
    Pdelay_Resp 13.10, Pdelay_Resp_Follow_Up 13.11, Signaling 13.12) and the
    TLV framing of 14.1 (tlvType UInteger16, lengthField UInteger16 even,
    valueField).

    It is a TABLE of field layouts (octet offset from the start of the
    message, width in octets, bit position inside that big-endian integer,
    number of bits, signedness) together with one generic reader [read].
    Nothing here refers to the model of the implementation (Wire/WireImpl.v);
    it does not even share its byte helpers.

    Management messages are defined in Clause 15 (Table 59), not in Clause 13.
    Their three one-octet fields are tabulated here AS IMPLEMENTED by statime
    (startingBoundaryHops at octet 45, boundaryHops at 46, actionField = the
    whole octet 47), which is one octet later than Table 59 prescribes
    (44, 45, low nibble of 46).  They are therefore outside the Clause-13 claim
    of property C04 and only take part in the self-consistency claims. *)
From SV Require Export Base.Prelude.

Definition octets := list Z.

(** octet [k] of a frame (0 when absent) *)
Definition oct (b : octets) (k : nat) : Z := nth k b 0.

(** the [n] octets starting at [off] *)
Definition sub (b : octets) (off n : nat) : octets :=
  map (fun i => oct b (off + i)) (seq 0 n).

(** unsigned big-endian integer held by the [n] octets starting at [off]:
    sum over i < n of  b[off+i] * 256^(n-1-i) *)
Fixpoint uint_be (b : octets) (off n : nat) : Z :=
  match n with
  | O => 0
  | S n' => oct b off * 256 ^ Z.of_nat n' + uint_be b (S off) n'
  end.

(** two's complement reading of an unsigned [bits]-bit pattern *)
Definition twos (bits v : Z) : Z := v - 2 ^ bits * (v / 2 ^ (bits - 1)).

(** * Layout table *)
Record layout := mkL {
  l_off : nat;        (* first octet *)
  l_len : nat;        (* octets *)
  l_shift : Z;        (* bit position of the field's least significant bit inside those octets *)
  l_bits : Z;         (* width in bits *)
  l_signed : bool
}.

Definition read (l : layout) (b : octets) : Z :=
  let raw := (uint_be b (l_off l) (l_len l) / 2 ^ l_shift l) mod 2 ^ l_bits l in
  if l_signed l then twos (l_bits l) raw else raw.

(** whole-octet unsigned / signed fields, and bit fields inside one octet *)
Definition LU (off len : nat) : layout := mkL off len 0 (8 * Z.of_nat len) false.
Definition LS (off len : nat) : layout := mkL off len 0 (8 * Z.of_nat len) true.
Definition LB (off : nat) (shift bits : Z) : layout := mkL off 1 shift bits false.

Inductive field :=
(* common header, 13.3 / Table 35 *)
| FmajorSdoId | FmessageType | FminorVersionPTP | FversionPTP | FmessageLength
| FdomainNumber | FminorSdoId | FflagField
| FalternateMaster | FtwoStep | Funicast | FprofileSpecific1 | FprofileSpecific2
| Fleap61 | Fleap59 | FcurrentUtcOffsetValid | FptpTimescale | FtimeTraceable
| FfrequencyTraceable | FsynchronizationUncertain
| FcorrectionField | FmessageTypeSpecific | FsourceClockIdentity | FsourcePortNumber
| FsequenceId | FcontrolField | FlogMessageInterval
(* the timestamp that opens every body except Signaling and Management
   (originTimestamp, preciseOriginTimestamp, receiveTimestamp,
   requestReceiptTimestamp, responseOriginTimestamp) *)
| FtsSeconds | FtsNanoseconds
(* requestingPortIdentity / targetPortIdentity *)
| FpiClockIdentity | FpiPortNumber
| FpdelayReqReserved
(* Announce, Table 43 *)
| FcurrentUtcOffset | FannounceReserved | FgrandmasterPriority1 | FgmClockClass
| FgmClockAccuracy | FgmOffsetScaledLogVariance | FgrandmasterPriority2
| FgrandmasterIdentity | FstepsRemoved | FtimeSource
(* Management (Clause 15, as implemented) *)
| FmgmtOctet44 | FstartingBoundaryHops | FboundaryHops | FactionField.

(** messageType values (Table 36) and the length of the message body that
    follows the 34-octet header (Tables 43-51, Table 59: 48 - 34) *)
Definition spec_msg_types : list (Z * nat) :=
  [ (0, 10%nat)   (* Sync *);
    (1, 10%nat)   (* Delay_Req *);
    (2, 20%nat)   (* Pdelay_Req: originTimestamp + 10 reserved octets *);
    (3, 20%nat)   (* Pdelay_Resp *);
    (8, 10%nat)   (* Follow_Up *);
    (9, 20%nat)   (* Delay_Resp *);
    (10, 20%nat)  (* Pdelay_Resp_Follow_Up *);
    (11, 30%nat)  (* Announce *);
    (12, 10%nat)  (* Signaling: targetPortIdentity *);
    (13, 14%nat)  (* Management: up to the managementTLV *) ].

Fixpoint assocz {A} (k : Z) (l : list (Z * A)) : option A :=
  match l with
  | [] => None
  | (k', v) :: l' => if k =? k' then Some v else assocz k l'
  end.

Definition spec_body_len (mt : Z) : option nat := assocz mt spec_msg_types.

(** controlField (13.3.2.13, Table 42): determined by the message type *)
Definition spec_control (mt : Z) : Z :=
  match assocz mt [(0, 0); (1, 1); (8, 2); (9, 3); (13, 4)] with
  | Some c => c
  | None => 5
  end.

Definition header_layout (f : field) : option layout :=
  match f with
  | FmajorSdoId => Some (LB 0 4 4)
  | FmessageType => Some (LB 0 0 4)
  | FminorVersionPTP => Some (LB 1 4 4)
  | FversionPTP => Some (LB 1 0 4)
  | FmessageLength => Some (LU 2 2)
  | FdomainNumber => Some (LU 4 1)
  | FminorSdoId => Some (LU 5 1)
  | FflagField => Some (LU 6 2)
  (* flagField octet 0 (Table 37) *)
  | FalternateMaster => Some (LB 6 0 1)
  | FtwoStep => Some (LB 6 1 1)
  | Funicast => Some (LB 6 2 1)
  | FprofileSpecific1 => Some (LB 6 5 1)
  | FprofileSpecific2 => Some (LB 6 6 1)
  (* flagField octet 1 *)
  | Fleap61 => Some (LB 7 0 1)
  | Fleap59 => Some (LB 7 1 1)
  | FcurrentUtcOffsetValid => Some (LB 7 2 1)
  | FptpTimescale => Some (LB 7 3 1)
  | FtimeTraceable => Some (LB 7 4 1)
  | FfrequencyTraceable => Some (LB 7 5 1)
  | FsynchronizationUncertain => Some (LB 7 6 1)
  | FcorrectionField => Some (LS 8 8)
  | FmessageTypeSpecific => Some (LU 16 4)
  | FsourceClockIdentity => Some (LU 20 8)
  | FsourcePortNumber => Some (LU 28 2)
  | FsequenceId => Some (LU 30 2)
  | FcontrolField => Some (LU 32 1)
  | FlogMessageInterval => Some (LS 33 1)
  | _ => None
  end.

Definition has_timestamp (mt : Z) : bool :=
  match assocz mt [(0, tt); (1, tt); (2, tt); (3, tt); (8, tt); (9, tt); (10, tt); (11, tt)] with
  | Some _ => true | None => false end.
Definition has_requesting_port (mt : Z) : bool :=
  match assocz mt [(3, tt); (9, tt); (10, tt)] with Some _ => true | None => false end.
Definition has_target_port (mt : Z) : bool :=
  match assocz mt [(12, tt); (13, tt)] with Some _ => true | None => false end.

Definition body_layout (mt : Z) (f : field) : option layout :=
  match f with
  | FtsSeconds => if has_timestamp mt then Some (LU 34 6) else None
  | FtsNanoseconds => if has_timestamp mt then Some (LU 40 4) else None
  | FpiClockIdentity =>
      if has_requesting_port mt then Some (LU 44 8)
      else if has_target_port mt then Some (LU 34 8) else None
  | FpiPortNumber =>
      if has_requesting_port mt then Some (LU 52 2)
      else if has_target_port mt then Some (LU 42 2) else None
  | FpdelayReqReserved => if mt =? 2 then Some (LU 44 10) else None
  | FcurrentUtcOffset => if mt =? 11 then Some (LS 44 2) else None
  | FannounceReserved => if mt =? 11 then Some (LU 46 1) else None
  | FgrandmasterPriority1 => if mt =? 11 then Some (LU 47 1) else None
  | FgmClockClass => if mt =? 11 then Some (LU 48 1) else None
  | FgmClockAccuracy => if mt =? 11 then Some (LU 49 1) else None
  | FgmOffsetScaledLogVariance => if mt =? 11 then Some (LU 50 2) else None
  | FgrandmasterPriority2 => if mt =? 11 then Some (LU 52 1) else None
  | FgrandmasterIdentity => if mt =? 11 then Some (LU 53 8) else None
  | FstepsRemoved => if mt =? 11 then Some (LU 61 2) else None
  | FtimeSource => if mt =? 11 then Some (LU 63 1) else None
  | FmgmtOctet44 => if mt =? 13 then Some (LU 44 1) else None
  | FstartingBoundaryHops => if mt =? 13 then Some (LU 45 1) else None
  | FboundaryHops => if mt =? 13 then Some (LU 46 1) else None
  | FactionField => if mt =? 13 then Some (LU 47 1) else None
  | _ => None
  end.

Definition layout_of (mt : Z) (f : field) : option layout :=
  match header_layout f with
  | Some l => Some l
  | None => body_layout mt f
  end.

Definition header_fields : list field :=
  [ FmajorSdoId; FmessageType; FminorVersionPTP; FversionPTP; FmessageLength;
    FdomainNumber; FminorSdoId; FflagField;
    FalternateMaster; FtwoStep; Funicast; FprofileSpecific1; FprofileSpecific2;
    Fleap61; Fleap59; FcurrentUtcOffsetValid; FptpTimescale; FtimeTraceable;
    FfrequencyTraceable; FsynchronizationUncertain;
    FcorrectionField; FmessageTypeSpecific; FsourceClockIdentity; FsourcePortNumber;
    FsequenceId; FcontrolField; FlogMessageInterval ].

Definition body_field_names : list field :=
  [ FtsSeconds; FtsNanoseconds; FpiClockIdentity; FpiPortNumber; FpdelayReqReserved;
    FcurrentUtcOffset; FannounceReserved; FgrandmasterPriority1; FgmClockClass;
    FgmClockAccuracy; FgmOffsetScaledLogVariance; FgrandmasterPriority2;
    FgrandmasterIdentity; FstepsRemoved; FtimeSource;
    FmgmtOctet44; FstartingBoundaryHops; FboundaryHops; FactionField ].

(** the fields of a message of type [mt] *)
Definition spec_fields (mt : Z) : list field :=
  header_fields
  ++ filter (fun f => match body_layout mt f with Some _ => true | None => false end)
            body_field_names.

(** * Reading a frame *)
Definition spec_msg_type (b : octets) : Z := oct b 0 mod 16.

Definition spec_get (f : field) (b : octets) : Z :=
  match layout_of (spec_msg_type b) f with
  | Some l => read l b
  | None => 0
  end.

(** * Canonical form of a field value: what a conforming re-transmission of
    the same information carries.  Reserved bits and reserved fields are
    transmitted as zero (13.2 / 5.3.x "reserved ... shall be transmitted with
    all bits 0"), controlField is a function of messageType, reserved
    clockAccuracy values (Table 5: 00-16, 32-7F, FF) are not information and
    collapse to 00 (the upstream test network_protocol_values exempts them on
    purpose).  Reserved timeSource values are carried unchanged. *)
Definition in_range (lo hi v : Z) : bool := (lo <=? v) && (v <=? hi).

Definition accuracy_defined (v : Z) : bool :=
  in_range 23 49 v       (* 0x17 (1 ps) .. 0x31 (> 10 s) *)
  || in_range 128 253 v  (* 0x80 .. 0xFD: alternate PTP profiles *)
  || (v =? 254).         (* 0xFE: unknown *)

Definition flag_mask : Z := 103 * 256 + 127.   (* 0x67 in octet 6, 0x7F in octet 7 *)

Definition spec_canon (mt : Z) (f : field) (v : Z) : Z :=
  match f with
  | FflagField => Z.land v flag_mask
  | FmessageTypeSpecific => 0
  | FcontrolField => spec_control mt
  | FpdelayReqReserved => 0
  | FannounceReserved => 0
  | FgmClockAccuracy => if accuracy_defined v then v else 0
  | FmgmtOctet44 => 0
  | FactionField => if v <=? 4 then v else 5   (* as implemented: 5 = "reserved" *)
  | _ => v
  end.

(** * TLV framing (14.1): tlvType, lengthField (even), valueField *)
Fixpoint spec_tlvs_fuel (fuel : nat) (a : octets) : option (list (Z * octets)) :=
  match a with
  | [] => Some []
  | _ =>
      match fuel with
      | O => None
      | S fuel' =>
          if (length a <? 4)%nat then None
          else
            let ty := uint_be a 0 2 in
            let len := Z.to_nat (uint_be a 2 2) in
            if Z.odd (uint_be a 2 2) then None
            else if (length a <? 4 + len)%nat then None
            else
              match spec_tlvs_fuel fuel' (skipn (4 + len) a) with
              | Some r => Some ((ty, sub a 4 len) :: r)
              | None => None
              end
      end
  end.
Definition spec_tlvs (a : octets) : option (list (Z * octets)) := spec_tlvs_fuel (length a) a.

(** the octets between the end of the body and the declared end of the message *)
Definition spec_tlv_area (b : octets) : octets :=
  match spec_body_len (spec_msg_type b) with
  | Some bl => sub b (34 + bl) (Z.to_nat (uint_be b 2 2) - (34 + bl))
  | None => []
  end.

(** A well-formed frame: complete header, defined messageType, declared
    length covering header and body and not exceeding the octets at hand
    (anything beyond is padding), TLV area made of whole TLVs. *)
Definition spec_wellformed (b : octets) : bool :=
  if (34 <=? length b)%nat then
    match spec_body_len (spec_msg_type b) with
    | None => false
    | Some bl =>
        let L := Z.to_nat (uint_be b 2 2) in
        if (34 + bl <=? L)%nat then
          if (L <=? length b)%nat then
            match spec_tlvs (spec_tlv_area b) with Some _ => true | None => false end
          else false
        else false
    end
  else false.

Definition octets_ok (b : octets) : bool := forallb (fun x => (0 <=? x) && (x <? 256)) b.
