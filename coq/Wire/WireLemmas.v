(** Proofs about the wire codec model (C04). *)
From SV Require Import Wire.WireCases Wire.WireBytes.

(** * 1. The decoder, piece by piece *)

Definition hdr_of (b : bytes) : header :=
  let b0 := byte_at 0 b in
  let b1 := byte_at 1 b in
  let b6 := byte_at 6 b in
  let b7 := byte_at 7 b in
  mkHeader
    ((b0 / 16) * 256 + byte_at 5 b)
    (b1 mod 16) (b1 / 16)
    (byte_at 4 b)
    (bit b6 0) (bit b6 1) (bit b6 2) (bit b6 5) (bit b6 6)
    (bit b7 0) (bit b7 1) (bit b7 2) (bit b7 3) (bit b7 4) (bit b7 5) (bit b7 6)
    (to_signed 64 (be_decode (slice 8 8 b)))
    (dec_pi (slice 20 10 b))
    (be_decode (slice 30 2 b))
    (to_signed 8 (byte_at 33 b)).

(** the declared messageLength and the content buffer it delimits *)
Definition mlen (b : bytes) : Z := be_decode (slice 2 2 b).
Definition content_of (b : bytes) : bytes := slice 34 (Z.to_nat (mlen b) - 34) b.

Definition type_body_size (t : msg_type) : Z :=
  match t with
  | MTSync | MTDelayReq | MTFollowUp | MTSignaling => 10
  | MTPDelayReq | MTPDelayResp | MTDelayResp | MTPDelayRespFollowUp => 20
  | MTAnnounce => 30
  | MTManagement => 14
  end.

Definition body_of (t : msg_type) (c : bytes) : body :=
  match t with
  | MTSync => BSync (dec_ts c)
  | MTDelayReq => BDelayReq (dec_ts c)
  | MTPDelayReq => BPDelayReq (dec_ts c)
  | MTFollowUp => BFollowUp (dec_ts c)
  | MTPDelayResp => BPDelayResp (dec_ts c) (dec_pi (slice 10 10 c))
  | MTDelayResp => BDelayResp (dec_ts c) (dec_pi (slice 10 10 c))
  | MTPDelayRespFollowUp => BPDelayRespFollowUp (dec_ts c) (dec_pi (slice 10 10 c))
  | MTAnnounce =>
      BAnnounce (mkAnn (dec_ts c) (to_signed 16 (be_decode (slice 10 2 c))) (byte_at 13 c)
                       (dec_cq (slice 14 4 c)) (byte_at 18 c) (be_decode (slice 19 8 c))
                       (be_decode (slice 27 2 c)) (canon_time_source (byte_at 29 c)))
  | MTSignaling => BSignaling (dec_pi c)
  | MTManagement =>
      BManagement (dec_pi c) (byte_at 11 c) (byte_at 12 c) (canon_mgmt_action (byte_at 13 c))
  end.

Lemma decode_body_eq t c :
  decode_body t c =
  if blen c <? type_body_size t then RErr EBufferTooShort else ROk (body_of t c).
Proof. destruct t; reflexivity. Qed.

Lemma body_of_type t c : body_type (body_of t c) = t.
Proof. destruct t; reflexivity. Qed.
Lemma body_of_size t c : body_size (body_of t c) = type_body_size t.
Proof. destruct t; reflexivity. Qed.
Lemma body_size_type bd : body_size bd = type_body_size (body_type bd).
Proof. destruct bd; reflexivity. Qed.

Lemma decode_eq b :
  decode b =
  if blen b <? 34 then RErr EBufferTooShort else
  match msg_type_of_nibble (byte_at 0 b mod 16) with
  | None => RErr EEnumConversion
  | Some t =>
      if mlen b <? 34 then RErr EInvalid else
      if blen b <? mlen b then RErr EBufferTooShort else
      if blen (content_of b) <? type_body_size t then RErr EBufferTooShort else
      match decode_tlvset (skipn (Z.to_nat (type_body_size t)) (content_of b)) with
      | RErr e => RErr e
      | ROk s => ROk (mkMsg (hdr_of b) (body_of t (content_of b)) s)
      end
  end.
Proof.
  unfold decode, decode_header. fold (hdr_of b). fold (mlen b).
  destruct (blen b <? 34); [reflexivity|]. cbn [rbind].
  destruct (msg_type_of_nibble (byte_at 0 b mod 16)) as [t|]; [|reflexivity].
  cbn [rbind dh_length dh_type dh_header].
  destruct (mlen b <? 34); [reflexivity|].
  destruct (blen b <? mlen b); [reflexivity|].
  fold (content_of b). rewrite decode_body_eq.
  destruct (blen (content_of b) <? type_body_size t); [reflexivity|].
  cbn [rbind]. rewrite body_of_size.
  destruct (decode_tlvset _); reflexivity.
Qed.

(** ** the TLV scanner accepts only buffers it consumes entirely *)
Lemma tlvset_scan_total : forall fuel buf total n,
  tlvset_scan fuel buf total = ROk n -> n = (total + length buf)%nat.
Proof.
  induction fuel; intros buf total n H; cbn [tlvset_scan] in H.
  - destruct (Nat.eqb_spec (length buf) 0); [|discriminate]. injection H as <-. lia.
  - destruct (Z.ltb_spec 4 (blen buf)) as [H4|H4].
    + set (len := be_decode (slice 2 2 buf)) in *.
      destruct (len mod 2 =? 1); [discriminate|].
      destruct (Z.ltb_spec (blen buf) (4 + len)) as [Hs|Hs]; [discriminate|].
      apply IHfuel in H. rewrite skipn_length in H. unfold blen in *. lia.
    + destruct (Nat.eqb_spec (length buf) 0); [|discriminate]. injection H as <-. lia.
Qed.

Lemma decode_tlvset_id buf s : decode_tlvset buf = ROk s -> s = buf.
Proof.
  unfold decode_tlvset. destruct (tlvset_scan (length buf) buf 0) as [n|] eqn:E; [|discriminate].
  cbn [rbind]. intros H; injection H as <-. apply tlvset_scan_total in E. subst n.
  apply firstn_all.
Qed.

(** ** inversion of a successful decode *)
Lemma decode_inv b m :
  decode b = ROk m ->
  exists t,
    msg_type_of_nibble (byte_at 0 b mod 16) = Some t /\
    34 <= blen b /\ 34 <= mlen b <= blen b /\
    type_body_size t <= blen (content_of b) /\
    decode_tlvset (skipn (Z.to_nat (type_body_size t)) (content_of b)) = ROk (m_suffix m) /\
    m_suffix m = skipn (Z.to_nat (type_body_size t)) (content_of b) /\
    m = mkMsg (hdr_of b) (body_of t (content_of b)) (m_suffix m).
Proof.
  rewrite decode_eq.
  destruct (Z.ltb_spec (blen b) 34); [discriminate|].
  destruct (msg_type_of_nibble (byte_at 0 b mod 16)) as [t|]; [|discriminate].
  destruct (Z.ltb_spec (mlen b) 34); [discriminate|].
  destruct (Z.ltb_spec (blen b) (mlen b)); [discriminate|].
  destruct (Z.ltb_spec (blen (content_of b)) (type_body_size t)); [discriminate|].
  destruct (decode_tlvset _) as [s|] eqn:E; [|discriminate].
  intros Hmm; injection Hmm as <-. exists t. cbn [m_suffix].
  pose proof (decode_tlvset_id _ _ E).
  repeat split; auto; try lia.
Qed.

Lemma content_length b : 34 <= mlen b <= blen b -> blen (content_of b) = mlen b - 34.
Proof.
  intros H. unfold content_of, blen in *. rewrite slice_length; lia.
Qed.

(** * 2. decode_local: nothing beyond the declared length is read *)

Lemma hdr_of_firstn K b : (34 <= K)%nat -> hdr_of (firstn K b) = hdr_of b.
Proof.
  intros H. unfold hdr_of.
  rewrite !byte_at_firstn by lia. rewrite !slice_firstn by lia. reflexivity.
Qed.

Lemma decode_firstn K b :
  (34 <= K <= length b)%nat -> mlen b <= Z.of_nat K -> decode (firstn K b) = decode b.
Proof.
  intros HK HL. rewrite !decode_eq.
  assert (Hlen : blen (firstn K b) = Z.of_nat K).
  { unfold blen. rewrite firstn_length. lia. }
  assert (Hm : mlen (firstn K b) = mlen b).
  { unfold mlen. rewrite slice_firstn by lia. reflexivity. }
  rewrite Hlen, Hm, hdr_of_firstn, byte_at_firstn by lia.
  destruct (Z.ltb_spec (Z.of_nat K) 34); [lia|].
  destruct (Z.ltb_spec (blen b) 34); [unfold blen in *; lia|].
  destruct (msg_type_of_nibble (byte_at 0 b mod 16)) as [t|]; [|reflexivity].
  destruct (Z.ltb_spec (mlen b) 34); [reflexivity|].
  destruct (Z.ltb_spec (Z.of_nat K) (mlen b)); [lia|].
  destruct (Z.ltb_spec (blen b) (mlen b)); [unfold blen in *; lia|].
  assert (Hc : content_of (firstn K b) = content_of b).
  { unfold content_of. rewrite Hm. apply slice_firstn. lia. }
  rewrite Hc. reflexivity.
Qed.

(** [decode] is a function of the first max(34, messageLength) octets. *)
Theorem decode_local b b' :
  34 <= blen b -> mlen b <= blen b ->
  let K := Z.to_nat (Z.max 34 (mlen b)) in
  firstn K b = firstn K b' ->
  decode b = decode b'.
Proof.
  intros H34 HL K HK.
  assert (HKb : (34 <= K <= length b)%nat) by (unfold K, blen in *; lia).
  assert (HKb' : (K <= length b')%nat).
  { assert (E : length (firstn K b) = length (firstn K b')) by (rewrite HK; reflexivity).
    rewrite !firstn_length in E. lia. }
  assert (Hm : mlen b' = mlen b).
  { unfold mlen. rewrite <- (slice_firstn 2 2 K b'), <- HK, slice_firstn by lia. reflexivity. }
  rewrite <- (decode_firstn K b) by (unfold K; lia).
  rewrite <- (decode_firstn K b') by (rewrite ?Hm; unfold K; lia).
  rewrite HK. reflexivity.
Qed.
