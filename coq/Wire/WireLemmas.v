(** Proofs about the wire codec model (C04). *)
From SV Require Import Wire.WireCases Wire.WireBytes.

(** * 1. The decoder, piece by piece *)

Definition hdr_of (b : bytes) : header :=
  let b0 := byte_at 0 b in
  let b1 := byte_at 1 b in
  let b6 := byte_at 6 b in
  let b7 := byte_at 7 b in
  mkHeader
    ((b0 / 16) * 256 + byte_at 5 b)
    (b1 mod 16) (b1 / 16)
    (byte_at 4 b)
    (bit b6 0) (bit b6 1) (bit b6 2) (bit b6 5) (bit b6 6)
    (bit b7 0) (bit b7 1) (bit b7 2) (bit b7 3) (bit b7 4) (bit b7 5) (bit b7 6)
    (to_signed 64 (be_decode (slice 8 8 b)))
    (dec_pi (slice 20 10 b))
    (be_decode (slice 30 2 b))
    (to_signed 8 (byte_at 33 b)).

(** the declared messageLength and the content buffer it delimits *)
Definition mlen (b : bytes) : Z := be_decode (slice 2 2 b).
Definition content_of (b : bytes) : bytes := slice 34 (Z.to_nat (mlen b) - 34) b.

Definition type_body_size (t : msg_type) : Z :=
  match t with
  | MTSync | MTDelayReq | MTFollowUp | MTSignaling => 10
  | MTPDelayReq | MTPDelayResp | MTDelayResp | MTPDelayRespFollowUp => 20
  | MTAnnounce => 30
  | MTManagement => 14
  end.

Definition body_of (t : msg_type) (c : bytes) : body :=
  match t with
  | MTSync => BSync (dec_ts c)
  | MTDelayReq => BDelayReq (dec_ts c)
  | MTPDelayReq => BPDelayReq (dec_ts c)
  | MTFollowUp => BFollowUp (dec_ts c)
  | MTPDelayResp => BPDelayResp (dec_ts c) (dec_pi (slice 10 10 c))
  | MTDelayResp => BDelayResp (dec_ts c) (dec_pi (slice 10 10 c))
  | MTPDelayRespFollowUp => BPDelayRespFollowUp (dec_ts c) (dec_pi (slice 10 10 c))
  | MTAnnounce =>
      BAnnounce (mkAnn (dec_ts c) (to_signed 16 (be_decode (slice 10 2 c))) (byte_at 13 c)
                       (dec_cq (slice 14 4 c)) (byte_at 18 c) (be_decode (slice 19 8 c))
                       (be_decode (slice 27 2 c)) (canon_time_source (byte_at 29 c)))
  | MTSignaling => BSignaling (dec_pi c)
  | MTManagement =>
      BManagement (dec_pi c) (byte_at 11 c) (byte_at 12 c) (canon_mgmt_action (byte_at 13 c))
  end.

Lemma decode_body_eq t c :
  decode_body t c =
  if blen c <? type_body_size t then RErr EBufferTooShort else ROk (body_of t c).
Proof. destruct t; reflexivity. Qed.

Lemma body_of_type t c : body_type (body_of t c) = t.
Proof. destruct t; reflexivity. Qed.
Lemma body_of_size t c : body_size (body_of t c) = type_body_size t.
Proof. destruct t; reflexivity. Qed.
Lemma body_size_type bd : body_size bd = type_body_size (body_type bd).
Proof. destruct bd; reflexivity. Qed.

Lemma decode_eq b :
  decode b =
  if blen b <? 34 then RErr EBufferTooShort else
  match msg_type_of_nibble (byte_at 0 b mod 16) with
  | None => RErr EEnumConversion
  | Some t =>
      if mlen b <? 34 then RErr EInvalid else
      if blen b <? mlen b then RErr EBufferTooShort else
      if blen (content_of b) <? type_body_size t then RErr EBufferTooShort else
      match decode_tlvset (skipn (Z.to_nat (type_body_size t)) (content_of b)) with
      | RErr e => RErr e
      | ROk s => ROk (mkMsg (hdr_of b) (body_of t (content_of b)) s)
      end
  end.
Proof.
  unfold decode, decode_header. fold (hdr_of b). fold (mlen b).
  destruct (blen b <? 34); [reflexivity|]. cbn [rbind].
  destruct (msg_type_of_nibble (byte_at 0 b mod 16)) as [t|]; [|reflexivity].
  cbn [rbind dh_length dh_type dh_header].
  destruct (mlen b <? 34); [reflexivity|].
  destruct (blen b <? mlen b); [reflexivity|].
  fold (content_of b). rewrite decode_body_eq.
  destruct (blen (content_of b) <? type_body_size t); [reflexivity|].
  cbn [rbind]. rewrite body_of_size.
  destruct (decode_tlvset _); reflexivity.
Qed.

(** ** the TLV scanner accepts only buffers it consumes entirely *)
Lemma tlvset_scan_total : forall fuel buf total n,
  tlvset_scan fuel buf total = ROk n -> n = (total + length buf)%nat.
Proof.
  induction fuel; intros buf total n H; cbn [tlvset_scan] in H.
  - destruct (Nat.eqb_spec (length buf) 0); [|discriminate]. injection H as <-. lia.
  - destruct (Z.ltb_spec 4 (blen buf)) as [H4|H4].
    + set (len := be_decode (slice 2 2 buf)) in *.
      destruct (len mod 2 =? 1); [discriminate|].
      destruct (Z.ltb_spec (blen buf) (4 + len)) as [Hs|Hs]; [discriminate|].
      apply IHfuel in H. rewrite skipn_length in H. unfold blen in *. lia.
    + destruct (Nat.eqb_spec (length buf) 0); [|discriminate]. injection H as <-. lia.
Qed.

Lemma decode_tlvset_id buf s : decode_tlvset buf = ROk s -> s = buf.
Proof.
  unfold decode_tlvset. destruct (tlvset_scan (length buf) buf 0) as [n|] eqn:E; [|discriminate].
  cbn [rbind]. intros H; injection H as <-. apply tlvset_scan_total in E. subst n.
  apply firstn_all.
Qed.

(** ** inversion of a successful decode *)
Lemma decode_inv b m :
  decode b = ROk m ->
  exists t,
    msg_type_of_nibble (byte_at 0 b mod 16) = Some t /\
    34 <= blen b /\ 34 <= mlen b <= blen b /\
    type_body_size t <= blen (content_of b) /\
    decode_tlvset (skipn (Z.to_nat (type_body_size t)) (content_of b)) = ROk (m_suffix m) /\
    m_suffix m = skipn (Z.to_nat (type_body_size t)) (content_of b) /\
    m = mkMsg (hdr_of b) (body_of t (content_of b)) (m_suffix m).
Proof.
  rewrite decode_eq.
  destruct (Z.ltb_spec (blen b) 34); [discriminate|].
  destruct (msg_type_of_nibble (byte_at 0 b mod 16)) as [t|]; [|discriminate].
  destruct (Z.ltb_spec (mlen b) 34); [discriminate|].
  destruct (Z.ltb_spec (blen b) (mlen b)); [discriminate|].
  destruct (Z.ltb_spec (blen (content_of b)) (type_body_size t)); [discriminate|].
  destruct (decode_tlvset _) as [s|] eqn:E; [|discriminate].
  intros Hmm; injection Hmm as <-. exists t. cbn [m_suffix].
  pose proof (decode_tlvset_id _ _ E).
  repeat split; auto; try lia.
Qed.

Lemma content_length b : 34 <= mlen b <= blen b -> blen (content_of b) = mlen b - 34.
Proof.
  intros H. unfold content_of, blen in *. rewrite slice_length; lia.
Qed.

(** * 2. decode_local: nothing beyond the declared length is read *)

Lemma hdr_of_firstn K b : (34 <= K)%nat -> hdr_of (firstn K b) = hdr_of b.
Proof.
  intros H. unfold hdr_of.
  rewrite !byte_at_firstn by lia. rewrite !slice_firstn by lia. reflexivity.
Qed.

Lemma decode_firstn K b :
  (34 <= K <= length b)%nat -> mlen b <= Z.of_nat K -> decode (firstn K b) = decode b.
Proof.
  intros HK HL. rewrite !decode_eq.
  assert (Hlen : blen (firstn K b) = Z.of_nat K).
  { unfold blen. rewrite firstn_length. lia. }
  assert (Hm : mlen (firstn K b) = mlen b).
  { unfold mlen. rewrite slice_firstn by lia. reflexivity. }
  rewrite Hlen, Hm, hdr_of_firstn, byte_at_firstn by lia.
  destruct (Z.ltb_spec (Z.of_nat K) 34); [lia|].
  destruct (Z.ltb_spec (blen b) 34); [unfold blen in *; lia|].
  destruct (msg_type_of_nibble (byte_at 0 b mod 16)) as [t|]; [|reflexivity].
  destruct (Z.ltb_spec (mlen b) 34); [reflexivity|].
  destruct (Z.ltb_spec (Z.of_nat K) (mlen b)); [lia|].
  destruct (Z.ltb_spec (blen b) (mlen b)); [unfold blen in *; lia|].
  assert (Hc : content_of (firstn K b) = content_of b).
  { unfold content_of. rewrite Hm. apply slice_firstn. lia. }
  rewrite Hc. reflexivity.
Qed.

(** [decode] is a function of the first max(34, messageLength) octets. *)
Theorem decode_local b b' :
  34 <= blen b -> mlen b <= blen b ->
  let K := Z.to_nat (Z.max 34 (mlen b)) in
  firstn K b = firstn K b' ->
  decode b = decode b'.
Proof.
  intros H34 HL K HK.
  assert (HKb : (34 <= K <= length b)%nat) by (unfold K, blen in *; lia).
  assert (HKb' : (K <= length b')%nat).
  { assert (E : length (firstn K b) = length (firstn K b')) by (rewrite HK; reflexivity).
    rewrite !firstn_length in E. lia. }
  assert (Hm : mlen b' = mlen b).
  { unfold mlen. rewrite <- (slice_firstn 2 2 K b'), <- HK, slice_firstn by lia. reflexivity. }
  rewrite <- (decode_firstn K b) by (unfold K; lia).
  rewrite <- (decode_firstn K b') by (rewrite ?Hm; unfold K; lia).
  rewrite HK. reflexivity.
Qed.

(** * 3. Well-formed messages and [decode (encode_raw m) = ROk m] *)

Definition wf_pi (p : port_identity) : Prop :=
  0 <= pi_clock p < 18446744073709551616 /\ 0 <= pi_port p < 65536.
Definition wf_ts (t : wire_ts) : Prop :=
  0 <= ts_secs t < 281474976710656 /\ 0 <= ts_nanos t < 4294967296.
Definition wf_header (h : header) : Prop :=
  0 <= h_sdo_id h < 4096 /\ 0 <= h_version_major h < 16 /\ 0 <= h_version_minor h < 16 /\
  0 <= h_domain h < 256 /\
  - 9223372036854775808 <= h_correction h < 9223372036854775808 /\
  wf_pi (h_source h) /\ 0 <= h_seq h < 65536 /\ -128 <= h_log_interval h < 128.
Definition wf_cq (q : clock_quality) : Prop :=
  0 <= cq_class q < 256 /\ 0 <= cq_accuracy q < 256 /\
  canon_accuracy (cq_accuracy q) = cq_accuracy q /\ 0 <= cq_variance q < 65536.
Definition wf_ann (a : announce_body) : Prop :=
  wf_ts (an_origin a) /\ -32768 <= an_utc_offset a < 32768 /\ 0 <= an_prio1 a < 256 /\
  wf_cq (an_quality a) /\ 0 <= an_prio2 a < 256 /\
  0 <= an_gm_identity a < 18446744073709551616 /\
  0 <= an_steps_removed a < 65536 /\ 0 <= an_time_source a < 256.
Definition wf_body (b : body) : Prop :=
  match b with
  | BSync t | BDelayReq t | BPDelayReq t | BFollowUp t => wf_ts t
  | BPDelayResp t p | BDelayResp t p | BPDelayRespFollowUp t p => wf_ts t /\ wf_pi p
  | BAnnounce a => wf_ann a
  | BSignaling p => wf_pi p
  | BManagement p s h a => wf_pi p /\ 0 <= s < 256 /\ 0 <= h < 256 /\ 0 <= a <= 5
  end.
(** a valid TLV suffix: octets that the implementation's own TLV scanner accepts *)
Definition wf_suffix (s : bytes) : Prop := bok s /\ decode_tlvset s = ROk s.
Definition wf_msg (m : message) : Prop :=
  wf_header (m_header m) /\ wf_body (m_body m) /\ wf_suffix (m_suffix m) /\ wire_size m < 65536.

Lemma P8 : 256 ^ Z.of_nat 8 = 18446744073709551616. Proof. reflexivity. Qed.
Lemma P6 : 256 ^ Z.of_nat 6 = 281474976710656. Proof. reflexivity. Qed.
Lemma P4 : 256 ^ Z.of_nat 4 = 4294967296. Proof. reflexivity. Qed.
Lemma P2 : 256 ^ Z.of_nat 2 = 65536. Proof. reflexivity. Qed.
Lemma P1 : 256 ^ Z.of_nat 1 = 256. Proof. reflexivity. Qed.

Lemma dec_enc_u n v : 0 <= v < 256 ^ Z.of_nat n -> be_decode (be_encode n v) = v.
Proof. intros H. rewrite be_decode_encode. apply Z.mod_small; assumption. Qed.

Lemma dec_enc_pi p r : wf_pi p -> dec_pi (enc_pi p ++ r) = p.
Proof.
  intros [Hc Hp]. destruct p as [c q]. unfold dec_pi, enc_pi. cbn [pi_clock pi_port] in *.
  replace (slice 0 8 ((be_encode 8 c ++ be_encode 2 q) ++ r)) with (be_encode 8 c) by reflexivity.
  replace (slice 8 2 ((be_encode 8 c ++ be_encode 2 q) ++ r)) with (be_encode 2 q) by reflexivity.
  rewrite !dec_enc_u by (rewrite ?P8, ?P2; lia). reflexivity.
Qed.
Lemma dec_enc_pi0 p : wf_pi p -> dec_pi (enc_pi p) = p.
Proof. intros H. rewrite <- (app_nil_r (enc_pi p)). apply dec_enc_pi; assumption. Qed.

Lemma dec_enc_ts t r : wf_ts t -> dec_ts (enc_ts t ++ r) = t.
Proof.
  intros [Hs Hn]. destruct t as [s n]. unfold dec_ts, enc_ts. cbn [ts_secs ts_nanos] in *.
  replace (slice 0 6 ((be_encode 6 s ++ be_encode 4 n) ++ r)) with (be_encode 6 s) by reflexivity.
  replace (slice 6 4 ((be_encode 6 s ++ be_encode 4 n) ++ r)) with (be_encode 4 n) by reflexivity.
  rewrite !dec_enc_u by (rewrite ?P6, ?P4; lia). reflexivity.
Qed.

Lemma encode_header_length h t n : length (encode_header h t n) = 34%nat.
Proof. reflexivity. Qed.
Lemma encode_body_length bd : Z.of_nat (length (encode_body bd)) = body_size bd.
Proof. destruct bd; reflexivity. Qed.
Lemma encode_raw_length m : blen (encode_raw m) = wire_size m.
Proof.
  unfold blen, encode_raw, wire_size. rewrite !app_length, encode_header_length.
  rewrite !Nat2Z.inj_add, encode_body_length. unfold blen. lia.
Qed.

Definition flags0 (h : header) : Z :=
  b2z (h_alternate_master h) + 2 * b2z (h_two_step h) + 4 * b2z (h_unicast h)
  + 32 * b2z (h_profile1 h) + 64 * b2z (h_profile2 h).
Definition flags1 (h : header) : Z :=
  b2z (h_leap61 h) + 2 * b2z (h_leap59 h) + 4 * b2z (h_utc_valid h)
  + 8 * b2z (h_ptp_timescale h) + 16 * b2z (h_time_traceable h)
  + 32 * b2z (h_freq_traceable h) + 64 * b2z (h_sync_uncertain h).

(** the octets of an encoded header, by position (all by computation) *)
Section EncodedHeader.
  Variables (h : header) (t : msg_type) (n : Z) (r : bytes).
  Let E := encode_header h t n ++ r.
  Lemma E_b0 : byte_at 0 E = ((h_sdo_id h / 256) * 16) mod 256 + msg_type_code t. Proof. reflexivity. Qed.
  Lemma E_b1 : byte_at 1 E = ((h_version_minor h * 16) mod 256) + h_version_major h. Proof. reflexivity. Qed.
  Lemma E_len : slice 2 2 E = be_encode 2 (n + 34). Proof. reflexivity. Qed.
  Lemma E_b4 : byte_at 4 E = h_domain h. Proof. reflexivity. Qed.
  Lemma E_b5 : byte_at 5 E = h_sdo_id h mod 256. Proof. reflexivity. Qed.
  Lemma E_b6 : byte_at 6 E = flags0 h. Proof. reflexivity. Qed.
  Lemma E_b7 : byte_at 7 E = flags1 h. Proof. reflexivity. Qed.
  Lemma E_corr : slice 8 8 E = be_encode 8 (h_correction h). Proof. reflexivity. Qed.
  Lemma E_mts : slice 16 4 E = [0; 0; 0; 0]. Proof. reflexivity. Qed.
  Lemma E_src : slice 20 10 E = enc_pi (h_source h). Proof. reflexivity. Qed.
  Lemma E_seq : slice 30 2 E = be_encode 2 (h_seq h). Proof. reflexivity. Qed.
  Lemma E_b32 : byte_at 32 E = control_field t. Proof. reflexivity. Qed.
  Lemma E_b33 : byte_at 33 E = h_log_interval h mod 256. Proof. reflexivity. Qed.
End EncodedHeader.

Lemma msg_type_code_range t : 0 <= msg_type_code t < 16.
Proof. destruct t; cbn; lia. Qed.
Lemma msg_type_of_code t : msg_type_of_nibble (msg_type_code t) = Some t.
Proof. destruct t; reflexivity. Qed.
Lemma msg_type_code_of v t : msg_type_of_nibble v = Some t -> v = msg_type_code t.
Proof.
  unfold msg_type_of_nibble.
  repeat match goal with |- context [?a =? ?b] => destruct (Z.eqb_spec a b) end;
    intros H; try discriminate; injection H as <-; cbn; assumption.
Qed.

Lemma hdr_of_encode h t n r :
  wf_header h -> hdr_of (encode_header h t n ++ r) = h.
Proof.
  intros (Hsdo & Hmaj & Hmin & Hdom & Hcor & Hsrc & Hseq & Hlog).
  unfold hdr_of.
  rewrite E_b0, E_b1, E_b4, E_b5, E_b6, E_b7, E_corr, E_src, E_seq, E_b33.
  pose proof (msg_type_code_range t) as Hc.
  destruct h as [sdo maj mi dom f1 f2 f3 f4 f5 g1 g2 g3 g4 g5 g6 g7 corr src seq logi].
  cbn [h_sdo_id h_version_major h_version_minor h_domain h_correction h_source h_seq h_log_interval] in *.
  unfold flags0, flags1.
  cbn [h_alternate_master h_two_step h_unicast h_profile1 h_profile2 h_leap61 h_leap59 h_utc_valid
       h_ptp_timescale h_time_traceable h_freq_traceable h_sync_uncertain].
  f_equal.
  - lia.
  - lia.
  - lia.
  - destruct f1, f2, f3, f4, f5; reflexivity.
  - destruct f1, f2, f3, f4, f5; reflexivity.
  - destruct f1, f2, f3, f4, f5; reflexivity.
  - destruct f1, f2, f3, f4, f5; reflexivity.
  - destruct f1, f2, f3, f4, f5; reflexivity.
  - destruct g1, g2, g3, g4, g5, g6, g7; reflexivity.
  - destruct g1, g2, g3, g4, g5, g6, g7; reflexivity.
  - destruct g1, g2, g3, g4, g5, g6, g7; reflexivity.
  - destruct g1, g2, g3, g4, g5, g6, g7; reflexivity.
  - destruct g1, g2, g3, g4, g5, g6, g7; reflexivity.
  - destruct g1, g2, g3, g4, g5, g6, g7; reflexivity.
  - destruct g1, g2, g3, g4, g5, g6, g7; reflexivity.
  - rewrite be_decode_encode. change (256 ^ Z.of_nat 8) with (2 ^ 64).
    apply to_signed_mod; [lia|]. change (2 ^ (64 - 1)) with 9223372036854775808. lia.
  - apply dec_enc_pi0; assumption.
  - apply dec_enc_u. rewrite P2; lia.
  - change 256 with (2 ^ 8). apply to_signed_mod; [lia|]. change (2 ^ (8 - 1)) with 128. lia.
Qed.
