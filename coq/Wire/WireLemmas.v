(** Proofs about the wire codec model (C04). *)
From SV Require Import Wire.WireCases Wire.WireBytes.

(** * 1. The decoder, piece by piece *)

Definition hdr_of (b : bytes) : header :=
  let b0 := byte_at 0 b in
  let b1 := byte_at 1 b in
  let b6 := byte_at 6 b in
  let b7 := byte_at 7 b in
  mkHeader
    ((b0 / 16) * 256 + byte_at 5 b)
    (b1 mod 16) (b1 / 16)
    (byte_at 4 b)
    (bit b6 0) (bit b6 1) (bit b6 2) (bit b6 5) (bit b6 6)
    (bit b7 0) (bit b7 1) (bit b7 2) (bit b7 3) (bit b7 4) (bit b7 5) (bit b7 6)
    (to_signed 64 (be_decode (slice 8 8 b)))
    (dec_pi (slice 20 10 b))
    (be_decode (slice 30 2 b))
    (to_signed 8 (byte_at 33 b)).

(** the declared messageLength and the content buffer it delimits *)
Definition mlen (b : bytes) : Z := be_decode (slice 2 2 b).
Definition content_of (b : bytes) : bytes := slice 34 (Z.to_nat (mlen b) - 34) b.

Definition type_body_size (t : msg_type) : Z :=
  match t with
  | MTSync | MTDelayReq | MTFollowUp | MTSignaling => 10
  | MTPDelayReq | MTPDelayResp | MTDelayResp | MTPDelayRespFollowUp => 20
  | MTAnnounce => 30
  | MTManagement => 14
  end.

Definition body_of (t : msg_type) (c : bytes) : body :=
  match t with
  | MTSync => BSync (dec_ts c)
  | MTDelayReq => BDelayReq (dec_ts c)
  | MTPDelayReq => BPDelayReq (dec_ts c)
  | MTFollowUp => BFollowUp (dec_ts c)
  | MTPDelayResp => BPDelayResp (dec_ts c) (dec_pi (slice 10 10 c))
  | MTDelayResp => BDelayResp (dec_ts c) (dec_pi (slice 10 10 c))
  | MTPDelayRespFollowUp => BPDelayRespFollowUp (dec_ts c) (dec_pi (slice 10 10 c))
  | MTAnnounce =>
      BAnnounce (mkAnn (dec_ts c) (to_signed 16 (be_decode (slice 10 2 c))) (byte_at 13 c)
                       (dec_cq (slice 14 4 c)) (byte_at 18 c) (be_decode (slice 19 8 c))
                       (be_decode (slice 27 2 c)) (canon_time_source (byte_at 29 c)))
  | MTSignaling => BSignaling (dec_pi c)
  | MTManagement =>
      BManagement (dec_pi c) (byte_at 11 c) (byte_at 12 c) (canon_mgmt_action (byte_at 13 c))
  end.

Lemma decode_body_eq t c :
  decode_body t c =
  if blen c <? type_body_size t then RErr EBufferTooShort else ROk (body_of t c).
Proof. destruct t; reflexivity. Qed.

Lemma body_of_type t c : body_type (body_of t c) = t.
Proof. destruct t; reflexivity. Qed.
Lemma body_of_size t c : body_size (body_of t c) = type_body_size t.
Proof. destruct t; reflexivity. Qed.
Lemma body_size_type bd : body_size bd = type_body_size (body_type bd).
Proof. destruct bd; reflexivity. Qed.

Lemma decode_eq b :
  decode b =
  if blen b <? 34 then RErr EBufferTooShort else
  match msg_type_of_nibble (byte_at 0 b mod 16) with
  | None => RErr EEnumConversion
  | Some t =>
      if mlen b <? 34 then RErr EInvalid else
      if blen b <? mlen b then RErr EBufferTooShort else
      if blen (content_of b) <? type_body_size t then RErr EBufferTooShort else
      match decode_tlvset (skipn (Z.to_nat (type_body_size t)) (content_of b)) with
      | RErr e => RErr e
      | ROk s => ROk (mkMsg (hdr_of b) (body_of t (content_of b)) s)
      end
  end.
Proof.
  unfold decode, decode_header. fold (hdr_of b). fold (mlen b).
  destruct (blen b <? 34); [reflexivity|]. cbn [rbind].
  destruct (msg_type_of_nibble (byte_at 0 b mod 16)) as [t|]; [|reflexivity].
  cbn [rbind dh_length dh_type dh_header].
  destruct (mlen b <? 34); [reflexivity|].
  destruct (blen b <? mlen b); [reflexivity|].
  fold (content_of b). rewrite decode_body_eq.
  destruct (blen (content_of b) <? type_body_size t); [reflexivity|].
  cbn [rbind]. rewrite body_of_size.
  destruct (decode_tlvset _); reflexivity.
Qed.

(** ** the TLV scanner accepts only buffers it consumes entirely *)
Lemma tlvset_scan_total : forall fuel buf total n,
  tlvset_scan fuel buf total = ROk n -> n = (total + length buf)%nat.
Proof.
  induction fuel; intros buf total n H; cbn [tlvset_scan] in H.
  - destruct (Nat.eqb_spec (length buf) 0); [|discriminate]. injection H as <-. lia.
  - destruct (Z.leb_spec 4 (blen buf)) as [H4|H4].
    + set (len := be_decode (slice 2 2 buf)) in *.
      destruct (len mod 2 =? 1); [discriminate|].
      destruct (Z.ltb_spec (blen buf) (4 + len)) as [Hs|Hs]; [discriminate|].
      apply IHfuel in H. rewrite skipn_length in H. unfold blen in *. lia.
    + destruct (Nat.eqb_spec (length buf) 0); [|discriminate]. injection H as <-. lia.
Qed.

Lemma decode_tlvset_id buf s : decode_tlvset buf = ROk s -> s = buf.
Proof.
  unfold decode_tlvset. destruct (tlvset_scan (length buf) buf 0) as [n|] eqn:E; [|discriminate].
  cbn [rbind]. intros H; injection H as <-. apply tlvset_scan_total in E. subst n.
  apply firstn_all.
Qed.

(** ** inversion of a successful decode *)
Lemma decode_inv b m :
  decode b = ROk m ->
  exists t,
    msg_type_of_nibble (byte_at 0 b mod 16) = Some t /\
    34 <= blen b /\ 34 <= mlen b <= blen b /\
    type_body_size t <= blen (content_of b) /\
    decode_tlvset (skipn (Z.to_nat (type_body_size t)) (content_of b)) = ROk (m_suffix m) /\
    m_suffix m = skipn (Z.to_nat (type_body_size t)) (content_of b) /\
    m = mkMsg (hdr_of b) (body_of t (content_of b)) (m_suffix m).
Proof.
  rewrite decode_eq.
  destruct (Z.ltb_spec (blen b) 34); [discriminate|].
  destruct (msg_type_of_nibble (byte_at 0 b mod 16)) as [t|]; [|discriminate].
  destruct (Z.ltb_spec (mlen b) 34); [discriminate|].
  destruct (Z.ltb_spec (blen b) (mlen b)); [discriminate|].
  destruct (Z.ltb_spec (blen (content_of b)) (type_body_size t)); [discriminate|].
  destruct (decode_tlvset _) as [s|] eqn:E; [|discriminate].
  intros Hmm; injection Hmm as <-. exists t. cbn [m_suffix].
  pose proof (decode_tlvset_id _ _ E).
  repeat split; auto; try lia.
Qed.

Lemma content_length b : 34 <= mlen b <= blen b -> blen (content_of b) = mlen b - 34.
Proof.
  intros H. unfold content_of, blen in *. rewrite slice_length; lia.
Qed.

(** * 2. decode_local: nothing beyond the declared length is read *)

Lemma hdr_of_firstn K b : (34 <= K)%nat -> hdr_of (firstn K b) = hdr_of b.
Proof.
  intros H. unfold hdr_of.
  rewrite !byte_at_firstn by lia. rewrite !slice_firstn by lia. reflexivity.
Qed.

Lemma decode_firstn K b :
  (34 <= K <= length b)%nat -> mlen b <= Z.of_nat K -> decode (firstn K b) = decode b.
Proof.
  intros HK HL. rewrite !decode_eq.
  assert (Hlen : blen (firstn K b) = Z.of_nat K).
  { unfold blen. rewrite firstn_length. lia. }
  assert (Hm : mlen (firstn K b) = mlen b).
  { unfold mlen. rewrite slice_firstn by lia. reflexivity. }
  rewrite Hlen, Hm, hdr_of_firstn, byte_at_firstn by lia.
  destruct (Z.ltb_spec (Z.of_nat K) 34); [lia|].
  destruct (Z.ltb_spec (blen b) 34); [unfold blen in *; lia|].
  destruct (msg_type_of_nibble (byte_at 0 b mod 16)) as [t|]; [|reflexivity].
  destruct (Z.ltb_spec (mlen b) 34); [reflexivity|].
  destruct (Z.ltb_spec (Z.of_nat K) (mlen b)); [lia|].
  destruct (Z.ltb_spec (blen b) (mlen b)); [unfold blen in *; lia|].
  assert (Hc : content_of (firstn K b) = content_of b).
  { unfold content_of. rewrite Hm. apply slice_firstn. lia. }
  rewrite Hc. reflexivity.
Qed.

(** [decode] is a function of the first max(34, messageLength) octets. *)
Theorem decode_local b b' :
  34 <= blen b -> mlen b <= blen b ->
  let K := Z.to_nat (Z.max 34 (mlen b)) in
  firstn K b = firstn K b' ->
  decode b = decode b'.
Proof.
  intros H34 HL K HK.
  assert (HKb : (34 <= K <= length b)%nat) by (unfold K, blen in *; lia).
  assert (HKb' : (K <= length b')%nat).
  { assert (E : length (firstn K b) = length (firstn K b')) by (rewrite HK; reflexivity).
    rewrite !firstn_length in E. lia. }
  assert (Hm : mlen b' = mlen b).
  { unfold mlen. rewrite <- (slice_firstn 2 2 K b'), <- HK, slice_firstn by lia. reflexivity. }
  rewrite <- (decode_firstn K b) by (unfold K; lia).
  rewrite <- (decode_firstn K b') by (rewrite ?Hm; unfold K; lia).
  rewrite HK. reflexivity.
Qed.

(** * 3. Well-formed messages and [decode (encode_raw m) = ROk m] *)

Definition wf_pi (p : port_identity) : Prop :=
  0 <= pi_clock p < 18446744073709551616 /\ 0 <= pi_port p < 65536.
Definition wf_ts (t : wire_ts) : Prop :=
  0 <= ts_secs t < 281474976710656 /\ 0 <= ts_nanos t < 4294967296.
Definition wf_header (h : header) : Prop :=
  0 <= h_sdo_id h < 4096 /\ 0 <= h_version_major h < 16 /\ 0 <= h_version_minor h < 16 /\
  0 <= h_domain h < 256 /\
  - 9223372036854775808 <= h_correction h < 9223372036854775808 /\
  wf_pi (h_source h) /\ 0 <= h_seq h < 65536 /\ -128 <= h_log_interval h < 128.
Definition wf_cq (q : clock_quality) : Prop :=
  0 <= cq_class q < 256 /\ 0 <= cq_accuracy q < 256 /\
  canon_accuracy (cq_accuracy q) = cq_accuracy q /\ 0 <= cq_variance q < 65536.
Definition wf_ann (a : announce_body) : Prop :=
  wf_ts (an_origin a) /\ -32768 <= an_utc_offset a < 32768 /\ 0 <= an_prio1 a < 256 /\
  wf_cq (an_quality a) /\ 0 <= an_prio2 a < 256 /\
  0 <= an_gm_identity a < 18446744073709551616 /\
  0 <= an_steps_removed a < 65536 /\ 0 <= an_time_source a < 256.
Definition wf_body (b : body) : Prop :=
  match b with
  | BSync t | BDelayReq t | BPDelayReq t | BFollowUp t => wf_ts t
  | BPDelayResp t p | BDelayResp t p | BPDelayRespFollowUp t p => wf_ts t /\ wf_pi p
  | BAnnounce a => wf_ann a
  | BSignaling p => wf_pi p
  | BManagement p s h a => wf_pi p /\ 0 <= s < 256 /\ 0 <= h < 256 /\ 0 <= a <= 5
  end.
(** a valid TLV suffix: octets that the implementation's own TLV scanner accepts *)
Definition wf_suffix (s : bytes) : Prop := bok s /\ decode_tlvset s = ROk s.
Definition wf_msg (m : message) : Prop :=
  wf_header (m_header m) /\ wf_body (m_body m) /\ wf_suffix (m_suffix m) /\ wire_size m < 65536.

Lemma P8 : 256 ^ Z.of_nat 8 = 18446744073709551616. Proof. reflexivity. Qed.
Lemma P6 : 256 ^ Z.of_nat 6 = 281474976710656. Proof. reflexivity. Qed.
Lemma P4 : 256 ^ Z.of_nat 4 = 4294967296. Proof. reflexivity. Qed.
Lemma P2 : 256 ^ Z.of_nat 2 = 65536. Proof. reflexivity. Qed.
Lemma P1 : 256 ^ Z.of_nat 1 = 256. Proof. reflexivity. Qed.

Lemma dec_enc_u n v : 0 <= v < 256 ^ Z.of_nat n -> be_decode (be_encode n v) = v.
Proof. intros H. rewrite be_decode_encode. apply Z.mod_small; assumption. Qed.

Lemma dec_enc_pi p r : wf_pi p -> dec_pi (enc_pi p ++ r) = p.
Proof.
  intros [Hc Hp]. destruct p as [c q]. unfold dec_pi, enc_pi. cbn [pi_clock pi_port] in *.
  replace (slice 0 8 ((be_encode 8 c ++ be_encode 2 q) ++ r)) with (be_encode 8 c) by reflexivity.
  replace (slice 8 2 ((be_encode 8 c ++ be_encode 2 q) ++ r)) with (be_encode 2 q) by reflexivity.
  rewrite !dec_enc_u by (rewrite ?P8, ?P2; lia). reflexivity.
Qed.
Lemma dec_enc_pi0 p : wf_pi p -> dec_pi (enc_pi p) = p.
Proof. intros H. rewrite <- (app_nil_r (enc_pi p)). apply dec_enc_pi; assumption. Qed.

Lemma dec_enc_ts t r : wf_ts t -> dec_ts (enc_ts t ++ r) = t.
Proof.
  intros [Hs Hn]. destruct t as [s n]. unfold dec_ts, enc_ts. cbn [ts_secs ts_nanos] in *.
  replace (slice 0 6 ((be_encode 6 s ++ be_encode 4 n) ++ r)) with (be_encode 6 s) by reflexivity.
  replace (slice 6 4 ((be_encode 6 s ++ be_encode 4 n) ++ r)) with (be_encode 4 n) by reflexivity.
  rewrite !dec_enc_u by (rewrite ?P6, ?P4; lia). reflexivity.
Qed.

Lemma encode_header_length h t n : length (encode_header h t n) = 34%nat.
Proof. reflexivity. Qed.
Lemma encode_body_length bd : Z.of_nat (length (encode_body bd)) = body_size bd.
Proof. destruct bd; reflexivity. Qed.
Lemma encode_raw_length m : blen (encode_raw m) = wire_size m.
Proof.
  unfold blen, encode_raw, wire_size. rewrite !app_length, encode_header_length.
  rewrite !Nat2Z.inj_add, encode_body_length. unfold blen. lia.
Qed.

Definition flags0 (h : header) : Z :=
  b2z (h_alternate_master h) + 2 * b2z (h_two_step h) + 4 * b2z (h_unicast h)
  + 32 * b2z (h_profile1 h) + 64 * b2z (h_profile2 h).
Definition flags1 (h : header) : Z :=
  b2z (h_leap61 h) + 2 * b2z (h_leap59 h) + 4 * b2z (h_utc_valid h)
  + 8 * b2z (h_ptp_timescale h) + 16 * b2z (h_time_traceable h)
  + 32 * b2z (h_freq_traceable h) + 64 * b2z (h_sync_uncertain h).

(** the octets of an encoded header, by position (all by computation) *)
Section EncodedHeader.
  Variables (h : header) (t : msg_type) (n : Z) (r : bytes).
  Let E := encode_header h t n ++ r.
  Lemma E_b0 : byte_at 0 E = ((h_sdo_id h / 256) * 16) mod 256 + msg_type_code t. Proof. reflexivity. Qed.
  Lemma E_b1 : byte_at 1 E = ((h_version_minor h * 16) mod 256) + h_version_major h. Proof. reflexivity. Qed.
  Lemma E_len : slice 2 2 E = be_encode 2 (n + 34). Proof. reflexivity. Qed.
  Lemma E_b4 : byte_at 4 E = h_domain h. Proof. reflexivity. Qed.
  Lemma E_b5 : byte_at 5 E = h_sdo_id h mod 256. Proof. reflexivity. Qed.
  Lemma E_b6 : byte_at 6 E = flags0 h. Proof. reflexivity. Qed.
  Lemma E_b7 : byte_at 7 E = flags1 h. Proof. reflexivity. Qed.
  Lemma E_corr : slice 8 8 E = be_encode 8 (h_correction h). Proof. reflexivity. Qed.
  Lemma E_mts : slice 16 4 E = [0; 0; 0; 0]. Proof. reflexivity. Qed.
  Lemma E_src : slice 20 10 E = enc_pi (h_source h). Proof. reflexivity. Qed.
  Lemma E_seq : slice 30 2 E = be_encode 2 (h_seq h). Proof. reflexivity. Qed.
  Lemma E_b32 : byte_at 32 E = control_field t. Proof. reflexivity. Qed.
  Lemma E_b33 : byte_at 33 E = h_log_interval h mod 256. Proof. reflexivity. Qed.
End EncodedHeader.

Lemma msg_type_code_range t : 0 <= msg_type_code t < 16.
Proof. destruct t; cbn; lia. Qed.
Lemma msg_type_of_code t : msg_type_of_nibble (msg_type_code t) = Some t.
Proof. destruct t; reflexivity. Qed.
Lemma msg_type_code_of v t : msg_type_of_nibble v = Some t -> v = msg_type_code t.
Proof.
  unfold msg_type_of_nibble.
  repeat match goal with |- context [?a =? ?b] => destruct (Z.eqb_spec a b) end;
    intros H; try discriminate; injection H as <-; cbn; assumption.
Qed.

Lemma mkHeader_ext a1 a2 a3 a4 a5 a6 a7 a8 a9 a10 a11 a12 a13 a14 a15 a16 a17 a18 a19 a20
                   b1 b2 b3 b4 b5 b6 b7 b8 b9 b10 b11 b12 b13 b14 b15 b16 b17 b18 b19 b20 :
  a1 = b1 -> a2 = b2 -> a3 = b3 -> a4 = b4 -> a5 = b5 -> a6 = b6 -> a7 = b7 -> a8 = b8 ->
  a9 = b9 -> a10 = b10 -> a11 = b11 -> a12 = b12 -> a13 = b13 -> a14 = b14 -> a15 = b15 ->
  a16 = b16 -> a17 = b17 -> a18 = b18 -> a19 = b19 -> a20 = b20 ->
  mkHeader a1 a2 a3 a4 a5 a6 a7 a8 a9 a10 a11 a12 a13 a14 a15 a16 a17 a18 a19 a20 =
  mkHeader b1 b2 b3 b4 b5 b6 b7 b8 b9 b10 b11 b12 b13 b14 b15 b16 b17 b18 b19 b20.
Proof. intros; subst; reflexivity. Qed.

Lemma hdr_of_encode h t n r :
  wf_header h -> hdr_of (encode_header h t n ++ r) = h.
Proof.
  intros (Hsdo & Hmaj & Hmin & Hdom & Hcor & Hsrc & Hseq & Hlog).
  unfold hdr_of.
  rewrite E_b0, E_b1, E_b4, E_b5, E_b6, E_b7, E_corr, E_src, E_seq, E_b33.
  pose proof (msg_type_code_range t) as Hc.
  destruct h as [sdo maj mi dom f1 f2 f3 f4 f5 g1 g2 g3 g4 g5 g6 g7 corr src seq logi].
  cbn [h_sdo_id h_version_major h_version_minor h_domain h_correction h_source h_seq h_log_interval] in *.
  unfold flags0, flags1.
  cbn [h_alternate_master h_two_step h_unicast h_profile1 h_profile2 h_leap61 h_leap59 h_utc_valid
       h_ptp_timescale h_time_traceable h_freq_traceable h_sync_uncertain].
  apply mkHeader_ext.
  - lia.
  - lia.
  - lia.
  - reflexivity.
  - destruct f1, f2, f3, f4, f5; reflexivity.
  - destruct f1, f2, f3, f4, f5; reflexivity.
  - destruct f1, f2, f3, f4, f5; reflexivity.
  - destruct f1, f2, f3, f4, f5; reflexivity.
  - destruct f1, f2, f3, f4, f5; reflexivity.
  - destruct g1, g2, g3, g4, g5, g6, g7; reflexivity.
  - destruct g1, g2, g3, g4, g5, g6, g7; reflexivity.
  - destruct g1, g2, g3, g4, g5, g6, g7; reflexivity.
  - destruct g1, g2, g3, g4, g5, g6, g7; reflexivity.
  - destruct g1, g2, g3, g4, g5, g6, g7; reflexivity.
  - destruct g1, g2, g3, g4, g5, g6, g7; reflexivity.
  - destruct g1, g2, g3, g4, g5, g6, g7; reflexivity.
  - rewrite be_decode_encode. change (256 ^ Z.of_nat 8) with (2 ^ 64).
    apply to_signed_mod; [lia|]. change (2 ^ (64 - 1)) with 9223372036854775808. lia.
  - apply dec_enc_pi0; assumption.
  - apply dec_enc_u. rewrite P2; lia.
  - change 256 with (2 ^ 8). apply to_signed_mod; [lia|]. change (2 ^ (8 - 1)) with 128. lia.
Qed.

Lemma to_signed16 v : -32768 <= v < 32768 -> to_signed 16 (be_decode (be_encode 2 v)) = v.
Proof.
  intros H. rewrite be_decode_encode. change (256 ^ Z.of_nat 2) with (2 ^ 16).
  apply to_signed_mod; [lia|]. change (2 ^ (16 - 1)) with 32768. lia.
Qed.

Lemma canon_mgmt_action_id a : 0 <= a <= 5 -> canon_mgmt_action a = a.
Proof. intros H. unfold canon_mgmt_action. destruct (Z.leb_spec a 4); lia. Qed.

Lemma slice_exact (p x : bytes) n : n = length x -> slice (length p) n (p ++ x) = x.
Proof. intros ->. unfold slice. rewrite skipn_app_exact. apply firstn_all. Qed.

Lemma body_of_encode bd s :
  wf_body bd -> body_of (body_type bd) (encode_body bd ++ s) = bd.
Proof.
  intros H. destruct bd as [t|t|t|t p|t|t p|t p|a|p|p sh bh ac]; cbn [wf_body] in H;
    cbn [body_type body_of encode_body].
  - rewrite dec_enc_ts; auto.
  - rewrite dec_enc_ts; auto.
  - rewrite <- app_assoc, dec_enc_ts; auto.
  - destruct H as [Ht Hp].
    replace (slice 10 10 ((enc_ts t ++ enc_pi p) ++ s)) with (enc_pi p) by reflexivity.
    rewrite <- app_assoc, dec_enc_ts, dec_enc_pi0; auto.
  - rewrite dec_enc_ts; auto.
  - destruct H as [Ht Hp].
    replace (slice 10 10 ((enc_ts t ++ enc_pi p) ++ s)) with (enc_pi p) by reflexivity.
    rewrite <- app_assoc, dec_enc_ts, dec_enc_pi0; auto.
  - destruct H as [Ht Hp].
    replace (slice 10 10 ((enc_ts t ++ enc_pi p) ++ s)) with (enc_pi p) by reflexivity.
    rewrite <- app_assoc, dec_enc_ts, dec_enc_pi0; auto.
  - destruct H as (Ho & Hu & Hp1 & (Hc & Ha & Hca & Hv) & Hp2 & Hg & Hs & Hts).
    destruct a as [o u p1 [cl acc var] p2 g sr tsrc].
    cbn [an_origin an_utc_offset an_prio1 an_quality an_prio2 an_gm_identity an_steps_removed
         an_time_source cq_class cq_accuracy cq_variance] in *.
    set (E := (enc_ts o ++ be_encode 2 u ++ [0; p1] ++ enc_cq (mkCQ cl acc var) ++ [p2]
               ++ be_encode 8 g ++ be_encode 2 sr ++ [tsrc]) ++ s).
    replace (slice 10 2 E) with (be_encode 2 u) by reflexivity.
    replace (byte_at 13 E) with p1 by reflexivity.
    replace (slice 14 4 E) with (enc_cq (mkCQ cl acc var)) by reflexivity.
    replace (byte_at 18 E) with p2 by reflexivity.
    replace (slice 19 8 E) with (be_encode 8 g) by reflexivity.
    replace (slice 27 2 E) with (be_encode 2 sr) by reflexivity.
    replace (byte_at 29 E) with tsrc by reflexivity.
    subst E. rewrite <- app_assoc, dec_enc_ts by assumption.
    rewrite to_signed16 by assumption.
    rewrite !dec_enc_u by (rewrite ?P8, ?P2; lia).
    unfold dec_cq, enc_cq. cbn [cq_class cq_accuracy cq_variance].
    replace (byte_at 0 ([cl; acc] ++ be_encode 2 var)) with cl by reflexivity.
    replace (byte_at 1 ([cl; acc] ++ be_encode 2 var)) with acc by reflexivity.
    replace (slice 2 2 ([cl; acc] ++ be_encode 2 var)) with (be_encode 2 var) by reflexivity.
    rewrite Hca, dec_enc_u by (rewrite ?P2; lia). reflexivity.
  - rewrite dec_enc_pi; auto.
  - destruct H as (Hp & Hs & Hh & Ha).
    set (E := (enc_pi p ++ [0; sh; bh; ac]) ++ s).
    replace (byte_at 11 E) with sh by reflexivity.
    replace (byte_at 12 E) with bh by reflexivity.
    replace (byte_at 13 E) with ac by reflexivity.
    subst E. rewrite <- app_assoc, dec_enc_pi, canon_mgmt_action_id by assumption. reflexivity.
Qed.

(** [encode_decode]: every well-formed message survives encode, decode. *)
Theorem encode_decode m : wf_msg m -> decode (encode_raw m) = ROk m.
Proof.
  intros (Hh & Hb & (Hsok & Hs) & Hsz).
  rewrite decode_eq.
  pose proof (encode_raw_length m) as HL.
  assert (Hbs : 0 <= body_size (m_body m)) by (destruct (m_body m); cbn; lia).
  assert (Hws : 34 <= wire_size m) by (unfold wire_size, blen; lia).
  rewrite HL.
  destruct (Z.ltb_spec (wire_size m) 34); [lia|].
  unfold encode_raw at 1. rewrite E_b0.
  pose proof (msg_type_code_range (body_type (m_body m))) as Hc.
  replace ((h_sdo_id (m_header m) / 256 * 16 mod 256 + msg_type_code (body_type (m_body m))) mod 16)
    with (msg_type_code (body_type (m_body m))) by lia.
  rewrite msg_type_of_code.
  assert (Hm : mlen (encode_raw m) = wire_size m).
  { unfold mlen, encode_raw. rewrite E_len, be_decode_encode, P2.
    unfold wire_size in *. rewrite Z.mod_small; lia. }
  rewrite Hm.
  destruct (Z.ltb_spec (wire_size m) 34); [lia|].
  destruct (Z.ltb_spec (wire_size m) (wire_size m)); [lia|].
  assert (Hcont : content_of (encode_raw m) = encode_body (m_body m) ++ m_suffix m).
  { unfold content_of. rewrite Hm. unfold encode_raw.
    apply (slice_exact (encode_header _ _ _)).
    rewrite app_length. pose proof (encode_body_length (m_body m)).
    unfold wire_size, blen in *. lia. }
  rewrite Hcont.
  assert (Hbl : blen (encode_body (m_body m) ++ m_suffix m) = body_size (m_body m) + blen (m_suffix m)).
  { unfold blen. rewrite app_length, Nat2Z.inj_add, encode_body_length. reflexivity. }
  rewrite Hbl, <- body_size_type.
  destruct (Z.ltb_spec (body_size (m_body m) + blen (m_suffix m)) (body_size (m_body m)));
    [unfold blen in *; lia|].
  rewrite <- encode_body_length, Nat2Z.id, skipn_app_exact, Hs.
  unfold encode_raw. rewrite hdr_of_encode, body_of_encode by assumption.
  destruct m; reflexivity.
Qed.

(** * 4. A decoded message is well-formed and as long as declared *)

Lemma be_decode_bound_le bs n :
  bok bs -> (length bs <= n)%nat -> 0 <= be_decode bs < 256 ^ Z.of_nat n.
Proof.
  intros Hb Hl. pose proof (be_decode_bound bs Hb).
  assert (256 ^ Z.of_nat (length bs) <= 256 ^ Z.of_nat n) by (apply Z.pow_le_mono_r; lia).
  lia.
Qed.

Lemma slice_bound off n b : bok b -> 0 <= be_decode (slice off n b) < 256 ^ Z.of_nat n.
Proof. intros H. apply be_decode_bound_le; [apply bok_slice; assumption | apply slice_length_le]. Qed.

Lemma dec_pi_wf c : bok c -> wf_pi (dec_pi c).
Proof.
  intros H. unfold wf_pi, dec_pi; cbn [pi_clock pi_port].
  pose proof (slice_bound 0 8 c H). pose proof (slice_bound 8 2 c H).
  rewrite P8, P2 in *. lia.
Qed.
Lemma dec_ts_wf c : bok c -> wf_ts (dec_ts c).
Proof.
  intros H. unfold wf_ts, dec_ts; cbn [ts_secs ts_nanos].
  pose proof (slice_bound 0 6 c H). pose proof (slice_bound 6 4 c H).
  rewrite P6, P4 in *. lia.
Qed.

Lemma canon_accuracy_range v : 0 <= v < 256 -> 0 <= canon_accuracy v < 256.
Proof. intros H. unfold canon_accuracy. destruct (_ || _); lia. Qed.
Lemma canon_accuracy_idem v : canon_accuracy (canon_accuracy v) = canon_accuracy v.
Proof.
  unfold canon_accuracy.
  destruct (((23 <=? v) && (v <=? 49)) || ((128 <=? v) && (v <=? 254))) eqn:E.
  - rewrite E. reflexivity.
  - reflexivity.
Qed.
Lemma canon_mgmt_action_range v : 0 <= v -> 0 <= canon_mgmt_action v <= 5.
Proof. intros H. unfold canon_mgmt_action. destruct (Z.leb_spec v 4); lia. Qed.

Lemma hdr_of_wf b : bok b -> wf_header (hdr_of b).
Proof.
  intros H. unfold wf_header, hdr_of.
  cbn [h_sdo_id h_version_major h_version_minor h_domain h_correction h_source h_seq h_log_interval].
  pose proof (bok_byte_at 0 b H). pose proof (bok_byte_at 1 b H).
  pose proof (bok_byte_at 4 b H). pose proof (bok_byte_at 5 b H).
  pose proof (bok_byte_at 33 b H).
  pose proof (slice_bound 8 8 b H) as Hc. pose proof (slice_bound 30 2 b H) as Hs.
  rewrite P2 in Hs. change (256 ^ Z.of_nat 8) with (2 ^ 64) in Hc.
  pose proof (to_signed_range 64 _ ltac:(lia) Hc) as Hc'.
  change (2 ^ (64 - 1)) with 9223372036854775808 in Hc'.
  pose proof (to_signed_range 8 (byte_at 33 b) ltac:(lia) ltac:(change (2 ^ 8) with 256; lia)) as Hl.
  change (2 ^ (8 - 1)) with 128 in Hl.
  pose proof (dec_pi_wf _ (bok_slice 20 10 b H)) as Hpi. unfold wf_pi in *.
  repeat split; lia.
Qed.

Lemma body_of_wf t c : bok c -> wf_body (body_of t c).
Proof.
  intros H.
  pose proof (dec_ts_wf c H) as Hts.
  pose proof (dec_pi_wf c H) as Hpi0.
  pose proof (dec_pi_wf _ (bok_slice 10 10 c H)) as Hpi.
  destruct t; cbn [body_of wf_body]; auto.
  - (* Announce *)
    unfold wf_ann. cbn [an_origin an_utc_offset an_prio1 an_quality an_prio2 an_gm_identity
                        an_steps_removed an_time_source].
    pose proof (slice_bound 10 2 c H) as Hu. change (256 ^ Z.of_nat 2) with (2 ^ 16) in Hu.
    pose proof (to_signed_range 16 _ ltac:(lia) Hu) as Hu'. change (2 ^ (16 - 1)) with 32768 in Hu'.
    pose proof (bok_byte_at 13 c H). pose proof (bok_byte_at 18 c H). pose proof (bok_byte_at 29 c H).
    pose proof (slice_bound 19 8 c H) as Hg. rewrite P8 in Hg.
    pose proof (slice_bound 27 2 c H) as Hs. rewrite P2 in Hs.
    assert (Hq : bok (slice 14 4 c)) by (apply bok_slice, H).
    pose proof (bok_byte_at 0 _ Hq). pose proof (bok_byte_at 1 _ Hq).
    pose proof (slice_bound 2 2 _ Hq) as Hv. rewrite P2 in Hv.
    pose proof (canon_accuracy_range (byte_at 1 (slice 14 4 c)) ltac:(lia)).
    pose proof (canon_accuracy_idem (byte_at 1 (slice 14 4 c))).
    unfold canon_time_source, wf_cq, dec_cq; cbn [cq_class cq_accuracy cq_variance].
    split; [exact Hts|]. repeat split; try lia; assumption.
  - (* Management *)
    pose proof (bok_byte_at 11 c H). pose proof (bok_byte_at 12 c H). pose proof (bok_byte_at 13 c H).
    pose proof (canon_mgmt_action_range (byte_at 13 c) ltac:(lia)).
    split; [exact Hpi0|]. repeat split; lia.
Qed.

Lemma mlen_bound b : bok b -> 0 <= mlen b < 65536.
Proof. intros H. unfold mlen. pose proof (slice_bound 2 2 b H) as B. rewrite P2 in B. exact B. Qed.

Theorem decode_wf b m : bok b -> decode b = ROk m -> wf_msg m /\ wire_size m = mlen b.
Proof.
  intros Hb Hd. destruct (decode_inv _ _ Hd) as (t & Ht & H34 & HL & Hbs & Hts & Hs & Hm).
  pose proof (content_length b HL) as Hcl.
  assert (Hc : bok (content_of b)) by (apply bok_slice, Hb).
  assert (Hsz : wire_size m = mlen b).
  { rewrite Hm. unfold wire_size; cbn [m_body m_suffix]. rewrite body_of_size, Hs.
    unfold blen in *. rewrite skipn_length.
    assert (0 <= type_body_size t) by (destruct t; cbn; lia). lia. }
  split; [|exact Hsz].
  unfold wf_msg. rewrite Hsz. pose proof (mlen_bound b Hb).
  rewrite Hm; cbn [m_header m_body m_suffix].
  split; [apply hdr_of_wf, Hb|]. split; [apply body_of_wf, Hc|]. split; [|lia].
  split.
  - rewrite Hs. apply bok_skipn, Hc.
  - rewrite Hs at 1. rewrite Hts. reflexivity.
Qed.

(** * 5. decode_spec: every field of a decoded message is the value the
       independent Clause-13 reader finds at the prescribed position *)

Definition body_ts (bd : body) : wire_ts :=
  match bd with
  | BSync t | BDelayReq t | BPDelayReq t | BFollowUp t => t
  | BPDelayResp t _ | BDelayResp t _ | BPDelayRespFollowUp t _ => t
  | BAnnounce a => an_origin a
  | _ => ts_zero
  end.
Definition body_pi (bd : body) : port_identity :=
  match bd with
  | BPDelayResp _ p | BDelayResp _ p | BPDelayRespFollowUp _ p => p
  | BSignaling p => p
  | BManagement p _ _ _ => p
  | _ => pi_default
  end.
Definition body_ann (bd : body) : announce_body :=
  match bd with
  | BAnnounce a => a
  | _ => mkAnn ts_zero 0 0 (mkCQ 0 0 0) 0 0 0 0
  end.

(** The value a message carries in each field of the layout table.  Reserved
    fields carry 0, controlField is determined by the type, messageLength is
    the size of the encoding. *)
Definition field_of (m : message) (f : field) : Z :=
  let h := m_header m in
  let bd := m_body m in
  match f with
  | FmajorSdoId => h_sdo_id h / 256
  | FmessageType => msg_type_code (body_type bd)
  | FminorVersionPTP => h_version_minor h
  | FversionPTP => h_version_major h
  | FmessageLength => wire_size m
  | FdomainNumber => h_domain h
  | FminorSdoId => h_sdo_id h mod 256
  | FflagField => flags0 h * 256 + flags1 h
  | FalternateMaster => b2z (h_alternate_master h)
  | FtwoStep => b2z (h_two_step h)
  | Funicast => b2z (h_unicast h)
  | FprofileSpecific1 => b2z (h_profile1 h)
  | FprofileSpecific2 => b2z (h_profile2 h)
  | Fleap61 => b2z (h_leap61 h)
  | Fleap59 => b2z (h_leap59 h)
  | FcurrentUtcOffsetValid => b2z (h_utc_valid h)
  | FptpTimescale => b2z (h_ptp_timescale h)
  | FtimeTraceable => b2z (h_time_traceable h)
  | FfrequencyTraceable => b2z (h_freq_traceable h)
  | FsynchronizationUncertain => b2z (h_sync_uncertain h)
  | FcorrectionField => h_correction h
  | FmessageTypeSpecific => 0
  | FsourceClockIdentity => pi_clock (h_source h)
  | FsourcePortNumber => pi_port (h_source h)
  | FsequenceId => h_seq h
  | FcontrolField => control_field (body_type bd)
  | FlogMessageInterval => h_log_interval h
  | FtsSeconds => ts_secs (body_ts bd)
  | FtsNanoseconds => ts_nanos (body_ts bd)
  | FpiClockIdentity => pi_clock (body_pi bd)
  | FpiPortNumber => pi_port (body_pi bd)
  | FpdelayReqReserved => 0
  | FcurrentUtcOffset => an_utc_offset (body_ann bd)
  | FannounceReserved => 0
  | FgrandmasterPriority1 => an_prio1 (body_ann bd)
  | FgmClockClass => cq_class (an_quality (body_ann bd))
  | FgmClockAccuracy => cq_accuracy (an_quality (body_ann bd))
  | FgmOffsetScaledLogVariance => cq_variance (an_quality (body_ann bd))
  | FgrandmasterPriority2 => an_prio2 (body_ann bd)
  | FgrandmasterIdentity => an_gm_identity (body_ann bd)
  | FstepsRemoved => an_steps_removed (body_ann bd)
  | FtimeSource => an_time_source (body_ann bd)
  | FmgmtOctet44 => 0
  | FstartingBoundaryHops => match bd with BManagement _ s _ _ => s | _ => 0 end
  | FboundaryHops => match bd with BManagement _ _ h _ => h | _ => 0 end
  | FactionField => match bd with BManagement _ _ _ a => a | _ => 0 end
  end.

(** readers on explicit layout records (the form [vm_compute] produces) *)
Lemma read_U off n bits b :
  bits = 8 * Z.of_nat n -> bok b -> (off + n <= length b)%nat ->
  read (mkL off n 0 bits false) b = be_decode (slice off n b).
Proof. intros ->. apply read_LU. Qed.
Lemma read_S off n bits b :
  bits = 8 * Z.of_nat n -> (0 < n)%nat -> bok b -> (off + n <= length b)%nat ->
  read (mkL off n 0 bits true) b = to_signed bits (be_decode (slice off n b)).
Proof. intros -> Hn Hb H. apply read_LS; assumption. Qed.
Lemma read_B off s k b : read (mkL off 1 s k false) b = (byte_at off b / 2 ^ s) mod 2 ^ k.
Proof. apply read_LB. Qed.

Lemma slice_two off b : (off + 2 <= length b)%nat -> slice off 2 b = [byte_at off b; byte_at (S off) b].
Proof. intros H. rewrite slice_cons_nth by lia. rewrite slice_one by lia. reflexivity. Qed.
Lemma be_decode_two x y : be_decode [x; y] = x * 256 + y.
Proof. unfold be_decode; cbn [be_decode_acc]; lia. Qed.

(** enumeration of the 256 octet values *)
Definition zrange (n : nat) : list Z := map Z.of_nat (seq 0 n).
Lemma zrange_all n p : forallb p (zrange n) = true -> forall x, 0 <= x < Z.of_nat n -> p x = true.
Proof.
  intros H x Hx. rewrite forallb_forall in H. apply H. unfold zrange.
  apply in_map_iff. exists (Z.to_nat x). split; [lia|]. apply in_seq. lia.
Qed.

Lemma flag_word x y :
  0 <= x < 256 -> 0 <= y < 256 ->
  (b2z (bit x 0) + 2 * b2z (bit x 1) + 4 * b2z (bit x 2) + 32 * b2z (bit x 5) + 64 * b2z (bit x 6)) * 256
  + (b2z (bit y 0) + 2 * b2z (bit y 1) + 4 * b2z (bit y 2) + 8 * b2z (bit y 3) + 16 * b2z (bit y 4)
     + 32 * b2z (bit y 5) + 64 * b2z (bit y 6))
  = Z.land (x * 256 + y) flag_mask.
Proof.
  intros Hx Hy.
  pose (p := fun x => forallb (fun y =>
    (b2z (bit x 0) + 2 * b2z (bit x 1) + 4 * b2z (bit x 2) + 32 * b2z (bit x 5) + 64 * b2z (bit x 6)) * 256
    + (b2z (bit y 0) + 2 * b2z (bit y 1) + 4 * b2z (bit y 2) + 8 * b2z (bit y 3) + 16 * b2z (bit y 4)
       + 32 * b2z (bit y 5) + 64 * b2z (bit y 6))
    =? Z.land (x * 256 + y) flag_mask) (zrange 256)).
  assert (H : forallb p (zrange 256) = true) by (vm_compute; reflexivity).
  pose proof (zrange_all 256 p H x Hx) as Hp. unfold p in Hp.
  pose proof (zrange_all 256 _ Hp y Hy) as Hq. cbv beta in Hq. lia.
Qed.

Lemma bit_spec v k : 0 <= k -> b2z (bit v k) = (v / 2 ^ k) mod 2 ^ 1.
Proof. intros Hk. exact (Z.testbit_spec' v k Hk). Qed.

Lemma control_spec t : control_field t = spec_control (msg_type_code t).
Proof. destruct t; reflexivity. Qed.

Ltac pick_layout :=
  unfold spec_get;
  match goal with
  | |- context [layout_of ?mt ?f] =>
      let l := fresh "l" in
      set (l := layout_of mt f); vm_compute in l; subst l; cbv beta iota
  end.

Ltac rd :=
  first
    [ rewrite read_U; [ | reflexivity | assumption | cbn [length]; lia ]
    | rewrite read_S; [ | reflexivity | lia | assumption | cbn [length]; lia ]
    | rewrite read_B ].

Section DecodeSpecHeader.
  Variables (b : bytes) (t : msg_type) (bd : body) (s : bytes).
  Hypothesis Hb : bok b.
  Hypothesis H34 : (34 <= length b)%nat.
  Hypothesis Ht : msg_type_of_nibble (byte_at 0 b mod 16) = Some t.
  Hypothesis Hbt : body_type bd = t.
  Let m := mkMsg (hdr_of b) bd s.
  Hypothesis Hsz : wire_size m = mlen b.

  Lemma spec_type_code : spec_msg_type b = msg_type_code t.
  Proof. unfold spec_msg_type, oct. apply msg_type_code_of. exact Ht. Qed.

  Lemma decode_spec_header f :
    In f header_fields ->
    field_of m f = spec_canon (spec_msg_type b) f (spec_get f b).
  Proof.
    intros Hin. rewrite spec_type_code.
    pose proof (bok_byte_at 0 b Hb) as B0. pose proof (bok_byte_at 1 b Hb) as B1.
    pose proof (bok_byte_at 5 b Hb) as B5. pose proof (bok_byte_at 6 b Hb) as B6.
    pose proof (bok_byte_at 7 b Hb) as B7.
    pose proof (msg_type_code_of _ _ Ht) as Hc.
    pose proof (msg_type_code_range t) as Hr.
    unfold header_fields in Hin. cbn [In] in Hin.
    repeat (destruct Hin as [<-|Hin]); [..|contradiction];
      cbn [field_of spec_canon m m_header m_body m_suffix hdr_of
           h_sdo_id h_version_major h_version_minor h_domain h_alternate_master h_two_step
           h_unicast h_profile1 h_profile2 h_leap61 h_leap59 h_utc_valid h_ptp_timescale
           h_time_traceable h_freq_traceable h_sync_uncertain h_correction h_source h_seq
           h_log_interval];
      try (pick_layout; rd).
    - (* majorSdoId *) change (2 ^ 4) with 16. lia.
    - (* messageType *) rewrite Hbt. change (2 ^ 0) with 1. change (2 ^ 4) with 16. lia.
    - change (2 ^ 4) with 16. lia.
    - change (2 ^ 0) with 1. change (2 ^ 4) with 16. lia.
    - exact Hsz.
    - rewrite slice_one by lia. rewrite be_decode_one. reflexivity.
    - rewrite slice_one by lia. rewrite be_decode_one. lia.
    - rewrite slice_two by lia. rewrite be_decode_two. unfold flags0, flags1.
      cbn [h_alternate_master h_two_step h_unicast h_profile1 h_profile2 h_leap61 h_leap59
           h_utc_valid h_ptp_timescale h_time_traceable h_freq_traceable h_sync_uncertain].
      apply flag_word; assumption.
    - apply bit_spec; lia.
    - apply bit_spec; lia.
    - apply bit_spec; lia.
    - apply bit_spec; lia.
    - apply bit_spec; lia.
    - apply bit_spec; lia.
    - apply bit_spec; lia.
    - apply bit_spec; lia.
    - apply bit_spec; lia.
    - apply bit_spec; lia.
    - apply bit_spec; lia.
    - apply bit_spec; lia.
    - reflexivity.
    - reflexivity.
    - unfold dec_pi; cbn [pi_clock]. rewrite slice_slice by lia. reflexivity.
    - unfold dec_pi; cbn [pi_port]. rewrite slice_slice by lia. reflexivity.
    - reflexivity.
    - rewrite Hbt. apply control_spec.
    - rewrite slice_one by lia. rewrite be_decode_one. reflexivity.
  Qed.
End DecodeSpecHeader.

Lemma canon_accuracy_spec v : canon_accuracy v = if accuracy_defined v then v else 0.
Proof.
  unfold canon_accuracy, accuracy_defined, in_range.
  assert (E : ((23 <=? v) && (v <=? 49)) || ((128 <=? v) && (v <=? 254))
              = ((23 <=? v) && (v <=? 49)) || ((128 <=? v) && (v <=? 253)) || (v =? 254)) by lia.
  rewrite E. reflexivity.
Qed.

Definition body_fields (mt : Z) : list field :=
  filter (fun f => match body_layout mt f with Some _ => true | None => false end) body_field_names.

Lemma decode_spec_body b t s f :
  bok b -> 34 <= mlen b <= blen b -> type_body_size t <= blen (content_of b) ->
  In f (body_fields (msg_type_code t)) ->
  field_of (mkMsg (hdr_of b) (body_of t (content_of b)) s) f
  = spec_canon (msg_type_code t) f
      (match layout_of (msg_type_code t) f with Some l => read l b | None => 0 end).
Proof.
  intros Hb HL Hbs Hin.
  rewrite content_length in Hbs by assumption.
  unfold content_of.
  set (n := (Z.to_nat (mlen b) - 34)%nat).
  assert (Hn : (34 + n <= length b)%nat) by (unfold n, blen in *; lia).
  assert (Hn' : type_body_size t <= Z.of_nat n) by (unfold n; lia).
  clearbody n. clear HL Hbs.
  destruct t; cbn [type_body_size] in Hn'; vm_compute in Hin;
    repeat (destruct Hin as [<-|Hin]); try contradiction;
    cbn [field_of spec_canon m_header m_body m_suffix body_of body_ts body_pi body_ann msg_type_code
         an_origin an_utc_offset an_prio1 an_quality an_prio2 an_gm_identity an_steps_removed
         an_time_source];
    try reflexivity;
    (match goal with
     | |- context [layout_of ?mt ?f] =>
         let l := fresh "l" in
         set (l := layout_of mt f); vm_compute in l; subst l; cbv beta iota
     end);
    rd;
    unfold dec_ts, dec_pi, dec_cq, canon_time_source;
    cbn [ts_secs ts_nanos pi_clock pi_port cq_class cq_accuracy cq_variance];
    rewrite ?slice_slice by lia; rewrite ?byte_at_slice by lia;
    rewrite ?slice_one by lia; rewrite ?be_decode_one;
    try reflexivity.
  - (* clockAccuracy *) apply canon_accuracy_spec.
Qed.

Theorem decode_spec b m :
  bok b -> decode b = ROk m ->
  forall f, In f (spec_fields (spec_msg_type b)) ->
  field_of m f = spec_canon (spec_msg_type b) f (spec_get f b).
Proof.
  intros Hb Hd f Hin.
  destruct (decode_inv _ _ Hd) as (t & Ht & H34 & HL & Hbs & Hts & Hs & Hm).
  destruct (decode_wf _ _ Hb Hd) as [_ Hsz].
  assert (H34n : (34 <= length b)%nat) by (unfold blen in *; lia).
  rewrite Hm in *.
  unfold spec_fields in Hin. apply in_app_or in Hin as [Hin|Hin].
  - apply (decode_spec_header b t); auto using body_of_type.
  - rewrite (spec_type_code b t Ht) in *. unfold spec_get. rewrite (spec_type_code b t Ht).
    apply decode_spec_body; assumption.
Qed.

(** * 6. encode_spec: every field is written where Clause 13 puts it *)

Lemma b2z_range x : 0 <= b2z x <= 1. Proof. destruct x; cbn; lia. Qed.

Lemma bok_list (l : bytes) : (forall x, In x l -> 0 <= x < 256) -> bok l.
Proof. intros H. apply Forall_forall. exact H. Qed.

Lemma enc_pi_bok p : bok (enc_pi p).
Proof. unfold enc_pi. apply bok_app; apply be_encode_bok. Qed.
Lemma enc_ts_bok t : bok (enc_ts t).
Proof. unfold enc_ts. apply bok_app; apply be_encode_bok. Qed.

Lemma encode_header_bok h t n : wf_header h -> bok (encode_header h t n).
Proof.
  intros (Hsdo & Hmaj & Hmin & Hdom & Hcor & Hsrc & Hseq & Hlog).
  pose proof (msg_type_code_range t).
  assert (0 <= control_field t < 256) by (destruct t; cbn; lia).
  pose proof (b2z_range (h_alternate_master h)). pose proof (b2z_range (h_two_step h)).
  pose proof (b2z_range (h_unicast h)). pose proof (b2z_range (h_profile1 h)).
  pose proof (b2z_range (h_profile2 h)). pose proof (b2z_range (h_leap61 h)).
  pose proof (b2z_range (h_leap59 h)). pose proof (b2z_range (h_utc_valid h)).
  pose proof (b2z_range (h_ptp_timescale h)). pose proof (b2z_range (h_time_traceable h)).
  pose proof (b2z_range (h_freq_traceable h)). pose proof (b2z_range (h_sync_uncertain h)).
  unfold encode_header.
  repeat first [ apply bok_app | apply be_encode_bok | apply enc_pi_bok
               | apply bok_cons | apply bok_nil ]; lia.
Qed.

Lemma encode_body_bok bd : wf_body bd -> bok (encode_body bd).
Proof.
  intros H. destruct bd as [t|t|t|t p|t|t p|t p|a|p|p sh bh ac]; cbn [wf_body encode_body] in *;
    try (repeat first [ apply bok_app | apply enc_ts_bok | apply enc_pi_bok | apply be_encode_bok
                      | apply bok_cons | apply bok_nil ]; lia).
  - destruct H as (Ho & Hu & Hp1 & (Hc & Ha & Hca & Hv) & Hp2 & Hg & Hs & Hts).
    unfold enc_cq.
    repeat first [ apply bok_app | apply enc_ts_bok | apply enc_pi_bok | apply be_encode_bok
                 | apply bok_cons | apply bok_nil ]; lia.
Qed.

Lemma encode_raw_bok m : wf_msg m -> bok (encode_raw m).
Proof.
  intros (Hh & Hb & (Hs & _) & _). unfold encode_raw.
  apply bok_app; [apply encode_header_bok, Hh|]. apply bok_app; [apply encode_body_bok, Hb|exact Hs].
Qed.

Lemma not_in_fields f mt : ~ In f (spec_fields mt) -> In f (spec_fields mt) -> False.
Proof. tauto. Qed.

Theorem encode_spec m :
  wf_msg m ->
  forall f, In f (spec_fields (msg_type_code (body_type (m_body m)))) ->
  spec_get f (encode_raw m) = field_of m f.
Proof.
  intros Hwf f Hin.
  pose proof (encode_raw_bok m Hwf) as Hb.
  pose proof (encode_decode m Hwf) as Hd.
  destruct (decode_inv _ _ Hd) as (t & Ht & H34 & HL & Hbs & Hts & Hs & Hm).
  pose proof (spec_type_code _ t Ht) as Hmt.
  assert (Hbt : body_type (m_body m) = t) by (rewrite Hm; cbn [m_body]; apply body_of_type).
  rewrite Hbt in Hin.
  pose proof (decode_spec _ _ Hb Hd f) as Hds. rewrite Hmt in Hds. specialize (Hds Hin).
  pose proof (encode_raw_length m) as Hlen.
  assert (Hlen34 : (34 <= length (encode_raw m))%nat) by (unfold blen in *; lia).
  destruct Hwf as (Hwh & Hwb & Hws & Hwsz).
  destruct f; cbn [spec_canon] in Hds; try (symmetry; exact Hds); clear Hds;
    unfold spec_get; rewrite Hmt; cbn [field_of].
  - (* flagField *)
    pick_layout. rd. unfold encode_raw.
    replace (slice 6 2 _) with [flags0 (m_header m); flags1 (m_header m)] by reflexivity.
    apply be_decode_two.
  - (* controlField *)
    pick_layout. rd. rewrite slice_one by lia. rewrite be_decode_one. unfold encode_raw.
    rewrite E_b32. reflexivity.
  - (* pdelayReqReserved *)
    destruct t; try (exfalso; vm_compute in Hin; intuition discriminate).
    destruct m as [h bd s]; cbn [m_body] in *. destruct bd; try discriminate.
    unfold wire_size, blen in Hlen; cbn [m_body m_suffix body_size] in Hlen.
    pick_layout. rd.
    replace (slice 44 10 _) with [0; 0; 0; 0; 0; 0; 0; 0; 0; 0] by reflexivity. reflexivity.
  - (* announce reserved *)
    destruct t; try (exfalso; vm_compute in Hin; intuition discriminate).
    destruct m as [h bd s]; cbn [m_body] in *. destruct bd; try discriminate.
    unfold wire_size, blen in Hlen; cbn [m_body m_suffix body_size] in Hlen.
    pick_layout. rd. rewrite slice_one by lia. rewrite be_decode_one. reflexivity.
  - (* clockAccuracy *)
    destruct t; try (exfalso; vm_compute in Hin; intuition discriminate).
    destruct m as [h bd s]; cbn [m_body] in *. destruct bd; try discriminate.
    unfold wire_size, blen in Hlen; cbn [m_body m_suffix body_size] in Hlen.
    pick_layout. rd. rewrite slice_one by lia. rewrite be_decode_one. reflexivity.
  - (* management octet 44 *)
    destruct t; try (exfalso; vm_compute in Hin; intuition discriminate).
    destruct m as [h bd s]; cbn [m_body] in *. destruct bd; try discriminate.
    unfold wire_size, blen in Hlen; cbn [m_body m_suffix body_size] in Hlen.
    pick_layout. rd. rewrite slice_one by lia. rewrite be_decode_one. reflexivity.
  - (* actionField *)
    destruct t; try (exfalso; vm_compute in Hin; intuition discriminate).
    destruct m as [h bd s]; cbn [m_body] in *. destruct bd; try discriminate.
    unfold wire_size, blen in Hlen; cbn [m_body m_suffix body_size] in Hlen.
    pick_layout. rd. rewrite slice_one by lia. rewrite be_decode_one. reflexivity.
Qed.

(** [reencode]: what re-encoding a decoded message yields. *)
Theorem reencode b m :
  bok b -> decode b = ROk m ->
  decode (encode_raw m) = ROk m /\
  blen (encode_raw m) = mlen b /\
  forall f, In f (spec_fields (spec_msg_type b)) ->
    spec_get f (encode_raw m) = spec_canon (spec_msg_type b) f (spec_get f b).
Proof.
  intros Hb Hd. destruct (decode_wf _ _ Hb Hd) as [Hwf Hsz].
  split; [apply encode_decode, Hwf|]. split; [rewrite encode_raw_length; exact Hsz|].
  intros f Hin. rewrite <- (decode_spec _ _ Hb Hd f Hin).
  apply encode_spec; [exact Hwf|].
  destruct (decode_inv _ _ Hd) as (t & Ht & _ & _ & _ & _ & _ & Hm).
  rewrite (spec_type_code b t Ht) in Hin. rewrite Hm; cbn [m_body]. rewrite body_of_type. exact Hin.
Qed.

(** * 7. The implementation's TLV scanner against the TLV framing of WireSpec *)

Definition tlv_list (ts : list tlv) : list (Z * octets) :=
  map (fun t => (tlv_type t, tlv_value t)) ts.

Lemma spec_tlvs_step fuel (a : octets) :
  a <> [] ->
  spec_tlvs_fuel (S fuel) a =
  if (length a <? 4)%nat then None
  else if Z.odd (uint_be a 2 2) then None
  else if (length a <? 4 + Z.to_nat (uint_be a 2 2))%nat then None
  else match spec_tlvs_fuel fuel (skipn (4 + Z.to_nat (uint_be a 2 2)) a) with
       | Some r => Some ((uint_be a 0 2, sub a 4 (Z.to_nat (uint_be a 2 2))) :: r)
       | None => None
       end.
Proof. destruct a; [contradiction|]. reflexivity. Qed.

(** The scanner (TlvSet::deserialize, since the repair of F5) accepts exactly
    the octet strings that are sequences of whole TLVs with even length
    fields, and the iterator (TlvSetIterator) then yields exactly those TLVs. *)
Lemma scan_spec : forall fuel buf total,
  bok buf -> (length buf <= fuel)%nat ->
  match tlvset_scan fuel buf total with
  | ROk _ =>
      exists l, spec_tlvs_fuel fuel buf = Some l /\ tlv_list (tlvset_iter fuel buf) = l
  | RErr _ => spec_tlvs_fuel fuel buf = None
  end.
Proof.
  induction fuel; intros buf total Hb Hf.
  - destruct buf; [|cbn [length] in Hf; lia]. cbn. exists []. auto.
  - destruct buf as [|x0 buf0].
    { cbn. exists []. auto. }
    set (buf := x0 :: buf0) in *.
    assert (Hne : buf <> []) by discriminate.
    cbn [tlvset_scan tlvset_iter]. rewrite spec_tlvs_step by assumption.
    unfold blen.
    destruct (Z.leb_spec 4 (Z.of_nat (length buf))) as [H4|H4].
    + (* at least four octets: a TLV header is parsed *)
      destruct (Nat.ltb_spec (length buf) 4); [lia|].
      rewrite (uint_be_slice buf 2 2) by lia. rewrite (uint_be_slice buf 2 0) by lia.
      set (LF := be_decode (slice 2 2 buf)).
      assert (HLF : 0 <= LF < 65536).
      { pose proof (slice_bound 2 2 buf Hb) as B. rewrite P2 in B. exact B. }
      rewrite (Zmod_odd LF).
      destruct (Z.odd LF); [reflexivity|].
      change (0 =? 1) with false. cbv iota.
      destruct (Z.ltb_spec (Z.of_nat (length buf)) (4 + LF)) as [Hs|Hs].
      * destruct (Nat.ltb_spec (length buf) (4 + Z.to_nat LF)); [|lia]. reflexivity.
      * destruct (Nat.ltb_spec (length buf) (4 + Z.to_nat LF)); [lia|].
        destruct (Z.ltb_spec (Z.of_nat (length buf)) 4); [lia|].
        set (rest := skipn (4 + Z.to_nat LF) buf).
        assert (Hr : (length rest <= fuel)%nat).
        { unfold rest. rewrite skipn_length. cbn [length] in Hf. unfold buf in *. cbn [length] in *. lia. }
        specialize (IHfuel rest (total + 4 + Z.to_nat LF)%nat (bok_skipn _ _ Hb) Hr).
        destruct (tlvset_scan fuel rest (total + 4 + Z.to_nat LF)) as [n|e].
        -- destruct IHfuel as (l & Hl & Hit). rewrite Hl.
           eexists. split; [reflexivity|].
           unfold tlv_list in *. cbn [map tlv_type tlv_value]. rewrite Hit.
           unfold canon_tlv_type. rewrite sub_slice by lia. reflexivity.
        -- rewrite IHfuel. reflexivity.
    + (* one to three octets left *)
      destruct (Nat.eqb_spec (length buf) 0); [unfold buf in *; discriminate|].
      destruct (Nat.ltb_spec (length buf) 4) as [H3|H3]; [reflexivity|lia].
Qed.

(** the message types and body lengths of WireSpec are those of the model *)
Lemma body_len_table v :
  0 <= v < 16 ->
  match msg_type_of_nibble v, spec_body_len v with
  | None, None => True
  | Some t, Some bl => bl = Z.to_nat (type_body_size t)
  | _, _ => False
  end.
Proof.
  intros Hv.
  pose (p := fun v => match msg_type_of_nibble v, spec_body_len v with
                      | None, None => true
                      | Some t, Some bl => Nat.eqb bl (Z.to_nat (type_body_size t))
                      | _, _ => false end).
  assert (H : forallb p (zrange 16) = true) by (vm_compute; reflexivity).
  pose proof (zrange_all 16 p H v Hv) as Hp. unfold p in Hp.
  destruct (msg_type_of_nibble v), (spec_body_len v); try discriminate; auto.
  apply Nat.eqb_eq. exact Hp.
Qed.

Lemma tlv_area_eq b bl :
  (34 + bl <= Z.to_nat (mlen b))%nat -> (Z.to_nat (mlen b) <= length b)%nat ->
  sub b (34 + bl) (Z.to_nat (mlen b) - (34 + bl)) = skipn bl (content_of b).
Proof.
  intros H1 H2. unfold content_of. rewrite skipn_slice. rewrite sub_slice by lia. f_equal. lia.
Qed.

(** Soundness and completeness of the decoder with respect to the frame
    format of WireSpec. *)
Lemma decode_vs_spec b :
  bok b ->
  match decode b with
  | ROk m =>
      spec_wellformed b = true /\
      spec_tlv_area b = m_suffix m /\ spec_tlv_summary b = Some (tlv_summary (m_suffix m))
  | RErr _ => spec_wellformed b = false
  end.
Proof.
  intros Hb. rewrite decode_eq.
  unfold spec_wellformed, spec_tlv_summary, spec_tlv_area.
  unfold blen.
  destruct (Z.ltb_spec (Z.of_nat (length b)) 34) as [H34|H34].
  { destruct (Nat.leb_spec 34 (length b)); [lia|]. reflexivity. }
  destruct (Nat.leb_spec 34 (length b)); [|lia].
  assert (Hnib : 0 <= byte_at 0 b mod 16 < 16) by (apply Z.mod_pos_bound; lia).
  pose proof (body_len_table _ Hnib) as Htab.
  unfold spec_msg_type, oct. fold (byte_at 0 b).
  destruct (msg_type_of_nibble (byte_at 0 b mod 16)) as [t|];
    destruct (spec_body_len (byte_at 0 b mod 16)) as [bl|]; try contradiction;
    [|reflexivity].
  subst bl. rewrite (uint_be_slice b 2 2) by lia. fold (mlen b).
  pose proof (mlen_bound b Hb) as HLb.
  assert (Hbs : 0 <= type_body_size t <= 30) by (destruct t; cbn; lia).
  destruct (Z.ltb_spec (mlen b) 34).
  { destruct (Nat.leb_spec (34 + Z.to_nat (type_body_size t)) (Z.to_nat (mlen b))); [lia|]. reflexivity. }
  destruct (Z.ltb_spec (Z.of_nat (length b)) (mlen b)).
  { destruct (Nat.leb_spec (34 + Z.to_nat (type_body_size t)) (Z.to_nat (mlen b))); [|reflexivity].
    destruct (Nat.leb_spec (Z.to_nat (mlen b)) (length b)); [lia|]. reflexivity. }
  pose proof (content_length b ltac:(unfold blen; lia)) as Hcl. unfold blen in Hcl. rewrite Hcl.
  destruct (Z.ltb_spec (mlen b - 34) (type_body_size t)).
  { destruct (Nat.leb_spec (34 + Z.to_nat (type_body_size t)) (Z.to_nat (mlen b))); [lia|]. reflexivity. }
  destruct (Nat.leb_spec (34 + Z.to_nat (type_body_size t)) (Z.to_nat (mlen b))); [|lia].
  destruct (Nat.leb_spec (Z.to_nat (mlen b)) (length b)); [|lia].
  rewrite tlv_area_eq by lia.
  set (tb := skipn (Z.to_nat (type_body_size t)) (content_of b)).
  assert (Htb : bok tb) by (apply bok_skipn, bok_slice, Hb).
  unfold decode_tlvset, spec_tlvs.
  pose proof (scan_spec (length tb) tb 0%nat Htb (le_n _)) as Hsc.
  destruct (tlvset_scan (length tb) tb 0) as [n|e] eqn:Escan; cbn [rbind].
  - destruct Hsc as (l & Hl & Hit). rewrite Hl.
    apply tlvset_scan_total in Escan. subst n. cbn [Nat.add]. rewrite firstn_all.
    cbn [m_suffix]. repeat split; auto.
    unfold tlv_summary, tlvs_of. rewrite <- Hit. unfold tlv_list. rewrite map_map. reflexivity.
  - rewrite Hsc. reflexivity.
Qed.

(** * 8. The uniform statement *)

Lemma bool_eqb_refl a : bool_eqb a a = true. Proof. destruct a; reflexivity. Qed.
Lemma pi_eqb_refl p : pi_eqb p p = true.
Proof. unfold pi_eqb. rewrite !Z.eqb_refl. reflexivity. Qed.
Lemma ts_eqb_refl t : ts_eqb t t = true.
Proof. unfold ts_eqb. rewrite !Z.eqb_refl. reflexivity. Qed.
Lemma bytes_eqb_refl a : bytes_eqb a a = true.
Proof. induction a; cbn [bytes_eqb]; [reflexivity|]. rewrite Z.eqb_refl. exact IHa. Qed.
Lemma header_eqb_refl h : header_eqb h h = true.
Proof. unfold header_eqb. rewrite !Z.eqb_refl, !bool_eqb_refl, pi_eqb_refl. reflexivity. Qed.
Lemma body_eqb_refl bd : body_eqb bd bd = true.
Proof.
  destruct bd; cbn [body_eqb]; rewrite ?ts_eqb_refl, ?pi_eqb_refl, ?Z.eqb_refl; try reflexivity.
  unfold ann_eqb, cq_eqb. rewrite ts_eqb_refl, !Z.eqb_refl. reflexivity.
Qed.
Lemma message_eqb_refl m : message_eqb m m = true.
Proof. unfold message_eqb. rewrite header_eqb_refl, body_eqb_refl, bytes_eqb_refl. reflexivity. Qed.
Lemma res_eqb_refl r : res_eqb r r = true.
Proof. destruct r as [m|e]; cbn [res_eqb]; [apply message_eqb_refl | destruct e; reflexivity]. Qed.
Lemma zz_list_eqb_refl l : list_eqb zz_eqb l l = true.
Proof.
  induction l as [|x l IH]; cbn [list_eqb]; [reflexivity|].
  unfold zz_eqb at 1. rewrite !Z.eqb_refl. exact IH.
Qed.

Lemma run_local_true b : run_local b = true.
Proof.
  unfold run_local. fold (mlen b).
  destruct (Z.leb_spec 34 (blen b)) as [H34|]; [|reflexivity].
  destruct (Z.leb_spec (mlen b) (blen b)) as [HL|]; [|reflexivity].
  set (K := Z.to_nat (Z.max (mlen b) 34)).
  assert (HK : (34 <= K <= length b)%nat) by (unfold K, blen in *; lia).
  rewrite (decode_firstn K b) by (unfold K; lia).
  assert (E : decode (firstn K b ++ local_tail) = decode b).
  { symmetry. apply decode_local; try assumption. cbv zeta.
    rewrite Z.max_comm. fold K.
    assert (HlK : length (firstn K b) = K) by (rewrite firstn_length; lia).
    rewrite <- HlK at 2. rewrite firstn_app_exact. reflexivity. }
  rewrite E, res_eqb_refl. reflexivity.
Qed.

Lemma spec_len_mlen b m : bok b -> decode b = ROk m -> spec_get FmessageLength b = wire_size m.
Proof.
  intros Hb Hd. symmetry.
  apply (decode_spec b m Hb Hd FmessageLength).
  unfold spec_fields, header_fields. cbn [In app]. tauto.
Qed.

Lemma reenc_ok_true b m :
  bok b -> decode b = ROk m -> reenc_ok b (encode_raw m) = true.
Proof.
  intros Hb Hd.
  destruct (reencode b m Hb Hd) as (Hd' & Hlen & Hf).
  destruct (decode_wf _ _ Hb Hd) as [Hwf Hsz].
  pose proof (decode_vs_spec b Hb) as Hvb. rewrite Hd in Hvb. destruct Hvb as (_ & Hab & _).
  pose proof (decode_vs_spec _ (encode_raw_bok m Hwf)) as Hvr. rewrite Hd' in Hvr.
  destruct Hvr as (_ & Har & _).
  unfold reenc_ok.
  rewrite (spec_len_mlen b m Hb Hd), encode_raw_length, Z.eqb_refl.
  assert (Hall : forallb (same_field b (encode_raw m)) (spec_fields (spec_msg_type b)) = true).
  { apply forallb_forall. intros f Hin. unfold same_field. apply Z.eqb_eq. apply Hf, Hin. }
  rewrite Hall, Hab, Har. apply bytes_eqb_refl.
Qed.

Theorem C04_all b sizes :
  bok b -> ok_C04 b (run_C04 b sizes) = true.
Proof.
  intros Hb. unfold ok_C04, run_C04 in *. cbn [o_local o_res fst snd] in *.
  rewrite run_local_true. cbn [andb].
  pose proof (decode_vs_spec b Hb) as Hv.
  destruct (decode b) as [m|e] eqn:Hd.
  - destruct Hv as (Hwf & Harea & Hsum).
    rewrite Hwf, Hsum, zz_list_eqb_refl.
    destruct (reencode b m Hb Hd) as (Hd' & Hlen & _).
    rewrite Hd', res_eqb_refl. cbn [andb].
    pose proof (spec_len_mlen b m Hb Hd) as HL. rewrite HL.
    pose proof (reenc_ok_true b m Hb Hd) as Hre.
    assert (Hmain : (if wire_size m <=? 2048
                     then match probe_of 2048 m with PBytes r => reenc_ok b r | _ => false end
                     else true) = true).
    { destruct (Z.leb_spec (wire_size m) 2048); [|reflexivity].
      unfold probe_of, encode. destruct (Z.ltb_spec 2048 (wire_size m)); [lia|]. exact Hre. }
    rewrite Hmain. cbn [andb].
    apply forallb_forall. intros p Hp. apply in_map_iff in Hp as (n & <- & _). cbn [fst snd].
    unfold probe_of, encode. destruct (Z.ltb_spec n (wire_size m)).
    + reflexivity.
    + rewrite Hre. apply andb_true_iff. split; [apply Z.leb_le; assumption | reflexivity].
  - rewrite Hv. reflexivity.
Qed.

(** the uniform shape [kf = 0 -> ok = true] (no finding is excused any more) *)
Corollary C04_all_kf b sizes :
  bok b -> kf_C04 (b, run_C04 b sizes) = 0 -> ok_C04 b (run_C04 b sizes) = true.
Proof. intros Hb _. apply C04_all, Hb. Qed.

(** * 9. TLV lists: the serializer's output is accepted by the scanner *)
Definition tlv_wf (t : tlv) : Prop :=
  0 <= tlv_type t < 65536 /\ bok (tlv_value t) /\ blen (tlv_value t) < 65536 /\
  blen (tlv_value t) mod 2 = 0.
Definition encode_tlvs (ts : list tlv) : bytes := concat (map encode_tlv ts).

Lemma encode_tlv_length t : length (encode_tlv t) = (4 + length (tlv_value t))%nat.
Proof. unfold encode_tlv. rewrite !app_length, !be_encode_length. lia. Qed.

Lemma encode_tlv_bok t : tlv_wf t -> bok (encode_tlv t).
Proof.
  intros (_ & Hv & _). unfold encode_tlv.
  apply bok_app; [apply be_encode_bok|]. apply bok_app; [apply be_encode_bok|exact Hv].
Qed.

Lemma encode_tlvs_bok ts : Forall tlv_wf ts -> bok (encode_tlvs ts).
Proof.
  induction 1 as [|t ts Ht Hts IH]; [constructor|].
  change (encode_tlvs (t :: ts)) with (encode_tlv t ++ encode_tlvs ts).
  apply bok_app; [apply encode_tlv_bok; assumption|assumption].
Qed.

Lemma scan_encode_tlvs : forall ts fuel total,
  Forall tlv_wf ts -> (length (encode_tlvs ts) <= fuel)%nat ->
  tlvset_scan fuel (encode_tlvs ts) total = ROk (total + length (encode_tlvs ts))%nat.
Proof.
  induction ts as [|t ts IH]; intros fuel total Hwf Hf.
  - cbn [encode_tlvs map concat length]. rewrite Nat.add_0_r. destruct fuel; reflexivity.
  - inversion Hwf as [|? ? Ht Hts]; subst.
    destruct Ht as (Hty & Hv & Hvl & Heven).
    change (encode_tlvs (t :: ts)) with (encode_tlv t ++ encode_tlvs ts) in *.
    set (rest := encode_tlvs ts) in *.
    assert (Hlen : length (encode_tlv t ++ rest) = (4 + length (tlv_value t) + length rest)%nat)
      by (rewrite app_length, encode_tlv_length; reflexivity).
    destruct fuel as [|fuel]; [lia|].
    cbn [tlvset_scan]. unfold blen at 1.
    destruct (Z.leb_spec 4 (Z.of_nat (length (encode_tlv t ++ rest)))); [|lia].
    replace (slice 2 2 (encode_tlv t ++ rest)) with (be_encode 2 (blen (tlv_value t))) by reflexivity.
    rewrite dec_enc_u by (rewrite P2; unfold blen in *; lia).
    rewrite Heven. change (0 =? 1) with false. cbv iota.
    unfold blen at 1.
    destruct (Z.ltb_spec (Z.of_nat (length (encode_tlv t ++ rest))) (4 + blen (tlv_value t)));
      [unfold blen in *; lia|].
    unfold blen. rewrite Nat2Z.id.
    replace (4 + length (tlv_value t))%nat with (length (encode_tlv t)) by apply encode_tlv_length.
    rewrite skipn_app_exact.
    rewrite IH.
    + f_equal. rewrite Hlen. lia.
    + assumption.
    + fold rest. lia.
Qed.

(** The serializer's output for ANY list of TLVs with even-length values
    (including empty values, in any position) is accepted unchanged. *)
Theorem encode_tlvs_accepted ts :
  Forall tlv_wf ts -> decode_tlvset (encode_tlvs ts) = ROk (encode_tlvs ts).
Proof.
  intros Hwf. unfold decode_tlvset.
  rewrite scan_encode_tlvs by (auto || lia). cbn [rbind Nat.add]. rewrite firstn_all. reflexivity.
Qed.

Theorem encode_decode_tlvs h bd ts :
  wf_header h -> wf_body bd -> Forall tlv_wf ts ->
  34 + body_size bd + blen (encode_tlvs ts) < 65536 ->
  decode (encode_raw (mkMsg h bd (encode_tlvs ts))) = ROk (mkMsg h bd (encode_tlvs ts)).
Proof.
  intros Hh Hb Hts Hsz. apply encode_decode. unfold wf_msg; cbn [m_header m_body m_suffix].
  split; [exact Hh|]. split; [exact Hb|]. split; [split|exact Hsz].
  - apply encode_tlvs_bok, Hts.
  - apply encode_tlvs_accepted; assumption.
Qed.

(** F5 (repaired in /repo by 4fcd0b5): a Sync message carrying one PATH_TRACE
    TLV with an empty value.  Before the repair the parser rejected this
    frame with BufferTooShort; it is now a positive example. *)
Definition f5_msg : message := mkMsg (header_new 1) (BSync ts_zero) (encode_tlvs [mkTlv 8 []]).
Definition f5_frame : bytes := encode_raw f5_msg.

Lemma f5_accepted :
  octets_ok f5_frame = true /\ spec_wellformed f5_frame = true /\
  blen f5_frame = 48 /\
  decode f5_frame = ROk f5_msg /\
  tlvs_of (m_suffix f5_msg) = [mkTlv 8 []] /\
  ok_C04 f5_frame (run_C04 f5_frame [47; 48]) = true.
Proof. vm_compute. repeat split; reflexivity. Qed.
