(** Case format, declarative classification of client behaviours, property
    oracle and known-finding classifier for C20.  No proofs here. *)
From SV Require Export Base.Cases Exporter.AcceptLoop.

(** * What a client does, read off its script (not by running the machine) *)

(** Bytes the peer delivers before it closes or resets. *)
Fixpoint data_prefix (rs : list rd) : list Z :=
  match rs with
  | RChunk b bs :: rest => (b :: bs) ++ data_prefix rest
  | _ => []
  end.

Inductive ending := EEof | EErr.
Fixpoint ending_of (rs : list rd) : ending :=
  match rs with
  | RChunk _ _ :: rest => ending_of rest
  | RErr :: _ => EErr
  | _ => EEof
  end.

Inductive kind :=
| KGet        (* complete request within 2048 bytes, starts with "GET ", client takes the response *)
| KGetRst     (* the same, but writing the response fails (client reset) *)
| KNonGet     (* complete request within 2048 bytes, other verb *)
| KEof        (* closes before the header terminator, fewer than 2048 bytes sent *)
| KOversize   (* 2048 bytes or more without terminator in the first 2048 *)
| KReset.     (* connection error before the header terminator *)

Definition kind_of (c : conn) : kind :=
  let d := data_prefix (c_reads c) in
  let w := firstn BUFn d in
  if has_term w then
    if starts_get w then match c_wr c with WOk => KGet | WErr => KGetRst end
    else KNonGet
  else if (BUFn <=? length d)%nat then KOversize
  else match ending_of (c_reads c) with EEof => KEof | EErr => KReset end.

Definition benign_conn (c : conn) : bool :=
  match kind_of c with KGet | KNonGet => true | _ => false end.

(** [benign]: every connection delivers a header terminator within 2048 bytes
    before EOF and no I/O error occurs (on accept, read, write). *)
Definition benign_item (i : item) : bool :=
  match i with Conn c => benign_conn c | AcceptErr => false end.
Definition benign (items : list item) : bool := forallb benign_item items.

Definition wellformed_get (c : conn) : bool :=
  match kind_of c with KGet => true | _ => false end.

Definition no_accept_err (items : list item) : bool :=
  forallb (fun i => match i with Conn _ => true | AcceptErr => false end) items.

(** * What must reach the clients, read off the scripts (not by running the machine)

    A well-formed GET whose client takes the response receives exactly ONE byte
    string: the response the handler formatted for the observation served for
    THAT request (200), or the constant error response (500).  Nobody else
    receives anything.  Nothing of what an earlier request produced appears. *)
Definition reply_bytes (h : hres) : list Z :=
  match h with HOk out => out | HErr _ => ERR_BYTES end.

Definition wire_of (c : conn) : list (list Z) :=
  match kind_of c with KGet => [reply_bytes (c_hnd c)] | _ => [] end.
Definition wire_of_item (i : item) : list (list Z) :=
  match i with Conn c => wire_of c | AcceptErr => [] end.
Definition expected_wire (items : list item) : list (list Z) := flat_map wire_of_item items.

(** * The property as an executable oracle (from the property text) *)

Definition cout_eqb (a b : cout) : bool :=
  match a, b with
  | OStatus x, OStatus y => x =? y
  | ODropped, ODropped => true
  | ONone, ONone => true
  | OGone, OGone => true
  | _, _ => false
  end.

Definition final_eqb (a b : final) : bool :=
  match a, b with
  | FIdle, FIdle | FSpin, FSpin | FExit, FExit => true
  | _, _ => false
  end.

(** A client that went away itself cannot see anything. *)
Definition norm (i : item) (o : cout) : cout :=
  match i with
  | Conn c => if c_gone c then OGone else o
  | AcceptErr => o
  end.

Fixpoint norm_all (items : list item) (os : list cout) : list cout :=
  match items, os with
  | i :: ir, o :: orr => norm i o :: norm_all ir orr
  | _, _ => os
  end.

(** Per connection: a well-formed GET whose client waits gets 200, or 500 when
    the exporter cannot get the data; every other client gets the connection
    closed or an error status - never silence. *)
Definition ok_conn (c : conn) (o : cout) : bool :=
  if c_gone c then cout_eqb o OGone
  else
    match kind_of c with
    | KGet => cout_eqb o (OStatus (status_of (c_hnd c)))
    | _ =>
        match o with
        | ODropped => true
        | OStatus s => (400 <=? s) && (s <? 600)
        | _ => false
        end
    end.

Fixpoint ok_all (items : list item) (os : list cout) : bool :=
  match items, os with
  | [], [] => true
  | Conn c :: ir, o :: orr => ok_conn c o && ok_all ir orr
  | AcceptErr :: ir, _ :: orr => ok_all ir orr
  | _, _ => false
  end.

(** The exporter keeps answering: all clients were treated as above and the
    process is alive and idle at the end (not spinning, not exited).  A failing
    listener is outside the property (nothing a client does). *)
Definition ok_C20 (items : list item) (obs : list cout * final) : bool :=
  if no_accept_err items then
    ok_all items (fst obs) && final_eqb (snd obs) FIdle
  else true.

(** * Historic classifier of the three F19 failure patterns of the pre-fix loop
    (1 premature close -> spin, 2 oversize -> spin, 3 reset -> exit).  Used
    only by the historic theorems about [step_before_fix]; the check excuses
    NOTHING any more (see [kf_C20]). *)
Definition kf_of_kind (k : kind) : Z :=
  match k with
  | KEof => 1 | KOversize => 2 | KReset => 3 | KGetRst => 3
  | _ => 0
  end.

Definition final_of_kind (k : kind) : final :=
  match k with
  | KEof | KOversize => FSpin
  | KReset | KGetRst => FExit
  | _ => FIdle
  end.

Definition silent (o : cout) : bool :=
  match o with ONone | OGone => true | _ => false end.

Fixpoint kf_walk (items : list item) (os : list cout) (fin : final) : Z :=
  match items, os with
  | Conn c :: ir, o :: orr =>
      if benign_conn c then
        if ok_conn c o then kf_walk ir orr fin else 0
      else
        if forallb silent (o :: orr) && (length ir =? length orr)%nat
           && final_eqb fin (final_of_kind (kind_of c))
        then kf_of_kind (kind_of c) else 0
  | _, _ => 0
  end.

Definition case := (list item * (list cout * final))%type.

Definition kf_before_fix (c : case) : Z :=
  if no_accept_err (fst c) then kf_walk (fst c) (fst (snd c)) (snd (snd c)) else 0.

(** F19 is repaired (b7381c9): no known finding is left, every rejection by the
    oracle is a violation. *)
Definition kf_C20 (c : case) : Z := 0.

(** * Correspondence *)
Fixpoint couts_eqb (a b : list cout) : bool :=
  match a, b with
  | [], [] => true
  | x :: a', y :: b' => cout_eqb x y && couts_eqb a' b'
  | _, _ => false
  end.

Definition obs_of (items : list item) (r : list cout * final) : list cout * final :=
  (norm_all items (fst r), snd r).

Definition agree_C20 (c : case) : bool :=
  let m := obs_of (fst c) (run (fst c)) in
  couts_eqb (fst m) (fst (snd c)) && final_eqb (snd m) (snd (snd c)).

Definition run_cases :=
  run_cases_gen agree_C20 (fun c => ok_C20 (fst c) (snd c)) kf_C20.

(** Helpers for the concrete syntax printed by the driver. *)
Definition bytes_chunk (l : list Z) (rest : list rd) : list rd := mk_chunk l rest.
