(** C20 — model of the accept loop of statime-linux/src/metrics/exporter.rs
    ([main], lines "loop { let (mut tcp_stream, _) = listener.accept().await?; ..."),
    as a small-step machine over ABSTRACT I/O results.

    Kept: the control flow of the two nested loops, the 2048-byte buffer and
    [bytes_read], the terminator search over [buf[0..bytes_read]], the
    "request too long" branch (a [continue] of the INNER loop), the GET test
    (a [continue] of the OUTER loop, which drops the connection), the handler
    result, [write_all], and every [?] (leaves [main], the process exits).
    Also kept: the response buffer [let mut buf = String::with_capacity(4 * 1024)]
    that is declared OUTSIDE the accept loop and therefore lives across
    requests ([rbuf]): [buf.clear()] in front of every [handler(&mut buf, ..)]
    call, the handler APPENDING to it ([format_response] only appends), and
    [write_all(buf.as_bytes())] / [write_all(ERROR_REPONSE)].  Every byte string
    that a [write_all] delivered is recorded in [wire].
    Abstracted: what the kernel / the peer / the observation socket do is an
    input script (the results returned by [read], [handler] - together with the
    bytes it appended to the buffer -, [write_all]).

    [step_fixed] is the code AS IT IS since the F19 repair (commit b7381c9);
    it is the model tied to the binary ([step_impl]).
    [step_before_fix] is the loop as it was before that commit, kept only as a
    historic definition for the spin / exit lemmas (control flow only: it
    leaves [rbuf] and [wire] alone).
    [step_clear_after_write] is a COUNTERFACTUAL loop (never the code of /repo):
    "clear the buffer after a successful write" instead of "before the handler";
    it exists only to show that the freshness theorems tell the two apart. *)
From SV Require Export Base.Prelude.

(** * Abstract I/O scripts *)

(** One result of [tcp_stream.read(..)] as produced by the peer:
    a chunk of at least one byte (first byte + rest; the kernel may hand out
    less if the slice is shorter, see [do_read]), the peer's FIN (read returns
    [Ok(0)], for ever), or an error such as ECONNRESET. *)
Inductive rd :=
| RChunk (b : Z) (bs : list Z)
| REof
| RErr.

(** handler(&mut buf, ..) -> Ok(()) | Err(e), together with the bytes it
    APPENDED to [buf] before returning: on Ok the complete formatted response
    for the observation JSON served for THIS request ([format_response]); on Err
    whatever had been formatted before the failure (nothing when connecting,
    reading or parsing failed). *)
Inductive hres := HOk (out : list Z) | HErr (out : list Z).
Inductive wres := WOk | WErr.      (* write_all(..) -> Ok(()) | Err(e) *)

Definition hnd_out (h : hres) : list Z := match h with HOk o => o | HErr o => o end.

(** A connection script.  When [c_reads] is exhausted the peer has gone away
    ([Ok(0)] for ever, as [REof]).  [c_gone]: the client does not look at the
    server's reaction (it closed or reset its socket); only used to normalise
    what a client can observe, never by the machine. *)
Record conn := mkConn {
  c_reads : list rd;
  c_hnd : hres;
  c_wr : wres;
  c_gone : bool
}.

(** What [listener.accept()] returns next. *)
Inductive item :=
| Conn (c : conn)
| AcceptErr.

(** What a client sees on its connection. *)
Inductive cout :=
| OStatus (code : Z)     (* an HTTP response with this status *)
| ODropped               (* connection closed by the exporter without a response *)
| ONone                  (* no reaction within the deadline *)
| OGone.                 (* the client did not look (it went away itself) *)

(** * The machine *)

Definition BUFn : nat := Z.to_nat 2048.           (* let mut buf = [0u8; 2048]; *)

Inductive state :=
| Accepting                                         (* at listener.accept().await *)
| Reading (rs : list rd) (h : hres) (w : wres) (buf : list Z)
                                                    (* at tcp_stream.read(&mut buf[bytes_read..]).await;
                                                       buf = buf[0..bytes_read], rs = what the peer still does *)
| Responding (status : Z) (w : wres)                (* at tcp_stream.write_all(..).await *)
| Exited.                                           (* main returned Err: process exit status 1 *)

Record cfg := mkCfg {
  st : state;
  pending : list item;      (* future results of accept *)
  log : list cout;          (* outcomes of the connections finished so far *)
  rbuf : list Z;            (* the String [buf] declared before the accept loop *)
  wire : list (list Z)      (* byte strings delivered by successful write_all calls, in order *)
}.

(** const ERROR_REPONSE: "HTTP/1.1 500 Internal Server Error\r\ncontent-type: text/plain\r\ncontent-length: 0\r\n\r\n" *)
Definition ERR_BYTES : list Z :=
  [72; 84; 84; 80; 47; 49; 46; 49; 32; 53; 48; 48; 32; 73; 110; 116; 101; 114; 110; 97; 108; 32;
   83; 101; 114; 118; 101; 114; 32; 69; 114; 114; 111; 114; 13; 10;
   99; 111; 110; 116; 101; 110; 116; 45; 116; 121; 112; 101; 58; 32; 116; 101; 120; 116; 47; 112; 108; 97; 105; 110; 13; 10;
   99; 111; 110; 116; 101; 110; 116; 45; 108; 101; 110; 103; 116; 104; 58; 32; 48; 13; 10; 13; 10].

(** buf.clear() *)
Definition buf_clear (b : list Z) : list Z := [].
(** handler(&mut buf, ..): only ever appends (format_response uses write_str / push_str) *)
Definition handler_appends (h : hres) (b : list Z) : list Z := b ++ hnd_out h.
(** The argument of write_all: [Ok(()) => buf.as_bytes()], [Err(e) => ERROR_REPONSE] *)
Definition to_write (status : Z) (b : list Z) : list Z := if status =? 200 then b else ERR_BYTES.

(** buf[0..bytes_read].windows(4).any(|w| w == b"\r\n\r\n") *)
Fixpoint has_term (l : list Z) : bool :=
  match l with
  | [] => false
  | a :: t =>
      match t with
      | b :: c :: d :: _ => ((a =? 13) && (b =? 10) && (c =? 13) && (d =? 10)) || has_term t
      | _ => false
      end
  end.

(** buf[0..bytes_read].starts_with(b"GET ") *)
Definition starts_get (l : list Z) : bool :=
  match l with
  | a :: b :: c :: d :: _ => (a =? 71) && (b =? 69) && (c =? 84) && (d =? 32)
  | _ => false
  end.

Definition mk_chunk (l : list Z) (rest : list rd) : list rd :=
  match l with
  | [] => rest
  | b :: bs => RChunk b bs :: rest
  end.

(** [tcp_stream.read(&mut buf[bytes_read..])]: [None] = Err, [Some (rs', buf')]
    = Ok(n) with the n bytes appended.  An empty slice (bytes_read = 2048)
    yields Ok(0) without consuming anything; so does a closed peer. *)
Definition do_read (rs : list rd) (buf : list Z) : option (list rd * list Z) :=
  let space := (BUFn - length buf)%nat in
  match space with
  | O => Some (rs, buf)
  | _ =>
      match rs with
      | [] => Some (rs, buf)
      | REof :: _ => Some (rs, buf)
      | RErr :: _ => None
      | RChunk b bs :: rest =>
          Some (mk_chunk (skipn space (b :: bs)) rest, buf ++ firstn space (b :: bs))
      end
  end.

Definition status_of (h : hres) : Z := match h with HOk _ => 200 | HErr _ => 500 end.

(** ** HISTORIC: the loop before the F19 repair (not today's code) *)
Definition step_before_fix (c : cfg) : cfg :=
  match st c with
  | Accepting =>
      match pending c with
      | [] => c                                              (* blocked in accept: idle *)
      | AcceptErr :: p => mkCfg Exited p (log c) (rbuf c) (wire c)             (* accept().await? *)
      | Conn k :: p => mkCfg (Reading (c_reads k) (c_hnd k) (c_wr k) []) p (log c) (rbuf c) (wire c)
      end
  | Reading rs h w buf =>
      match do_read rs buf with
      | None => mkCfg Exited (pending c) (log c) (rbuf c) (wire c)             (* read(..).await? *)
      | Some (rs', buf') =>
          if has_term buf' then                              (* break *)
            if starts_get buf' then
              mkCfg (Responding (status_of h) w) (pending c) (log c) (rbuf c) (wire c)   (* handler called *)
            else
              mkCfg Accepting (pending c) (log c ++ [ODropped]) (rbuf c) (wire c)        (* continue (outer): stream dropped *)
          else if (BUFn <=? length buf')%nat then
            (* warn "request too long"; continue  -- of the INNER loop *)
            mkCfg (Reading rs' h w buf') (pending c) (log c) (rbuf c) (wire c)
          else
            mkCfg (Reading rs' h w buf') (pending c) (log c) (rbuf c) (wire c)
      end
  | Responding s w =>
      match w with
      | WOk => mkCfg Accepting (pending c) (log c ++ [OStatus s]) (rbuf c) (wire c)      (* end of loop body: stream dropped *)
      | WErr => mkCfg Exited (pending c) (log c) (rbuf c) (wire c)                       (* write_all(..).await? *)
      end
  | Exited => c
  end.

(** ** The code as it is (exporter.rs since b7381c9)
    EOF before a complete request -> drop the connection, accept the next;
    oversize request -> drop, accept the next; read or write error on a
    connection -> log, accept the next; only [accept] failing leaves [main].
    Response buffer: [buf.clear(); handler(&mut buf, ..)] - the buffer is emptied
    in front of EVERY handler call, whatever happened to the previous response;
    a failed write leaves the old response in [rbuf] until then. *)
Definition step_fixed (c : cfg) : cfg :=
  match st c with
  | Accepting =>
      match pending c with
      | [] => c
      | AcceptErr :: p => mkCfg Exited p (log c) (rbuf c) (wire c)
      | Conn k :: p => mkCfg (Reading (c_reads k) (c_hnd k) (c_wr k) []) p (log c) (rbuf c) (wire c)
      end
  | Reading rs h w buf =>
      match rs with
      | [] => mkCfg Accepting (pending c) (log c ++ [ODropped]) (rbuf c) (wire c)        (* Ok(0): continue 'accept *)
      | REof :: _ => mkCfg Accepting (pending c) (log c ++ [ODropped]) (rbuf c) (wire c) (* Ok(0): continue 'accept *)
      | RErr :: _ => mkCfg Accepting (pending c) (log c ++ [ODropped]) (rbuf c) (wire c) (* Err(e): warn; continue 'accept *)
      | RChunk b bs :: rest =>
          let space := (BUFn - length buf)%nat in
          let buf' := buf ++ firstn space (b :: bs) in
          let rs' := mk_chunk (skipn space (b :: bs)) rest in
          if has_term buf' then
            if starts_get buf' then
              (* buf.clear(); let written = match handler(&mut buf, ..).await { .. *)
              mkCfg (Responding (status_of h) w) (pending c) (log c)
                    (handler_appends h (buf_clear (rbuf c))) (wire c)
            else
              mkCfg Accepting (pending c) (log c ++ [ODropped]) (rbuf c) (wire c)
          else if (BUFn <=? length buf')%nat then
            mkCfg Accepting (pending c) (log c ++ [ODropped]) (rbuf c) (wire c)          (* too long: continue 'accept *)
          else
            mkCfg (Reading rs' h w buf') (pending c) (log c) (rbuf c) (wire c)
      end
  | Responding s w =>
      match w with
      | WOk => mkCfg Accepting (pending c) (log c ++ [OStatus s]) (rbuf c)
                     (wire c ++ [to_write s (rbuf c)])
      | WErr => mkCfg Accepting (pending c) (log c ++ [ODropped]) (rbuf c) (wire c)      (* Err(e): warn; next accept *)
      end
  | Exited => c
  end.

(** ** COUNTERFACTUAL (not the code of /repo): "clear after use"
    The same loop with [buf.clear()] moved from in front of the handler call to
    "after a successful write" ([match written { Ok(()) => buf.clear(), Err(e) => warn }]).
    Status codes and liveness are the same as [step_fixed]'s; what reaches the
    clients is not (lemma [clear_after_write_refuted]). *)
Definition step_clear_after_write (c : cfg) : cfg :=
  match st c with
  | Accepting =>
      match pending c with
      | [] => c
      | AcceptErr :: p => mkCfg Exited p (log c) (rbuf c) (wire c)
      | Conn k :: p => mkCfg (Reading (c_reads k) (c_hnd k) (c_wr k) []) p (log c) (rbuf c) (wire c)
      end
  | Reading rs h w buf =>
      match rs with
      | [] => mkCfg Accepting (pending c) (log c ++ [ODropped]) (rbuf c) (wire c)
      | REof :: _ => mkCfg Accepting (pending c) (log c ++ [ODropped]) (rbuf c) (wire c)
      | RErr :: _ => mkCfg Accepting (pending c) (log c ++ [ODropped]) (rbuf c) (wire c)
      | RChunk b bs :: rest =>
          let space := (BUFn - length buf)%nat in
          let buf' := buf ++ firstn space (b :: bs) in
          let rs' := mk_chunk (skipn space (b :: bs)) rest in
          if has_term buf' then
            if starts_get buf' then
              mkCfg (Responding (status_of h) w) (pending c) (log c)
                    (handler_appends h (rbuf c)) (wire c)                 (* no clear here *)
            else
              mkCfg Accepting (pending c) (log c ++ [ODropped]) (rbuf c) (wire c)
          else if (BUFn <=? length buf')%nat then
            mkCfg Accepting (pending c) (log c ++ [ODropped]) (rbuf c) (wire c)
          else
            mkCfg (Reading rs' h w buf') (pending c) (log c) (rbuf c) (wire c)
      end
  | Responding s w =>
      match w with
      | WOk => mkCfg Accepting (pending c) (log c ++ [OStatus s]) (buf_clear (rbuf c))   (* cleared only here *)
                     (wire c ++ [to_write s (rbuf c)])
      | WErr => mkCfg Accepting (pending c) (log c ++ [ODropped]) (rbuf c) (wire c)
      end
  | Exited => c
  end.

(** * Running the machine *)

Fixpoint iter {A} (n : nat) (f : A -> A) (s : A) : A :=
  match n with
  | O => s
  | S n' => iter n' f (f s)
  end.

Definition init (items : list item) : cfg := mkCfg Accepting items [] [] [].

(** Step budget: accept + one step per script element + the response. *)
Definition item_cost (i : item) : nat :=
  match i with
  | Conn c => (2 + length (c_reads c))%nat
  | AcceptErr => 1%nat
  end.
Fixpoint bound (items : list item) : nat :=
  match items with
  | [] => O
  | i :: r => (item_cost i + bound r)%nat
  end.

Inductive final := FIdle | FSpin | FExit.

(** After the budget: waiting in accept with nothing left = idle; exited; any
    other state has not moved on although every input was available = spin
    (justified by the theorems: all terminating runs fit into [bound]). *)
Definition final_of (c : cfg) : final :=
  match st c, pending c with
  | Accepting, [] => FIdle
  | Exited, _ => FExit
  | _, _ => FSpin
  end.

Definition pad_log (n : nat) (l : list cout) : list cout :=
  l ++ repeat ONone (n - length l).

Definition run_with (stp : cfg -> cfg) (items : list item) : list cout * final :=
  let c := iter (bound items) stp (init items) in
  (pad_log (length items) (log c), final_of c).

(** THE model that is compared with the real binary. *)
Definition step_impl : cfg -> cfg := step_fixed.

Definition run (items : list item) : list cout * final := run_with step_impl items.

(** Everything that reached a client during the run, in order. *)
Definition run_wire_with (stp : cfg -> cfg) (items : list item) : list (list Z) :=
  wire (iter (bound items) stp (init items)).
Definition run_wire (items : list item) : list (list Z) := run_wire_with step_impl items.
