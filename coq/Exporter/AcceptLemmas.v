(** Proofs about the accept-loop machine (C20, and the response-buffer part of C19).
    The HISTORIC part (everything about [step_before_fix]) is about control flow only:
    that loop leaves [rbuf] / [wire] alone, its lemmas are stated for the (only
    reachable) empty buffer and empty wire. *)
From SV Require Import Exporter.AcceptCases.

Local Open Scope nat_scope.

(** * Generic facts about [iter] and reachability *)

Lemma iter_add {A} (f : A -> A) a b s : iter (a + b) f s = iter b f (iter a f s).
Proof. revert s; induction a; intros; cbn; auto. Qed.

Lemma iter_fix {A} (f : A -> A) s : f s = s -> forall n, iter n f s = s.
Proof. intros H n; induction n; cbn; auto. rewrite H; auto. Qed.

Section Reach.
  Variable stp : cfg -> cfg.

  Definition reaches (k : nat) (s t : cfg) : Prop :=
    exists n, n <= k /\ iter n stp s = t.

  Lemma reaches_refl k s : reaches k s s.
  Proof. exists 0; split; [lia | reflexivity]. Qed.

  Lemma reaches_step k s t : reaches k (stp s) t -> reaches (S k) s t.
  Proof. intros (n & Hn & E). exists (S n); split; [lia | exact E]. Qed.

  Lemma reaches_trans k1 k2 s t u : reaches k1 s t -> reaches k2 t u -> reaches (k1 + k2) s u.
  Proof.
    intros (n1 & H1 & E1) (n2 & H2 & E2). exists (n1 + n2); split; [lia |].
    rewrite iter_add, E1; exact E2.
  Qed.

  Lemma reaches_weaken k k' s t : k <= k' -> reaches k s t -> reaches k' s t.
  Proof. intros H (n & Hn & E); exists n; split; [lia | exact E]. Qed.

  (** Once a fixed point is reached it is the state at every later time. *)
  Lemma reaches_fix k s t : reaches k s t -> stp t = t -> forall n, k <= n -> iter n stp s = t.
  Proof.
    intros (m & Hm & E) F n Hn. replace n with (m + (n - m)) by lia.
    rewrite iter_add, E. apply iter_fix; exact F.
  Qed.
End Reach.

(** * Lists *)

Lemma has_term_app l t : has_term l = true -> has_term (l ++ t) = true.
Proof.
  induction l as [| a l IH]; cbn [has_term app]; [discriminate |].
  destruct l as [| b [| c [| d l']]]; try discriminate.
  intros H. apply orb_true_iff in H. cbn [app]. cbn [app] in IH.
  apply orb_true_iff. destruct H as [H | H]; [left; exact H | right; apply IH; exact H].
Qed.

Lemma has_term_len l : has_term l = true -> 4 <= length l.
Proof.
  induction l as [| a l IH]; cbn [has_term]; [discriminate |].
  destruct l as [| b [| c [| d l']]]; try discriminate.
  intros _. cbn [length]. lia.
Qed.

Lemma starts_get_app l t : 4 <= length l -> starts_get (l ++ t) = starts_get l.
Proof.
  destruct l as [| a [| b [| c [| d l']]]]; cbn [length]; try lia. intros _; reflexivity.
Qed.

Lemma firstn_app_le {A} n (l t : list A) : length l <= n -> firstn n (l ++ t) = l ++ firstn (n - length l) t.
Proof.
  intros H. rewrite firstn_app. rewrite firstn_all2 by exact H. reflexivity.
Qed.

Lemma skipn_nil_firstn {A} n (l : list A) : length (firstn n l) < n -> firstn n l = l /\ skipn n l = [].
Proof.
  intros H. rewrite firstn_length in H.
  assert (length l <= n) by lia.
  split; [apply firstn_all2 | apply skipn_all2]; assumption.
Qed.

(** * The read loop in one piece (big step), used only in proofs *)

Inductive rres :=
| RFound (buf : list Z)                 (* terminator found in buf *)
| RStuck (rs : list rd) (buf : list Z)  (* reads return Ok(0) for ever, no terminator in buf *)
| RFail.                                (* a read returned Err *)

Fixpoint read_loop (rs : list rd) (buf : list Z) : rres :=
  match rs with
  | [] => RStuck rs buf
  | REof :: _ => RStuck rs buf
  | RErr :: _ => RFail
  | RChunk b bs :: rest =>
      let n := BUFn - length buf in
      let buf' := buf ++ firstn n (b :: bs) in
      if has_term buf' then RFound buf'
      else if BUFn <=? length buf' then RStuck (mk_chunk (skipn n (b :: bs)) rest) buf'
      else read_loop rest buf'
  end.

Definition rd_cfg rs h w buf p lg := mkCfg (Reading rs h w buf) p lg [] [].

Definition after_found (b : list Z) (h : hres) (w : wres) p lg : cfg :=
  if starts_get b then mkCfg (Responding (status_of h) w) p lg [] []
  else mkCfg Accepting p (lg ++ [ODropped]) [] [].

Lemma do_read_space rs buf :
  length buf < BUFn ->
  do_read rs buf =
    match rs with
    | [] => Some (rs, buf)
    | REof :: _ => Some (rs, buf)
    | RErr :: _ => None
    | RChunk b bs :: rest =>
        Some (mk_chunk (skipn (BUFn - length buf) (b :: bs)) rest,
              buf ++ firstn (BUFn - length buf) (b :: bs))
    end.
Proof.
  intros H. unfold do_read. destruct (BUFn - length buf) eqn:E; [lia | reflexivity].
Qed.

Lemma do_read_full rs buf : BUFn <= length buf -> do_read rs buf = Some (rs, buf).
Proof.
  intros H. unfold do_read. replace (BUFn - length buf) with 0 by lia. reflexivity.
Qed.

(** A [Reading] state without terminator whose next read yields nothing is a
    fixed point of [step_before_fix]: the busy spin. *)
Lemma stuck_eof_fix rs h w buf p lg :
  has_term buf = false -> (rs = [] \/ exists r, rs = REof :: r) ->
  step_before_fix (rd_cfg rs h w buf p lg) = rd_cfg rs h w buf p lg.
Proof.
  intros Ht Hrs. unfold step_before_fix, rd_cfg; cbn [st pending log].
  assert (E : do_read rs buf = Some (rs, buf)).
  { unfold do_read. destruct (BUFn - length buf); [reflexivity |].
    destruct Hrs as [-> | (r & ->)]; reflexivity. }
  rewrite E, Ht. destruct (BUFn <=? length buf); reflexivity.
Qed.

Lemma stuck_full_fix rs h w buf p lg :
  has_term buf = false -> BUFn <= length buf ->
  step_before_fix (rd_cfg rs h w buf p lg) = rd_cfg rs h w buf p lg.
Proof.
  intros Ht Hl. unfold step_before_fix, rd_cfg; cbn [st pending log].
  rewrite do_read_full by exact Hl. rewrite Ht.
  destruct (BUFn <=? length buf); reflexivity.
Qed.

Definition stuck_ok (rs : list rd) (buf : list Z) : Prop :=
  has_term buf = false /\ (BUFn <= length buf \/ rs = [] \/ exists r, rs = REof :: r).

Lemma stuck_fix rs h w buf p lg :
  stuck_ok rs buf -> step_before_fix (rd_cfg rs h w buf p lg) = rd_cfg rs h w buf p lg.
Proof.
  intros (Ht & [H | H]); [apply stuck_full_fix | apply stuck_eof_fix]; assumption.
Qed.

(** Small steps follow the big step. *)
Lemma read_small rs : forall buf h w p lg,
  has_term buf = false -> length buf < BUFn ->
  match read_loop rs buf with
  | RFound b => reaches step_before_fix (length rs) (rd_cfg rs h w buf p lg) (after_found b h w p lg)
                /\ has_term b = true
  | RStuck rs' b => reaches step_before_fix (length rs) (rd_cfg rs h w buf p lg) (rd_cfg rs' h w b p lg)
                    /\ stuck_ok rs' b
  | RFail => reaches step_before_fix (length rs) (rd_cfg rs h w buf p lg) (mkCfg Exited p lg [] [])
  end.
Proof.
  induction rs as [| r rest IH]; intros buf h w p lg Ht Hl.
  - cbn [read_loop]. split; [apply reaches_refl | split; auto].
  - destruct r as [b bs | |].
    + cbn [read_loop length].
      set (n := BUFn - length buf).
      set (buf' := buf ++ firstn n (b :: bs)).
      assert (Hstep : step_before_fix (rd_cfg (RChunk b bs :: rest) h w buf p lg) =
                if has_term buf' then after_found buf' h w p lg
                else rd_cfg (mk_chunk (skipn n (b :: bs)) rest) h w buf' p lg).
      { unfold step_before_fix, rd_cfg; cbn [st pending log]. rewrite do_read_space by exact Hl.
        fold n. fold buf'. unfold after_found.
        destruct (has_term buf'); [reflexivity |]. destruct (BUFn <=? length buf'); reflexivity. }
      destruct (has_term buf') eqn:Hb.
      * split; [| exact Hb]. apply reaches_step. rewrite Hstep. apply reaches_refl.
      * destruct (BUFn <=? length buf') eqn:Hlen.
        -- apply Nat.leb_le in Hlen. split.
           ++ apply reaches_step. rewrite Hstep. apply reaches_refl.
           ++ split; [exact Hb | left; exact Hlen].
        -- apply Nat.leb_gt in Hlen.
           assert (Hfl : length (firstn n (b :: bs)) < n).
           { subst buf'. rewrite app_length in Hlen. subst n. lia. }
           destruct (skipn_nil_firstn _ _ Hfl) as [Hf Hs].
           assert (Hstep' : step_before_fix (rd_cfg (RChunk b bs :: rest) h w buf p lg) = rd_cfg rest h w buf' p lg).
           { rewrite Hstep. rewrite Hs. reflexivity. }
           specialize (IH buf' h w p lg Hb Hlen).
           destruct (read_loop rest buf') as [fb | rs' sb |].
           ++ destruct IH as [IH1 IH2]. split; [| exact IH2].
              apply reaches_step. rewrite Hstep'. exact IH1.
           ++ destruct IH as [IH1 IH2]. split; [| exact IH2].
              apply reaches_step. rewrite Hstep'. exact IH1.
           ++ apply reaches_step. rewrite Hstep'. exact IH.
    + cbn [read_loop]. split; [apply reaches_refl |]. split; [exact Ht | right; right; eauto].
    + cbn [read_loop length]. apply reaches_step.
      unfold step_before_fix, rd_cfg; cbn [st pending log]. rewrite do_read_space by exact Hl.
      apply reaches_refl.
Qed.

(** The big step, characterised by what the peer delivers. *)
Lemma read_spec rs : forall buf,
  has_term buf = false -> length buf < BUFn ->
  let d := buf ++ data_prefix rs in
  let wn := firstn BUFn d in
  match read_loop rs buf with
  | RFound b => has_term wn = true /\ exists t, wn = b ++ t
  | RStuck _ _ => has_term wn = false /\
                  (BUFn <= length d \/ (length d < BUFn /\ ending_of rs = EEof))
  | RFail => has_term wn = false /\ length d < BUFn /\ ending_of rs = EErr
  end.
Proof.
  induction rs as [| r rest IH]; intros buf Ht Hl; cbn zeta.
  - cbn [read_loop data_prefix ending_of]. rewrite app_nil_r.
    rewrite firstn_all2 by lia. split; [exact Ht | right; split; [lia | reflexivity]].
  - destruct r as [b bs | |].
    + cbn [read_loop data_prefix ending_of].
      set (n := BUFn - length buf).
      set (buf' := buf ++ firstn n (b :: bs)).
      assert (Hpre : exists t, firstn BUFn (buf ++ (b :: bs) ++ data_prefix rest) = buf' ++ t).
      { rewrite firstn_app_le by lia. fold n. rewrite firstn_app.
        exists (firstn (n - length (b :: bs)) (data_prefix rest)). subst buf'.
        rewrite app_assoc. reflexivity. }
      destruct (has_term buf') eqn:Hb.
      * destruct Hpre as (t & Ht'). split; [| exists t; exact Ht'].
        rewrite Ht'. apply has_term_app; exact Hb.
      * destruct (BUFn <=? length buf') eqn:Hlen.
        -- apply Nat.leb_le in Hlen.
           assert (Hlen' : length buf' = BUFn).
           { subst buf'. rewrite app_length, firstn_length in *. subst n. lia. }
           destruct Hpre as (t & Ht').
           assert (t = []).
           { assert (L : length (firstn BUFn (buf ++ (b :: bs) ++ data_prefix rest)) <= BUFn)
               by apply firstn_le_length.
             rewrite Ht', app_length in L. destruct t; [reflexivity | cbn [length] in L; lia]. }
           subst t. rewrite app_nil_r in Ht'. rewrite Ht'. split; [exact Hb |].
           left.
           assert (Hle : length buf' <= length (buf ++ (b :: bs) ++ data_prefix rest)).
           { unfold buf'. rewrite !app_length, firstn_length. lia. }
           lia.
        -- apply Nat.leb_gt in Hlen.
           assert (Hfl : length (firstn n (b :: bs)) < n).
           { subst buf'. rewrite app_length in Hlen. subst n. lia. }
           destruct (skipn_nil_firstn _ _ Hfl) as [Hf Hs].
           specialize (IH buf' Hb Hlen). cbn zeta in IH.
           unfold buf' in IH |- *. rewrite Hf in IH |- *. rewrite <- app_assoc in IH.
           exact IH.
    + cbn [read_loop data_prefix ending_of]. rewrite app_nil_r.
      rewrite firstn_all2 by lia. split; [exact Ht | right; split; [lia | reflexivity]].
    + cbn [read_loop data_prefix ending_of]. rewrite app_nil_r.
      rewrite firstn_all2 by lia. split; [exact Ht |]. split; [lia | reflexivity].
Qed.

(** * One connection, pre-fix loop *)

Lemma BUFn_pos : 0 < BUFn.
Proof. unfold BUFn. lia. Qed.

Definition acc_cfg (p : list item) (lg : list cout) : cfg := mkCfg Accepting p lg [] [].

Lemma accept_step c p lg :
  step_before_fix (acc_cfg (Conn c :: p) lg) = rd_cfg (c_reads c) (c_hnd c) (c_wr c) [] p lg.
Proof. reflexivity. Qed.

(** The kind of a connection, read off the big-step result. *)
Lemma kind_read c :
  match read_loop (c_reads c) [] with
  | RFound b =>
      has_term b = true ->
      kind_of c = if starts_get b then match c_wr c with WOk => KGet | WErr => KGetRst end
                  else KNonGet
  | RStuck _ _ => kind_of c = KEof \/ kind_of c = KOversize
  | RFail => kind_of c = KReset
  end.
Proof.
  pose proof (read_spec (c_reads c) [] eq_refl BUFn_pos) as S. cbn zeta in S. cbn [app] in S.
  unfold kind_of.
  destruct (read_loop (c_reads c) []) as [b | rs' b |].
  - destruct S as (Hw & t & Ht). intros Hb. rewrite Hw.
    rewrite Ht. rewrite starts_get_app by (apply has_term_len; exact Hb). reflexivity.
  - destruct S as (Hw & [Hl | (Hl & He)]); rewrite Hw.
    + right. apply Nat.leb_le in Hl. rewrite Hl. reflexivity.
    + left. apply Nat.leb_gt in Hl. rewrite Hl, He. reflexivity.
  - destruct S as (Hw & Hl & He). rewrite Hw. apply Nat.leb_gt in Hl. rewrite Hl, He. reflexivity.
Qed.

Definition is_fix (T : cfg) : Prop := step_before_fix T = T.

Lemma exited_fix p lg : is_fix (mkCfg Exited p lg [] []).
Proof. reflexivity. Qed.

Lemma idle_fix lg : is_fix (acc_cfg [] lg).
Proof. reflexivity. Qed.

(** What one connection does to the exporter (the pre-fix loop). *)
Lemma conn_as_is c p lg :
  let n := length (c_reads c) in
  match kind_of c with
  | KGet => reaches step_before_fix (1 + n) (acc_cfg (Conn c :: p) lg)
                    (mkCfg (Responding (status_of (c_hnd c)) WOk) p lg [] [])
  | KNonGet => reaches step_before_fix (1 + n) (acc_cfg (Conn c :: p) lg) (acc_cfg p (lg ++ [ODropped]))
  | KGetRst => reaches step_before_fix (2 + n) (acc_cfg (Conn c :: p) lg) (mkCfg Exited p lg [] [])
  | KReset => reaches step_before_fix (1 + n) (acc_cfg (Conn c :: p) lg) (mkCfg Exited p lg [] [])
  | KEof | KOversize =>
      exists rs' b, reaches step_before_fix (1 + n) (acc_cfg (Conn c :: p) lg)
                            (rd_cfg rs' (c_hnd c) (c_wr c) b p lg)
                    /\ is_fix (rd_cfg rs' (c_hnd c) (c_wr c) b p lg)
  end.
Proof.
  cbn zeta.
  pose proof (kind_read c) as K.
  pose proof (read_small (c_reads c) [] (c_hnd c) (c_wr c) p lg eq_refl BUFn_pos) as R.
  destruct (read_loop (c_reads c) []) as [b | rs' b |].
  - destruct R as [R Hb]. rewrite (K Hb). unfold after_found in R.
    destruct (starts_get b).
    + destruct (c_wr c) eqn:W.
      * apply reaches_step. rewrite accept_step, W. exact R.
      * change (2 + length (c_reads c)) with (S (1 + length (c_reads c))).
        replace (S (1 + length (c_reads c))) with ((1 + length (c_reads c)) + 1) by lia.
        eapply reaches_trans.
        -- apply reaches_step. rewrite accept_step, W. exact R.
        -- apply reaches_step. cbn. apply reaches_refl.
    + apply reaches_step. rewrite accept_step. exact R.
  - destruct R as [R Hs].
    assert (G : exists rs'0 b0,
               reaches step_before_fix (1 + length (c_reads c)) (acc_cfg (Conn c :: p) lg)
                 (rd_cfg rs'0 (c_hnd c) (c_wr c) b0 p lg)
               /\ is_fix (rd_cfg rs'0 (c_hnd c) (c_wr c) b0 p lg)).
    { exists rs', b. split.
      - apply reaches_step. rewrite accept_step. exact R.
      - apply stuck_fix; exact Hs. }
    destruct K as [-> | ->]; exact G.
  - rewrite K. apply reaches_step. rewrite accept_step. exact R.
Qed.

(** * The three refutations of [serves_next] on the pre-fix loop (F19) *)

(** Premature close: once the peer has closed, the state never changes again
    (for ALL n), in particular nothing is accepted any more. *)
Theorem eof_spins_state : forall n rs h w buf p lg,
  has_term buf = false ->
  iter n step_before_fix (rd_cfg (REof :: rs) h w buf p lg) = rd_cfg (REof :: rs) h w buf p lg.
Proof.
  intros. apply iter_fix. apply stuck_eof_fix; [assumption | right; eauto].
Qed.

(** From the start: a client that connects and closes after sending nothing. *)
Theorem eof_spins : forall n h w g rest,
  iter (S n) step_before_fix (init (Conn (mkConn [REof] h w g) :: rest))
  = rd_cfg [REof] h w [] rest [].
Proof.
  intros. cbn [iter]. unfold init. change (mkCfg Accepting ?p ?l [] []) with (acc_cfg p l).
  rewrite accept_step. cbn [c_reads c_hnd c_wr]. apply eof_spins_state. reflexivity.
Qed.

(** ... and after any partial request. *)
Theorem eof_spins_partial : forall c p lg,
  kind_of c = KEof ->
  exists T, st T <> Accepting /\ pending T = p /\ log T = lg /\
    forall n, 1 + length (c_reads c) <= n -> iter n step_before_fix (acc_cfg (Conn c :: p) lg) = T.
Proof.
  intros c p lg K. pose proof (conn_as_is c p lg) as H. cbn zeta in H. rewrite K in H.
  destruct H as (rs' & b & R & F).
  exists (rd_cfg rs' (c_hnd c) (c_wr c) b p lg). repeat split; try reflexivity; try discriminate.
  intros n Hn. eapply reaches_fix; eauto.
Qed.

(** 2048 bytes without terminator: the inner [continue] re-reads into the empty
    slice, the state never changes again. *)
Theorem oversize_spins_state : forall n rs h w buf p lg,
  has_term buf = false -> BUFn <= length buf ->
  iter n step_before_fix (rd_cfg rs h w buf p lg) = rd_cfg rs h w buf p lg.
Proof. intros. apply iter_fix. apply stuck_full_fix; assumption. Qed.

Theorem oversize_spins : forall c p lg,
  kind_of c = KOversize ->
  exists T, st T <> Accepting /\ pending T = p /\ log T = lg /\
    forall n, 1 + length (c_reads c) <= n -> iter n step_before_fix (acc_cfg (Conn c :: p) lg) = T.
Proof.
  intros c p lg K. pose proof (conn_as_is c p lg) as H. cbn zeta in H. rewrite K in H.
  destruct H as (rs' & b & R & F).
  exists (rd_cfg rs' (c_hnd c) (c_wr c) b p lg). repeat split; try reflexivity; try discriminate.
  intros n Hn. eapply reaches_fix; eauto.
Qed.

(** Reset: [?] on the read error (or on the write error) leaves [main]. *)
Theorem reset_exits_state : forall n rs h w buf p lg,
  length buf < BUFn ->
  iter (S n) step_before_fix (rd_cfg (RErr :: rs) h w buf p lg) = mkCfg Exited p lg [] [].
Proof.
  intros. cbn [iter].
  assert (E : step_before_fix (rd_cfg (RErr :: rs) h w buf p lg) = mkCfg Exited p lg [] []).
  { unfold step_before_fix, rd_cfg; cbn [st pending log]. rewrite do_read_space by assumption. reflexivity. }
  rewrite E. apply iter_fix. reflexivity.
Qed.

Theorem reset_exits : forall c p lg,
  kind_of c = KReset \/ kind_of c = KGetRst ->
  forall n, 2 + length (c_reads c) <= n ->
    iter n step_before_fix (acc_cfg (Conn c :: p) lg) = mkCfg Exited p lg [] [].
Proof.
  intros c p lg K n Hn. pose proof (conn_as_is c p lg) as H. cbn zeta in H.
  destruct K as [K | K]; rewrite K in H.
  - apply (reaches_fix step_before_fix (2 + length (c_reads c))); [| reflexivity | exact Hn].
    eapply reaches_weaken; [| exact H]. lia.
  - apply (reaches_fix step_before_fix (2 + length (c_reads c))); [exact H | reflexivity | exact Hn].
Qed.

Theorem write_error_exits : forall n s p lg,
  iter (S n) step_before_fix (mkCfg (Responding s WErr) p lg [] []) = mkCfg Exited p lg [] [].
Proof. intros. cbn [iter]. change (step_before_fix (mkCfg (Responding s WErr) p lg [] [])) with (mkCfg Exited p lg [] []).
  apply iter_fix. reflexivity. Qed.

Theorem accept_error_exits : forall n p lg,
  iter (S n) step_before_fix (acc_cfg (AcceptErr :: p) lg) = mkCfg Exited p lg [] [].
Proof. intros. cbn [iter]. change (step_before_fix (acc_cfg (AcceptErr :: p) lg)) with (mkCfg Exited p lg [] []).
  apply iter_fix. reflexivity. Qed.

(** * Lists of connections *)

Definition expected (c : conn) : cout :=
  match kind_of c with
  | KGet => OStatus (status_of (c_hnd c))
  | _ => ODropped
  end.
Definition expected_item (i : item) : cout :=
  match i with Conn c => expected c | AcceptErr => ONone end.

Lemma bound_app a b : bound (a ++ b) = bound a + bound b.
Proof. induction a; cbn [bound app]; lia. Qed.

Lemma benign_conn_done c p lg :
  benign_conn c = true ->
  reaches step_before_fix (item_cost (Conn c)) (acc_cfg (Conn c :: p) lg) (acc_cfg p (lg ++ [expected c])).
Proof.
  unfold benign_conn, expected. intros B. pose proof (conn_as_is c p lg) as H. cbn zeta in H.
  cbn [item_cost].
  destruct (kind_of c); try discriminate.
  - replace (2 + length (c_reads c)) with ((1 + length (c_reads c)) + 1) by lia.
    eapply reaches_trans; [exact H |]. apply reaches_step. cbn. apply reaches_refl.
  - eapply reaches_weaken; [| exact H]. lia.
Qed.

Lemma benign_run pre : forall p lg,
  benign pre = true ->
  reaches step_before_fix (bound pre) (acc_cfg (pre ++ p) lg) (acc_cfg p (lg ++ map expected_item pre)).
Proof.
  induction pre as [| i pre IH]; intros p lg B.
  - cbn. rewrite app_nil_r. apply reaches_refl.
  - cbn [benign forallb] in B. apply andb_true_iff in B. destruct B as [Bi B].
    destruct i as [c |]; [| discriminate]. cbn [benign_item] in Bi.
    cbn [bound app map expected_item].
    eapply reaches_trans; [apply benign_conn_done; exact Bi |].
    replace (lg ++ expected c :: map expected_item pre)
      with ((lg ++ [expected c]) ++ map expected_item pre) by (rewrite <- app_assoc; reflexivity).
    apply IH. exact B.
Qed.

Lemma exited_stays s : st s = Exited -> forall k, st (iter k step_before_fix s) = Exited.
Proof.
  intros H k. revert s H. induction k; intros s H; cbn [iter]; [exact H |].
  apply IHk. unfold step_before_fix. rewrite H. exact H.
Qed.

Lemma not_exited_before n m s :
  m <= n -> st (iter n step_before_fix s) <> Exited -> st (iter m step_before_fix s) <> Exited.
Proof.
  intros Hm Hn E. apply Hn. replace n with (m + (n - m)) by lia. rewrite iter_add.
  apply exited_stays. exact E.
Qed.

(** [serves_next], for the pre-fix loop under the guard [benign]: after ANY finite
    list of benign connections a well-formed request is being answered (200, or
    500 when the handler fails) within the step budget, and the process never
    exits. *)
Theorem serves_next_before_fix : forall pre last,
  benign pre = true -> wellformed_get last = true ->
  let items := pre ++ [Conn last] in
  (exists n, n <= bound items /\
     iter n step_before_fix (init items)
     = mkCfg (Responding (status_of (c_hnd last)) WOk) [] (map expected_item pre) [] [])
  /\ (forall m, st (iter m step_before_fix (init items)) <> Exited)
  /\ run_with step_before_fix items
     = (map expected_item pre ++ [OStatus (status_of (c_hnd last))], FIdle).
Proof.
  intros pre last B W items. unfold wellformed_get in W.
  assert (K : kind_of last = KGet) by (destruct (kind_of last); try discriminate; reflexivity).
  pose proof (benign_run pre [Conn last] [] B) as R1. cbn [app] in R1.
  pose proof (conn_as_is last [] (map expected_item pre)) as R2. cbn zeta in R2. rewrite K in R2.
  assert (R : reaches step_before_fix (bound pre + (1 + length (c_reads last))) (init items)
               (mkCfg (Responding (status_of (c_hnd last)) WOk) [] (map expected_item pre) [] [])).
  { eapply reaches_trans; [exact R1 | exact R2]. }
  assert (Hb : bound items = bound pre + (2 + length (c_reads last))).
  { unfold items. rewrite bound_app. cbn [bound item_cost]. lia. }
  set (A := acc_cfg [] (map expected_item pre ++ [OStatus (status_of (c_hnd last))])).
  assert (RA : reaches step_before_fix (bound items) (init items) A).
  { rewrite Hb. replace (bound pre + (2 + length (c_reads last)))
      with ((bound pre + (1 + length (c_reads last))) + 1) by lia.
    eapply reaches_trans; [exact R |]. apply reaches_step. cbn. apply reaches_refl. }
  split; [| split].
  - destruct R as (n & Hn & E). exists n. split; [lia | exact E].
  - intros m. destruct RA as (n & Hn & E).
    destruct (Nat.le_gt_cases m n) as [Hm | Hm].
    + apply (not_exited_before n m); [exact Hm |]. rewrite E. discriminate.
    + replace m with (n + (m - n)) by lia. rewrite iter_add, E.
      rewrite iter_fix by reflexivity. discriminate.
  - unfold run_with. rewrite (reaches_fix step_before_fix _ _ _ RA (idle_fix _) _ (le_n _)).
    unfold A, acc_cfg, final_of, pad_log; cbn [st pending log].
    unfold items. rewrite !app_length, map_length. cbn [length].
    replace (length pre + 1 - (length pre + 1)) with 0 by lia. cbn [repeat].
    rewrite app_nil_r. reflexivity.
Qed.

(** * Complete characterisation of a run of the pre-fix loop *)

Lemma benign_all_run items :
  benign items = true ->
  run_with step_before_fix items = (map expected_item items, FIdle).
Proof.
  intros B. pose proof (benign_run items [] [] B) as R. rewrite app_nil_r in R. cbn [app] in R.
  unfold run_with. unfold init. change (mkCfg Accepting items [] [] []) with (acc_cfg items []).
  rewrite (reaches_fix step_before_fix _ _ _ R (idle_fix _) _ (le_n _)).
  unfold acc_cfg, final_of, pad_log; cbn [st pending log].
  rewrite map_length. replace (length items - length items) with 0 by lia. cbn [repeat].
  rewrite app_nil_r. reflexivity.
Qed.

Lemma split_first_bad items :
  no_accept_err items = true -> benign items = false ->
  exists pre c post, items = pre ++ Conn c :: post /\ benign pre = true /\ benign_conn c = false.
Proof.
  induction items as [| i items IH]; intros N B; [discriminate |].
  cbn [no_accept_err forallb] in N. destruct i as [c |]; [| discriminate]. cbn [andb] in N.
  cbn [benign forallb benign_item] in B.
  destruct (benign_conn c) eqn:Bc.
  - cbn [andb] in B. destruct (IH N B) as (pre & c' & post & -> & Bp & Bc').
    exists (Conn c :: pre), c', post. repeat split; auto.
    cbn [benign forallb benign_item]. rewrite Bc. exact Bp.
  - exists [], c, items. repeat split; auto.
Qed.

Lemma bad_conn_wedges c p lg :
  benign_conn c = false ->
  exists T, reaches step_before_fix (item_cost (Conn c)) (acc_cfg (Conn c :: p) lg) T /\ is_fix T
            /\ log T = lg /\ final_of T = final_of_kind (kind_of c).
Proof.
  unfold benign_conn. intros B. pose proof (conn_as_is c p lg) as H. cbn zeta in H. cbn [item_cost].
  destruct (kind_of c); try discriminate.
  - exists (mkCfg Exited p lg [] []). repeat split; auto.
  - destruct H as (rs' & b & R & F). exists (rd_cfg rs' (c_hnd c) (c_wr c) b p lg).
    repeat split; auto. eapply reaches_weaken; [| exact R]. lia.
  - destruct H as (rs' & b & R & F). exists (rd_cfg rs' (c_hnd c) (c_wr c) b p lg).
    repeat split; auto. eapply reaches_weaken; [| exact R]. lia.
  - exists (mkCfg Exited p lg [] []). repeat split; auto. eapply reaches_weaken; [| exact H]. lia.
Qed.

Lemma bad_run pre c post :
  benign pre = true -> benign_conn c = false ->
  run_with step_before_fix (pre ++ Conn c :: post)
  = (map expected_item pre ++ repeat ONone (S (length post)), final_of_kind (kind_of c)).
Proof.
  intros Bp Bc.
  pose proof (benign_run pre (Conn c :: post) [] Bp) as R1. cbn [app] in R1.
  destruct (bad_conn_wedges c post (map expected_item pre) Bc) as (T & R2 & F & L & Fin).
  assert (R : reaches step_before_fix (bound (pre ++ Conn c :: post)) (init (pre ++ Conn c :: post)) T).
  { rewrite bound_app. cbn [bound].
    eapply reaches_weaken; [| eapply reaches_trans; [exact R1 | exact R2]]. lia. }
  unfold run_with. rewrite (reaches_fix step_before_fix _ _ _ R F _ (le_n _)).
  rewrite L, Fin. unfold pad_log. rewrite map_length, app_length. cbn [length].
  replace (length pre + S (length post) - length pre) with (S (length post)) by lia.
  reflexivity.
Qed.

(** * The uniform theorem for the pre-fix loop *)

Lemma ok_expected c : benign_conn c = true -> ok_conn c (norm (Conn c) (expected c)) = true.
Proof.
  unfold benign_conn, ok_conn, norm, expected. destruct (c_gone c); [reflexivity |].
  destruct (kind_of c); try discriminate; intros _; cbn [cout_eqb]; [apply Z.eqb_refl | reflexivity].
Qed.

Lemma norm_all_app a : forall b o1 o2,
  length a = length o1 -> norm_all (a ++ b) (o1 ++ o2) = norm_all a o1 ++ norm_all b o2.
Proof.
  induction a as [| i a IH]; intros b o1 o2 H; destruct o1; cbn [length] in H; try discriminate.
  - reflexivity.
  - cbn [app norm_all]. f_equal. apply IH. lia.
Qed.

Lemma ok_all_benign items :
  benign items = true -> ok_all items (norm_all items (map expected_item items)) = true.
Proof.
  induction items as [| i items IH]; intros B; [reflexivity |].
  cbn [benign forallb] in B. apply andb_true_iff in B. destruct B as [Bi B].
  destruct i as [c |]; [| discriminate]. cbn [benign_item] in Bi.
  cbn [map expected_item norm_all ok_all]. rewrite (ok_expected c Bi). cbn [andb]. apply IH; exact B.
Qed.

Lemma final_eqb_refl f : final_eqb f f = true.
Proof. destruct f; reflexivity. Qed.

Lemma silent_norm_none items : forall n,
  forallb silent (norm_all items (repeat ONone n)) = true.
Proof.
  induction items as [| i items IH]; intros n.
  - cbn [norm_all]. destruct n; [reflexivity |].
    induction (S n); [reflexivity | cbn [repeat forallb silent]; assumption].
  - destruct n; [reflexivity |]. cbn [repeat norm_all forallb]. rewrite IH.
    destruct i as [c |]; cbn [norm]; [destruct (c_gone c) |]; reflexivity.
Qed.

Lemma norm_all_length items : forall os, length (norm_all items os) = length os.
Proof.
  induction items as [| i items IH]; intros os; destruct os; cbn [norm_all length]; auto.
Qed.

Lemma kf_walk_bad pre c post fin :
  benign pre = true -> benign_conn c = false -> fin = final_of_kind (kind_of c) ->
  kf_walk (pre ++ Conn c :: post)
          (norm_all (pre ++ Conn c :: post) (map expected_item pre ++ repeat ONone (S (length post)))) fin
  = kf_of_kind (kind_of c).
Proof.
  intros Bp Bc ->. induction pre as [| i pre IH].
  - cbn [app map]. cbn [repeat norm_all kf_walk]. rewrite Bc.
    assert (S1 : silent (norm (Conn c) ONone) = true).
    { cbn [norm]. destruct (c_gone c); reflexivity. }
    cbn [forallb]. rewrite S1, silent_norm_none, norm_all_length, repeat_length, Nat.eqb_refl,
      final_eqb_refl. reflexivity.
  - cbn [benign forallb] in Bp. apply andb_true_iff in Bp. destruct Bp as [Bi Bp].
    destruct i as [c' |]; [| discriminate]. cbn [benign_item] in Bi.
    cbn [app map expected_item norm_all kf_walk]. rewrite Bi, (ok_expected c' Bi). apply IH; exact Bp.
Qed.

Lemma kf_of_bad c : benign_conn c = false -> kf_of_kind (kind_of c) <> 0%Z.
Proof. unfold benign_conn. destruct (kind_of c); cbn; try discriminate; lia. Qed.

(** For EVERY list of connection scripts: unless the run shows exactly one of
    the three recorded failure patterns, the pre-fix exporter satisfies the
    property oracle. *)
Theorem before_fix_all : forall items,
  let o := obs_of items (run_with step_before_fix items) in
  kf_before_fix (items, o) = 0%Z -> ok_C20 items o = true.
Proof.
  intros items o K. unfold ok_C20, kf_before_fix in *. cbn [fst snd] in *.
  destruct (no_accept_err items) eqn:N; [| reflexivity].
  destruct (benign items) eqn:B.
  - unfold o, obs_of. rewrite (benign_all_run items B). cbn [fst snd].
    rewrite (ok_all_benign items B). reflexivity.
  - exfalso. destruct (split_first_bad items N B) as (pre & c & post & E & Bp & Bc).
    unfold o, obs_of in K. rewrite E in K. rewrite (bad_run pre c post Bp Bc) in K. cbn [fst snd] in K.
    rewrite (kf_walk_bad pre c post _ Bp Bc eq_refl) in K. exact (kf_of_bad c Bc K).
Qed.

(** [serves_next] in terms of the oracle: benign lists are served completely. *)
Theorem before_fix_benign_ok : forall items,
  benign items = true -> ok_C20 items (obs_of items (run_with step_before_fix items)) = true.
Proof.
  intros items B. unfold ok_C20. destruct (no_accept_err items); [| reflexivity].
  unfold obs_of. rewrite (benign_all_run items B). cbn [fst snd].
  rewrite (ok_all_benign items B). reflexivity.
Qed.

(** * ===================================================================
    * THE CODE AS IT IS [step_fixed]: unrestricted [serves_next], and what
    * reaches the clients (the response buffer lives across requests)
    * =================================================================== *)

Definition accB (p : list item) (lg : list cout) (rb : list Z) (wr : list (list Z)) : cfg :=
  mkCfg Accepting p lg rb wr.
Definition rdB rs h w buf (p : list item) (lg : list cout) (rb : list Z) (wr : list (list Z)) : cfg :=
  mkCfg (Reading rs h w buf) p lg rb wr.

(** After the header terminator: a GET calls the handler on the CLEARED buffer
    (the buffer then holds exactly what this handler call appended); anything
    else drops the connection and leaves the buffer alone. *)
Definition after_foundB (b : list Z) (h : hres) (w : wres) p lg rb wr : cfg :=
  if starts_get b then mkCfg (Responding (status_of h) w) p lg (hnd_out h) wr
  else accB p (lg ++ [ODropped]) rb wr.

Lemma accept_step_fixed c p lg rb wr :
  step_fixed (accB (Conn c :: p) lg rb wr) = rdB (c_reads c) (c_hnd c) (c_wr c) [] p lg rb wr.
Proof. reflexivity. Qed.

Lemma read_small_fixed rs : forall buf h w p lg rb wr,
  has_term buf = false -> length buf < BUFn ->
  match read_loop rs buf with
  | RFound b => reaches step_fixed (length rs) (rdB rs h w buf p lg rb wr) (after_foundB b h w p lg rb wr)
                /\ has_term b = true
  | _ => reaches step_fixed (S (length rs)) (rdB rs h w buf p lg rb wr) (accB p (lg ++ [ODropped]) rb wr)
  end.
Proof.
  induction rs as [| r rest IH]; intros buf h w p lg rb wr Ht Hl.
  - cbn [read_loop]. apply reaches_step. cbn. apply reaches_refl.
  - destruct r as [b bs | |].
    + cbn [read_loop length].
      set (n := BUFn - length buf).
      set (buf' := buf ++ firstn n (b :: bs)).
      assert (Hstep : step_fixed (rdB (RChunk b bs :: rest) h w buf p lg rb wr) =
                if has_term buf' then after_foundB buf' h w p lg rb wr
                else if BUFn <=? length buf' then accB p (lg ++ [ODropped]) rb wr
                else rdB (mk_chunk (skipn n (b :: bs)) rest) h w buf' p lg rb wr).
      { unfold step_fixed, rdB; cbn [st pending log rbuf wire]. fold n. fold buf'. unfold after_foundB.
        destruct (has_term buf'); [| destruct (BUFn <=? length buf'); reflexivity].
        destruct (starts_get buf'); reflexivity. }
      destruct (has_term buf') eqn:Hb.
      * split; [| exact Hb]. apply reaches_step. rewrite Hstep. apply reaches_refl.
      * destruct (BUFn <=? length buf') eqn:Hlen.
        -- apply reaches_step. rewrite Hstep. apply reaches_refl.
        -- apply Nat.leb_gt in Hlen.
           assert (Hfl : length (firstn n (b :: bs)) < n).
           { subst buf'. rewrite app_length in Hlen. subst n. lia. }
           destruct (skipn_nil_firstn _ _ Hfl) as [Hf Hs].
           assert (Hstep' : step_fixed (rdB (RChunk b bs :: rest) h w buf p lg rb wr)
                            = rdB rest h w buf' p lg rb wr).
           { rewrite Hstep. rewrite Hs. reflexivity. }
           specialize (IH buf' h w p lg rb wr Hb Hlen).
           destruct (read_loop rest buf') as [fb | rs' sb |].
           ++ destruct IH as [IH1 IH2]. split; [| exact IH2].
              apply reaches_step. rewrite Hstep'. exact IH1.
           ++ apply reaches_step. rewrite Hstep'. exact IH.
           ++ apply reaches_step. rewrite Hstep'. exact IH.
    + cbn [read_loop length]. apply reaches_step. cbn. apply reaches_refl.
    + cbn [read_loop length]. apply reaches_step. cbn. apply reaches_refl.
Qed.

Definition expected_fixed (c : conn) : cout :=
  match kind_of c with
  | KGet => OStatus (status_of (c_hnd c))
  | _ => ODropped
  end.
Definition expected_fixed_item (i : item) : cout :=
  match i with Conn c => expected_fixed c | AcceptErr => ONone end.

(** The response buffer after a connection: the handler is called exactly for
    complete GET requests (whether or not the client is still there). *)
Definition rb_after (c : conn) (rb : list Z) : list Z :=
  match kind_of c with
  | KGet | KGetRst => hnd_out (c_hnd c)
  | _ => rb
  end.
Definition rb_after_item (rb : list Z) (i : item) : list Z :=
  match i with Conn c => rb_after c rb | AcceptErr => rb end.

Lemma to_write_reply h : to_write (status_of h) (hnd_out h) = reply_bytes h.
Proof. destruct h; reflexivity. Qed.

(** Every connection, whatever the client and the sockets do and WHATEVER the
    response buffer holds when it arrives, is finished within its step budget,
    the exporter is back at [accept], and what went onto the wire is exactly
    [wire_of c] - a function of this connection's script alone. *)
Lemma conn_fixed c p lg rb wr :
  reaches step_fixed (item_cost (Conn c)) (accB (Conn c :: p) lg rb wr)
          (accB p (lg ++ [expected_fixed c]) (rb_after c rb) (wr ++ wire_of c))
  /\ (kind_of c = KGet ->
      reaches step_fixed (1 + length (c_reads c)) (accB (Conn c :: p) lg rb wr)
              (mkCfg (Responding (status_of (c_hnd c)) WOk) p lg (hnd_out (c_hnd c)) wr)).
Proof.
  pose proof (kind_read c) as K.
  pose proof (read_small_fixed (c_reads c) [] (c_hnd c) (c_wr c) p lg rb wr eq_refl BUFn_pos) as R.
  unfold expected_fixed, rb_after, wire_of. cbn [item_cost].
  destruct (read_loop (c_reads c) []) as [b | rs' b |].
  - destruct R as [R Hb]. rewrite (K Hb). unfold after_foundB in R.
    destruct (starts_get b).
    + destruct (c_wr c) eqn:W.
      * split.
        -- replace (2 + length (c_reads c)) with ((1 + length (c_reads c)) + 1) by lia.
           eapply reaches_trans.
           ++ apply reaches_step. rewrite accept_step_fixed, W. exact R.
           ++ apply reaches_step. unfold step_fixed; cbn [st pending log rbuf wire].
              rewrite to_write_reply. apply reaches_refl.
        -- intros _. apply reaches_step. rewrite accept_step_fixed, W. exact R.
      * split; [| discriminate].
        replace (2 + length (c_reads c)) with ((1 + length (c_reads c)) + 1) by lia.
        eapply reaches_trans.
        -- apply reaches_step. rewrite accept_step_fixed, W. exact R.
        -- apply reaches_step. unfold step_fixed; cbn [st pending log rbuf wire].
           rewrite app_nil_r. apply reaches_refl.
    + split; [| discriminate]. rewrite app_nil_r.
      eapply reaches_weaken; [| apply reaches_step; rewrite accept_step_fixed; exact R]. lia.
  - assert (G : reaches step_fixed (2 + length (c_reads c)) (accB (Conn c :: p) lg rb wr)
                  (accB p (lg ++ [ODropped]) rb wr)).
    { apply reaches_step. rewrite accept_step_fixed. exact R. }
    destruct K as [-> | ->]; rewrite app_nil_r; (split; [exact G | discriminate]).
  - rewrite K, app_nil_r. split; [| discriminate]. apply reaches_step. rewrite accept_step_fixed. exact R.
Qed.

Lemma fixed_run pre : forall p lg rb wr,
  no_accept_err pre = true ->
  reaches step_fixed (bound pre) (accB (pre ++ p) lg rb wr)
          (accB p (lg ++ map expected_fixed_item pre) (fold_left rb_after_item pre rb)
                (wr ++ expected_wire pre)).
Proof.
  induction pre as [| i pre IH]; intros p lg rb wr N.
  - cbn. rewrite !app_nil_r. apply reaches_refl.
  - cbn [no_accept_err forallb] in N. destruct i as [c |]; [| discriminate]. cbn [andb] in N.
    unfold expected_wire.
    cbn [bound app map expected_fixed_item fold_left rb_after_item flat_map wire_of_item].
    eapply reaches_trans; [apply conn_fixed |].
    replace (lg ++ expected_fixed c :: map expected_fixed_item pre)
      with ((lg ++ [expected_fixed c]) ++ map expected_fixed_item pre)
      by (rewrite <- app_assoc; reflexivity).
    rewrite (app_assoc wr). apply IH. exact N.
Qed.

Lemma exited_stays_fixed s : st s = Exited -> forall k, st (iter k step_fixed s) = Exited.
Proof.
  intros H k. revert s H. induction k; intros s H; cbn [iter]; [exact H |].
  apply IHk. unfold step_fixed. rewrite H. exact H.
Qed.

Lemma fixed_final items :
  no_accept_err items = true ->
  iter (bound items) step_fixed (init items)
  = accB [] (map expected_fixed_item items) (fold_left rb_after_item items []) (expected_wire items).
Proof.
  intros N. pose proof (fixed_run items [] [] [] [] N) as R. rewrite app_nil_r in R. cbn [app] in R.
  unfold init. change (mkCfg Accepting items [] [] []) with (accB items [] [] []).
  apply (reaches_fix step_fixed _ _ _ R); [reflexivity | apply le_n].
Qed.

Lemma fixed_all_run items :
  no_accept_err items = true ->
  run_with step_fixed items = (map expected_fixed_item items, FIdle).
Proof.
  intros N. unfold run_with. rewrite (fixed_final items N).
  unfold accB, final_of, pad_log; cbn [st pending log].
  rewrite map_length. replace (length items - length items) with 0 by lia. cbn [repeat].
  rewrite app_nil_r. reflexivity.
Qed.

(** WHAT REACHES THE CLIENTS, for every list of connection scripts: exactly one
    byte string per well-formed GET whose client is still there - the response
    the handler formatted for THAT request's observation (or the constant 500
    response) - and nothing else; in particular nothing an earlier request left
    in the buffer (after a failed write, a failed handler, a dropped request). *)
Theorem wire_fresh_fixed : forall items,
  no_accept_err items = true -> run_wire_with step_fixed items = expected_wire items.
Proof. intros items N. unfold run_wire_with. rewrite (fixed_final items N). reflexivity. Qed.

(** UNRESTRICTED [serves_next] for the repaired loop: after ANY finite list of
    connection scripts (any chunking, premature close, oversize, reset, write
    error on the 200 or the 500 path, any handler outcome) a well-formed request
    is being answered within the step budget - with a buffer that holds exactly
    what the handler produced for THIS request -; the process never exits; the
    bytes the client receives are [reply_bytes (c_hnd last)], whatever [pre] was. *)
Theorem serves_next_fixed : forall pre last,
  no_accept_err pre = true -> wellformed_get last = true ->
  let items := pre ++ [Conn last] in
  (exists n, n <= bound items /\
     iter n step_fixed (init items)
     = mkCfg (Responding (status_of (c_hnd last)) WOk) [] (map expected_fixed_item pre)
             (hnd_out (c_hnd last)) (expected_wire pre))
  /\ (forall m, st (iter m step_fixed (init items)) <> Exited)
  /\ run_with step_fixed items
     = (map expected_fixed_item pre ++ [OStatus (status_of (c_hnd last))], FIdle)
  /\ run_wire_with step_fixed items = expected_wire pre ++ [reply_bytes (c_hnd last)].
Proof.
  intros pre last N W items. unfold wellformed_get in W.
  assert (K : kind_of last = KGet) by (destruct (kind_of last); try discriminate; reflexivity).
  pose proof (fixed_run pre [Conn last] [] [] [] N) as R1. cbn [app] in R1.
  set (rb := fold_left rb_after_item pre []) in *.
  destruct (conn_fixed last [] (map expected_fixed_item pre) rb (expected_wire pre)) as [R3 R2].
  specialize (R2 K).
  assert (R : reaches step_fixed (bound pre + (1 + length (c_reads last))) (init items)
               (mkCfg (Responding (status_of (c_hnd last)) WOk) [] (map expected_fixed_item pre)
                      (hnd_out (c_hnd last)) (expected_wire pre))).
  { eapply reaches_trans; [exact R1 | exact R2]. }
  assert (Hb : bound items = bound pre + (2 + length (c_reads last))).
  { unfold items. rewrite bound_app. cbn [bound item_cost]. lia. }
  assert (Ex : expected_fixed last = OStatus (status_of (c_hnd last))).
  { unfold expected_fixed. rewrite K. reflexivity. }
  assert (Ew : wire_of last = [reply_bytes (c_hnd last)]).
  { unfold wire_of. rewrite K. reflexivity. }
  set (A := accB [] (map expected_fixed_item pre ++ [OStatus (status_of (c_hnd last))])
                 (rb_after last rb) (expected_wire pre ++ [reply_bytes (c_hnd last)])).
  assert (RA : reaches step_fixed (bound items) (init items) A).
  { rewrite Hb. replace (bound pre + (2 + length (c_reads last)))
      with (bound pre + item_cost (Conn last)) by (cbn [item_cost]; lia).
    unfold A. rewrite <- Ex, <- Ew. eapply reaches_trans; [exact R1 | exact R3]. }
  assert (FA : step_fixed A = A) by reflexivity.
  split; [| split; [| split]].
  - destruct R as (n & Hn & E). exists n. split; [lia | exact E].
  - intros m. destruct RA as (n & Hn & E).
    destruct (Nat.le_gt_cases m n) as [Hm | Hm].
    + intros Em. assert (X : st (iter n step_fixed (init items)) = Exited).
      { replace n with (m + (n - m)) by lia. rewrite iter_add. apply exited_stays_fixed. exact Em. }
      rewrite E in X. discriminate.
    + replace m with (n + (m - n)) by lia. rewrite iter_add, E.
      rewrite iter_fix by exact FA. discriminate.
  - unfold run_with. rewrite (reaches_fix step_fixed _ _ _ RA FA _ (le_n _)).
    unfold A, accB, final_of, pad_log; cbn [st pending log].
    unfold items. rewrite !app_length, map_length. cbn [length].
    replace (length pre + 1 - (length pre + 1)) with 0 by lia. cbn [repeat].
    rewrite app_nil_r. reflexivity.
  - unfold run_wire_with. rewrite (reaches_fix step_fixed _ _ _ RA FA _ (le_n _)). reflexivity.
Qed.

(** The reply to a request is a function of that request's script alone: two
    arbitrary histories lead to the same bytes for the same final request. *)
Theorem reply_independent_of_history_fixed : forall pre pre' last,
  no_accept_err pre = true -> no_accept_err pre' = true -> wellformed_get last = true ->
  List.last (run_wire_with step_fixed (pre ++ [Conn last])) [] = reply_bytes (c_hnd last)
  /\ List.last (run_wire_with step_fixed (pre' ++ [Conn last])) [] = reply_bytes (c_hnd last).
Proof.
  intros pre pre' lst N N' W.
  destruct (serves_next_fixed pre lst N W) as (_ & _ & _ & E).
  destruct (serves_next_fixed pre' lst N' W) as (_ & _ & _ & E').
  rewrite E, E', !last_last. split; reflexivity.
Qed.

Lemma ok_expected_fixed c : ok_conn c (norm (Conn c) (expected_fixed c)) = true.
Proof.
  unfold ok_conn, norm, expected_fixed. destruct (c_gone c); [reflexivity |].
  destruct (kind_of c); cbn [cout_eqb]; try reflexivity. apply Z.eqb_refl.
Qed.

(** The repaired loop satisfies the property oracle for EVERY input, with no
    known-finding exemption. *)
Theorem C20_fixed_all : forall items,
  ok_C20 items (obs_of items (run_with step_fixed items)) = true.
Proof.
  intros items. unfold ok_C20. destruct (no_accept_err items) eqn:N; [| reflexivity].
  unfold obs_of. rewrite (fixed_all_run items N). cbn [fst snd]. rewrite andb_true_r.
  clear N. induction items as [| i items IH]; [reflexivity |].
  destruct i as [c |]; cbn [map expected_fixed_item norm_all ok_all].
  - rewrite ok_expected_fixed. exact IH.
  - exact IH.
Qed.

(** * The model that is tied to the binary ([run] = [run_with step_impl],
    [step_impl] = [step_fixed] = exporter.rs after the F19 repair b7381c9) *)

(** No exemption: every finite list of connection scripts is served as the
    property demands. *)
Theorem C20_impl_all : forall items, ok_C20 items (obs_of items (run items)) = true.
Proof. exact C20_fixed_all. Qed.

Theorem serves_next_impl : forall pre last,
  no_accept_err pre = true -> wellformed_get last = true ->
  let items := pre ++ [Conn last] in
  (exists n, n <= bound items /\
     iter n step_impl (init items)
     = mkCfg (Responding (status_of (c_hnd last)) WOk) [] (map expected_fixed_item pre)
             (hnd_out (c_hnd last)) (expected_wire pre))
  /\ (forall m, st (iter m step_impl (init items)) <> Exited)
  /\ run items = (map expected_fixed_item pre ++ [OStatus (status_of (c_hnd last))], FIdle)
  /\ run_wire items = expected_wire pre ++ [reply_bytes (c_hnd last)].
Proof. exact serves_next_fixed. Qed.

Theorem wire_fresh_impl : forall items,
  no_accept_err items = true -> run_wire items = expected_wire items.
Proof. exact wire_fresh_fixed. Qed.

Theorem reply_independent_of_history_impl : forall pre pre' last,
  no_accept_err pre = true -> no_accept_err pre' = true -> wellformed_get last = true ->
  List.last (run_wire (pre ++ [Conn last])) [] = reply_bytes (c_hnd last)
  /\ List.last (run_wire (pre' ++ [Conn last])) [] = reply_bytes (c_hnd last).
Proof. exact reply_independent_of_history_fixed. Qed.

Theorem accept_error_exits_impl : forall n p lg rb wr,
  iter (S n) step_impl (accB (AcceptErr :: p) lg rb wr) = mkCfg Exited p lg rb wr.
Proof.
  intros. cbn [iter]. change (step_impl (accB (AcceptErr :: p) lg rb wr)) with (mkCfg Exited p lg rb wr).
  apply iter_fix. reflexivity.
Qed.

(** Witnesses that the pre-fix loop violated the statement (historic). *)
Definition GET_BYTES : list Z :=
  [71; 69; 84; 32; 47; 32; 72; 84; 84; 80; 47; 49; 46; 49; 13; 10; 13; 10]%Z.
Definition good_get : conn := mkConn (mk_chunk GET_BYTES []) (HOk [50%Z; 48%Z; 48%Z]) WOk false.

Lemma serves_next_refuted_eof :
  run_with step_before_fix [Conn (mkConn [REof] (HOk []) WOk false); Conn good_get] = ([ONone; ONone], FSpin).
Proof. vm_compute. reflexivity. Qed.

Lemma serves_next_refuted_oversize :
  run_with step_before_fix [Conn (mkConn [RChunk 65 (repeat 65%Z 2999)] (HOk []) WOk false); Conn good_get]
  = ([ONone; ONone], FSpin).
Proof. vm_compute. reflexivity. Qed.

Lemma serves_next_refuted_reset :
  run_with step_before_fix [Conn (mkConn [RChunk 71 [69%Z]; RErr] (HOk []) WOk true); Conn good_get]
  = ([ONone; ONone], FExit).
Proof. vm_compute. reflexivity. Qed.

(** Hostile clients, a failing handler that left half a response in the buffer,
    write errors on the 200 AND on the 500 path, then a well-formed GET: every
    client is treated as the property demands and the wire carries exactly the
    500 response and the last request's own response. *)
Definition hostile_pre : list item :=
  [Conn (mkConn [REof] (HOk []) WOk false);
   Conn (mkConn [RChunk 65 (repeat 65%Z 2999)] (HOk []) WOk false);
   Conn (mkConn [RChunk 71 [69%Z]; RErr] (HOk []) WOk true);
   Conn (mkConn (mk_chunk GET_BYTES []) (HErr [1%Z; 2%Z]) WOk false);
   Conn (mkConn (mk_chunk GET_BYTES []) (HOk [3%Z; 4%Z; 5%Z]) WErr true);
   Conn (mkConn (mk_chunk GET_BYTES []) (HErr [6%Z]) WErr true)].

Lemma serves_next_fixed_witness :
  run_with step_fixed (hostile_pre ++ [Conn good_get])
  = ([ODropped; ODropped; ODropped; OStatus 500; ODropped; ODropped; OStatus 200], FIdle)
  /\ run_wire_with step_fixed (hostile_pre ++ [Conn good_get]) = [ERR_BYTES; [50; 48; 48]%Z].
Proof. vm_compute. split; reflexivity. Qed.

(** Two faults at once (the handler fails AND the client has reset, so writing
    the 500 response fails), then the same on the 200 path: both survived. *)
Theorem write_errors_survived : forall o e lst,
  wellformed_get lst = true ->
  run [Conn (mkConn (mk_chunk GET_BYTES []) (HErr e) WErr true);
       Conn (mkConn (mk_chunk GET_BYTES []) (HOk o) WErr true); Conn lst]
  = ([ODropped; ODropped; OStatus (status_of (c_hnd lst))], FIdle).
Proof.
  intros o e lst W.
  destruct (serves_next_impl
              [Conn (mkConn (mk_chunk GET_BYTES []) (HErr e) WErr true);
               Conn (mkConn (mk_chunk GET_BYTES []) (HOk o) WErr true)] lst eq_refl W)
    as (_ & _ & E & _).
  exact E.
Qed.

(** * The counterfactual "clear after a successful write" is told apart

    For ALL handler outputs o1, o2: a client that resets while its response is
    pending (write error), followed by a well-formed GET.  The code as it is
    delivers [o2]; the counterfactual loop delivers the stale [o1] followed by
    [o2] - while the status codes and the final state are the same. *)
Definition reset_then_get (o1 o2 : list Z) : list item :=
  [Conn (mkConn (mk_chunk GET_BYTES []) (HOk o1) WErr true);
   Conn (mkConn (mk_chunk GET_BYTES []) (HOk o2) WOk false)].

Theorem clear_after_write_refuted : forall o1 o2,
  run_wire_with step_clear_after_write (reset_then_get o1 o2) = [o1 ++ o2]
  /\ run_wire_with step_fixed (reset_then_get o1 o2) = [o2]
  /\ expected_wire (reset_then_get o1 o2) = [o2]
  /\ run_with step_clear_after_write (reset_then_get o1 o2) = run_with step_fixed (reset_then_get o1 o2).
Proof. intros o1 o2. repeat split; reflexivity. Qed.

(** ... and it heals itself with the next successful write, which is why no
    status-code or liveness observation can see it. *)
Theorem clear_after_write_self_heals : forall o1 o2 o3,
  run_wire_with step_clear_after_write
    (reset_then_get o1 o2 ++ [Conn (mkConn (mk_chunk GET_BYTES []) (HOk o3) WOk false)])
  = [o1 ++ o2; o3].
Proof. intros. reflexivity. Qed.
