(** Reader-writer lock sections and snapshot atomicity (C17).
    A thread is a sequence of atomic sections on the shared instance state;
    the lock serialises sections (readers may overlap readers, which is
    indistinguishable from some serial order of read sections).  The runtime's
    RwLock semantics (fairness, poisoning) are trusted, not modelled. *)
From SV Require Import Base.Prelude.

Section Sections.
  Variable S : Type.          (* the shared instance state *)
  Variable V : Type.          (* what a reader extracts *)

  Inductive section :=
  | Read (view : S -> V)
  | Write (upd : S -> S).

  (** a serial order of sections (any interleaving of the threads' sections
      under the lock is such an order) *)
  Fixpoint exec (l : list section) (s : S) (obs : list V) : S * list V :=
    match l with
    | [] => (s, rev obs)
    | Read view :: l' => exec l' s (view s :: obs)
    | Write upd :: l' => exec l' (upd s) obs
    end.

  Definition writes (l : list section) : list (S -> S) :=
    flat_map (fun x => match x with Write u => [u] | Read _ => [] end) l.

  Definition after (us : list (S -> S)) (s : S) : S := fold_left (fun acc u => u acc) us s.

  (** Every value observed by a read section is the view of the state after a
      whole number of write sections: a reader never sees a partially applied
      write section.  Hence, if every logical update of the data sets is ONE
      write section, every snapshot shows the values of a single update. *)
  Lemma exec_obs l : forall s obs v,
    In v (snd (exec l s obs)) ->
    In v obs \/ exists k view, In (Read view) l /\ v = view (after (firstn k (writes l)) s).
  Proof.
    induction l as [|x l IH]; intros s obs v H; cbn [exec snd] in H.
    - left. apply in_rev. exact H.
    - destruct x as [view|upd].
      + apply IH in H. destruct H as [H|(k & vw & Hin & Hv)].
        * destruct H as [<-|H]; [|left; exact H].
          right. exists 0%nat, view. split; [left; reflexivity|reflexivity].
        * right. exists k, vw. split; [right; exact Hin|exact Hv].
      + apply IH in H. destruct H as [H|(k & vw & Hin & Hv)]; [left; exact H|].
        right. exists (Datatypes.S k), vw. split; [right; exact Hin|].
        cbn [writes flat_map app firstn after fold_left]. exact Hv.
  Qed.

  Theorem snapshot_atomic l s v :
    In v (snd (exec l s [])) ->
    exists k view, In (Read view) l /\ v = view (after (firstn k (writes l)) s).
  Proof. intros H. apply exec_obs in H. destruct H as [[]|H]. exact H. Qed.
End Sections.
