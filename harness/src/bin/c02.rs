//! C02 (filter level): closed loop of the real KalmanFilter with the plant of c13.rs
//! over the property's ranges.  (exploration version)
#![allow(dead_code)]
#[path = "c13.rs"]
mod base;
use base::*;
use statime::filters::KalmanFilter;
use svh::*;

fn main() {
    let a = parse_args();
    silence_panics();
    for i in a.start..a.start + a.count {
        let mut r = Rng::new(a.seed, i);
        let log_int = r.range(-3, 1);
        let interval = if log_int >= 0 { (NS * FRAC) << log_int } else { (NS * FRAC) >> (-log_int) };
        let theta0 = (r.below(20_000_001) as f64 - 10_000_000.0) * 1e-6;
        let f0 = r.below(300_001) as f64 * 1e-3 - 150.0;
        let delay = (1_000 + r.below(399_001) as i128) * FRAC;
        let jit = (r.below(20_001) as i128) * FRAC;
        let mut plant = Plant::new(Rng(r.next()));
        plant.theta = sec_bits(theta0);
        plant.f0 = f0;
        plant.latency = 1000 * FRAC;
        let secs = a.extra.iter().position(|x| x == "--secs").and_then(|p| a.extra.get(p + 1)).and_then(|x| x.parse().ok()).unwrap_or(120.0f64);
        let int_s = interval as f64 / (1e9 * 4294967296.0);
        let n = (2.0 * secs / int_s) as usize;
        let mut jr = Rng(r.next());
        let mut want_delay = false;
        let mut trace: Vec<(f64, f64)> = vec![];
        let mut elapsed: i128 = 0;
        let mut steps_at: Vec<f64> = vec![];
        let t0 = plant.l;
        let (_events, obs) = run_stream::<KalmanFilter>(default_cfg(), &mut plant, |p, k| {
            if k >= n {
                return None;
            }
            let adv = if want_delay { interval / 16 } else { interval - interval / 16 };
            p.advance(adv);
            elapsed += adv;
            let j = if jit == 0 { 0 } else { (jr.next() as i128 % (2 * jit + 1)) - jit };
            let t = p.l;
            let ev = if want_delay {
                meas(t, None, Some(delay + j), None, None, Some(p.theta - delay + j))
            } else {
                meas(t, Some(p.theta + j), None, None, Some(p.theta + delay + j), None)
            };
            want_delay = !want_delay;
            trace.push((elapsed as f64 / (1e9 * 4294967296.0), p.theta as f64 / 4294967296.0));
            Some(ev)
        });
        for (k, o) in obs.iter().enumerate() {
            if o.cmds.iter().any(|c| matches!(c, Cmd::Step(_))) {
                steps_at.push(trace.get(k).map(|x| x.0).unwrap_or(-1.0));
            }
        }
        // time after which |theta| stays below band
        let band = (4.0 * jit as f64 / 4294967296.0).max(1000.0);
        let mut tconv = -1.0;
        for k in (0..trace.len()).rev() {
            if trace[k].1.abs() > band {
                tconv = trace.get(k + 1).map(|x| x.0).unwrap_or(f64::INFINITY);
                break;
            }
        }
        let tail_max = trace.iter().filter(|x| x.0 > secs - 60.0).map(|x| x.1.abs()).fold(0.0, f64::max);
        let ratio = tail_max / (jit as f64 / 4294967296.0 + 1000.0);
        let last_step = steps_at.iter().cloned().fold(0.0, f64::max);
        if a.extra.iter().any(|x| x == "--summary") {
            println!("S {} {:.3} {:.2} {:.2} {}", i, ratio, last_step, tconv, log_int);
            continue;
        }
        println!(
            "{} int={} theta0={:.3} f0={:.1} delay_us={} jit_ns={} band_ns={:.0} tconv={:.1} tailmax_ns={:.0} steps={:?} panic={}",
            i, log_int, theta0, f0, delay / FRAC / 1000, jit / FRAC, band, tconv, tail_max, steps_at, obs.last().map(|o| o.res.is_none()).unwrap_or(false)
        );
    }
}
