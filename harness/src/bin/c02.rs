//! C02 (filter level): the real `KalmanFilter` (default configuration) in closed loop with
//! the plant of `c13.rs` over the property's ranges: initial offset in [-10 s, 10 s],
//! oscillator error within +-150 ppm, one-way delay in [1 us, 400 us], jitter amplitude in
//! [0, 20 us], sync interval in {2^-3 .. 2^1 s}, alternating Sync / Delay_Resp measurements.
//!
//! A case carries
//!   * the plant parameters and the jitter script of the first `PREFIX` events, from which the
//!     Coq closed loop (plant model + Kalman model) must regenerate the same measurements,
//!     clock replies and commands bit for bit;
//!   * the events / replies / observations of that prefix (same format as C13);
//!   * for the rest of the run (180 s of simulated time), the true offset and whether the
//!     clock was stepped, sampled at every event at or after `T_CONV` = 120 s: the convergence
//!     predicate of the property is evaluated on these in Coq.
#![allow(dead_code)]
#[path = "c13.rs"]
mod base;
use base::*;
use statime::filters::KalmanFilter;
use svh::*;

const PREFIX: usize = 120;
const T_CONV_S: i128 = 120;
const HORIZON_S: i128 = 180;

fn gen(i: u64, r: &mut Rng) -> (String, String) {
    // boundary lattice on the first indices, then uniform
    let log_int = if i < 5 { i as i64 - 3 } else { r.range(-3, 1) };
    let interval = if log_int >= 0 { (NS * FRAC) << log_int } else { (NS * FRAC) >> (-log_int) };
    let theta0: i128 = match r.below(6) {
        0 => 10 * NS * FRAC,
        1 => -10 * NS * FRAC,
        2 => (r.below(2_000_001) as i128 - 1_000_000) * FRAC, // +-1 ms: around the step threshold
        _ => (r.below(20_000_001) as i128 - 10_000_000) * 1_000 * FRAC,
    };
    let f0 = match r.below(6) {
        0 => 150.0,
        1 => -150.0,
        _ => r.below(300_001) as f64 * 1e-3 - 150.0,
    };
    let delay = match r.below(6) {
        0 => 1_000 * FRAC,
        1 => 400_000 * FRAC,
        _ => (1_000 + r.below(399_001) as i128) * FRAC,
    };
    let jit = match r.below(6) {
        0 => 0,
        1 => 20_000 * FRAC,
        _ => (r.below(20_001) as i128) * FRAC,
    };
    let latency = 1000 * FRAC;
    let mut plant = Plant::new(Rng(r.next()));
    let l0 = plant.l;
    plant.theta = theta0;
    plant.f0 = f0;
    plant.latency = latency;
    let mut jr = Rng(r.next());
    let mut want_delay = false;
    let mut elapsed: i128 = 0;
    let mut jitters: Vec<i128> = vec![];
    let mut samples: Vec<(i128, i128)> = vec![]; // (elapsed bits, theta bits) per event
    let (events, obs) = run_stream::<KalmanFilter>(default_cfg(), &mut plant, |p, _k| {
        if elapsed >= HORIZON_S * NS * FRAC {
            return None;
        }
        let adv = if want_delay { interval / 16 } else { interval - interval / 16 };
        p.advance(adv);
        elapsed += adv;
        let j = if jit == 0 { 0 } else { (jr.next() as i128 % (2 * jit + 1)) - jit };
        jitters.push(j);
        let t = p.l;
        let ev = if want_delay {
            meas(t, None, Some(delay + j), None, None, Some(p.theta - delay + j))
        } else {
            meas(t, Some(p.theta + j), None, None, Some(p.theta + delay + j), None)
        };
        want_delay = !want_delay;
        samples.push((elapsed, p.theta));
        Some(ev)
    });
    let n = events.len().min(PREFIX);
    // replies consumed by the first n events = number of commands they issued
    let ncmds: usize = obs.iter().take(n).map(|o| o.cmds.len()).sum();
    let mut tail = vec![];
    let mut late_step = false;
    let mut worst: f64 = 0.0;
    for (k, (el, th)) in samples.iter().enumerate() {
        if *el >= T_CONV_S * NS * FRAC {
            let stepped = obs.get(k).map(|o| o.cmds.iter().any(|c| matches!(c, Cmd::Step(_)))).unwrap_or(false);
            late_step |= stepped;
            worst = worst.max(*th as f64 / (jit + 1000 * FRAC) as f64);
            tail.push(format!("({}, {})", zi(*th), coq_bool(stepped)));
        }
    }
    let panicked = obs.iter().any(|o| o.res.is_none());
    let steps = obs.iter().filter(|o| o.cmds.iter().any(|c| matches!(c, Cmd::Step(_)))).count();
    let class = format!(
        "int{}:steps{}:{}{}{}",
        log_int,
        steps.min(9),
        if worst.abs() <= 0.25 { "tight" } else if worst.abs() <= 1.0 { "inband" } else { "OUT" },
        if late_step { ":LATESTEP" } else { "" },
        if panicked { ":panic" } else { "" }
    );
    let term = format!(
        "(C02Params {} {} {} {} {} {} {}, {}, {}, {}, {}, {}, {})",
        zmag(l0 as u128),
        zi(theta0),
        fz(f0),
        zi(delay),
        zi(interval),
        zi(latency),
        zi(jit),
        coq_bool(!cfg!(debug_assertions)),
        zlist(jitters.iter().take(n).map(|j| zi(*j))),
        zlist(events.iter().take(n).map(ev_coq)),
        zlist(plant.replies.iter().take(ncmds).map(|x| match x {
            Some(t) => format!("Some {}", zmag(*t)),
            None => "None".into(),
        })),
        zlist(obs.iter().take(n).map(obs_coq)),
        zlist(tail)
    );
    (class, term)
}

fn main() {
    drive(gen);
}
