//! C16: public Time / Duration / TimeInterval / WireTimestamp API on bit patterns.
use fixed::types::{I96F32, U96F32};
use statime::time::{Duration, Time};
use svh::*;

fn time(bits: u128) -> Time {
    Time::from_fixed_nanos(U96F32::from_bits(bits))
}
fn dur(bits: i128) -> Duration {
    Duration::from_fixed_nanos(I96F32::from_bits(bits))
}
fn tb(t: Time) -> i128 {
    // Coq Z printing: times above i128::MAX are printed through u128 separately
    t.nanos().to_bits() as i128
}
fn tzu(t: Time) -> String {
    zu(t.nanos().to_bits())
}
fn db(d: Duration) -> String {
    z(d.nanos().to_bits())
}

const NS: u128 = 1_000_000_000;
const FRAC: u128 = 1 << 32;

fn lattice_time(r: &mut Rng) -> u128 {
    let ptp_max: u128 = (1u128 << 48) * NS * FRAC;
    let base: u128 = match r.below(10) {
        0 => 0,
        1 => r.below(4) as u128 * NS * FRAC,
        2 => (r.below(1 << 20) as u128) * NS * FRAC,
        3 => ((1u128 << 48) - 1 - r.below(3) as u128) * NS * FRAC,
        4 => (r.next() as u128 % (1u128 << 48)) * NS * FRAC,
        5 => ((1u128 << 32) - 1 + r.below(3) as u128) * NS * FRAC,
        6 => (1u128 << 63) * FRAC,
        7 => (1u128 << 64) * FRAC,
        8 => ptp_max - 1,
        _ => r.u128() % ptp_max,
    };
    let delta: i128 = match r.below(8) {
        0 => 0,
        1 => 1,
        2 => -1,
        3 => (NS * FRAC) as i128 - 1,
        4 => (r.below(1 << 16)) as i128,
        5 => -((r.below(1 << 33)) as i128),
        6 => (r.below(NS as u64) as i128) * FRAC as i128 + r.below(1 << 32) as i128,
        _ => (1i128 << 16) * (r.below(100) as i128) + r.range(-2, 2) as i128,
    };
    let v = base as i128 + delta;
    if v < 0 {
        0
    } else {
        (v as u128).min(ptp_max - 1)
    }
}

fn lattice_dur(r: &mut Rng) -> i128 {
    let max: i128 = (1i128 << 63) * FRAC as i128;
    let mag: i128 = match r.below(9) {
        0 => 0,
        1 => r.below(4) as i128,
        2 => (r.below(1 << 20)) as i128 * FRAC as i128,
        3 => max - r.below(3) as i128,
        4 => (r.next() as i128) * (r.below(1 << 31) as i128),
        5 => (NS * FRAC) as i128 + r.range(-1, 1) as i128,
        6 => (1i128 << 47) * FRAC as i128 + r.range(-70000, 70000) as i128,
        7 => (r.below(1 << 17)) as i128,
        _ => (r.u128() >> 33) as i128,
    };
    let mag = mag.min(max);
    if r.chance(1, 2) {
        -mag
    } else {
        mag
    }
}

fn rel() -> &'static str {
    coq_bool(!cfg!(debug_assertions))
}

fn out(v: Option<Vec<String>>) -> String {
    coq_opt(v, |xs| zlist(xs))
}

fn main() {
    drive(|i, r| {
        let kind = if i < 256 { 7 } else { r.below(11) };
        match kind {
            0 => {
                let t = lattice_time(r);
                let res = catch(|| {
                    let tt = time(t);
                    // the library's own Time -> WireTimestamp (+ subnano) -> Time path
                    // (crate-private types, reached through the cfg(statime_verif) hook)
                    let (s, n, f) = statime::verif::time_to_wire_timestamp(tt);
                    assert_eq!((s, n), (tt.secs(), tt.subsec_nanos()));
                    let back = statime::verif::wire_timestamp_to_time(s, n);
                    vec![zu(s as u128), zu(n as u128), z(f), tzu(back)]
                });
                ("wire_rt".into(), format!("(WireRT {}, {}, {})", zu(t), rel(), out(res)))
            }
            1 => {
                let s = match r.below(4) {
                    0 => r.below(5),
                    1 => (1u64 << 48) - 1 - r.below(3),
                    2 => r.next() >> 16,
                    _ => r.next(),
                };
                let n = match r.below(4) {
                    0 => 0,
                    1 => 999_999_999,
                    2 => r.below(1_000_000_000) as u32,
                    _ => r.next() as u32,
                };
                let res = catch(|| {
                    let t = statime::verif::wire_timestamp_to_time(s, n);
                    vec![tzu(t)]
                });
                ("from_wire".into(), format!("(FromWire {} {}, {}, {})", s, n, rel(), out(res)))
            }
            2 | 3 => {
                let t = lattice_time(r);
                let mut d = lattice_dur(r);
                if r.chance(3, 4) {
                    // keep the intermediate value representable most of the time
                    if kind == 2 && (t as i128) + d < 0 {
                        d = -d;
                    }
                    if kind == 3 && (t as i128) - d < 0 {
                        d = -d;
                    }
                }
                let res = catch(|| {
                    let t1 = if kind == 2 { time(t) + dur(d) } else { time(t) - dur(d) };
                    let t2 = if kind == 2 { t1 - dur(d) } else { t1 + dur(d) };
                    vec![tzu(t1), tzu(t2)]
                });
                let name = if kind == 2 { "AddSub" } else { "SubAdd" };
                (
                    format!("{}:{}", name, res.is_some()),
                    format!("({} {} {}, {}, {})", name, zu(t), z(d), rel(), out(res)),
                )
            }
            4 => {
                let a = lattice_time(r);
                let b = if r.chance(1, 3) { a.saturating_sub(r.below(1 << 40) as u128) } else { lattice_time(r) };
                let res = catch(|| vec![db(time(a) - time(b))]);
                ("diff".into(), format!("(Diff {} {}, {}, {})", zu(a), zu(b), rel(), out(res)))
            }
            5 => {
                let i: i64 = match r.below(5) {
                    0 => r.range(-3, 3),
                    1 => i64::MAX - r.below(3) as i64,
                    2 => i64::MIN + r.below(3) as i64,
                    3 => r.range(-(1 << 17), 1 << 17),
                    _ => r.next() as i64,
                };
                let res = catch(|| {
                    // TimeInterval -> Duration -> TimeInterval through the library's own
                    // From impls (cfg(statime_verif) hook)
                    let d: Duration = statime::verif::time_interval_to_duration(i);
                    let back = statime::verif::duration_to_time_interval(d);
                    vec![db(d), z(back)]
                });
                ("ti_rt".into(), format!("(TiRT {}, {}, {})", z(i), rel(), out(res)))
            }
            6 => {
                let d = lattice_dur(r);
                let res = catch(|| {
                    let i = statime::verif::duration_to_time_interval(dur(d));
                    let d2: Duration = statime::verif::time_interval_to_duration(i);
                    vec![z(i), db(d2)]
                });
                ("dur_to_ti".into(), format!("(DurToTi {}, {}, {})", z(d), rel(), out(res)))
            }
            7 => {
                let n: i8 = if i < 256 { (i as i64 - 128) as i8 } else { r.range(-128, 127) as i8 };
                let res = catch(|| vec![db(Duration::from_log_interval(n))]);
                (
                    format!("log_int:{}", n),
                    format!("(LogInt {}, {}, {})", z(n), rel(), out(res)),
                )
            }
            8 => {
                let a = lattice_dur(r);
                let b = lattice_dur(r);
                let res = catch(|| vec![db(dur(a) + dur(b)), db(dur(a) - dur(b)), db(-dur(a))]);
                ("dur_arith".into(), format!("(DurArith {} {}, {}, {})", z(a), z(b), rel(), out(res)))
            }
            9 => {
                let d = lattice_dur(r);
                let n: i32 = match r.below(4) {
                    0 => 2,
                    1 => 0,
                    2 => r.range(-5, 5) as i32,
                    _ => r.next() as i32,
                };
                let res = catch(|| vec![db(dur(d) / n)]);
                ("dur_div".into(), format!("(DurDivInt {} {}, {}, {})", z(d), z(n), rel(), out(res)))
            }
            _ => {
                let d = lattice_dur(r);
                let res = catch(|| {
                    let c: core::time::Duration = dur(d).into();
                    vec![zu(c.as_nanos())]
                });
                ("core_nanos".into(), format!("(CoreNanos {}, {}, {})", z(d), rel(), out(res)))
            }
        }
    });
    let _ = tb;
}
