//! C19 helper: how often does an f64 uptime change in the JSON hop
//! (serde_json::to_string then serde_json::from_str, as daemon -> exporter)?
//! Prints "<changed> <total> <example>" for `n` uptimes of the form
//! Duration::as_secs_f64() with nanosecond resolution.
use svh::*;
fn main() {
    let a = parse_args();
    let mut r = Rng::new(a.seed, 0);
    let (mut changed, mut example) = (0u64, String::new());
    for _ in 0..a.count {
        let secs = r.below(10_000_000);
        let nanos = r.below(1_000_000_000) as u32;
        let up = std::time::Duration::new(secs, nanos).as_secs_f64();
        let js = serde_json::to_string(&up).unwrap();
        let back: f64 = serde_json::from_str(&js).unwrap();
        if back != up {
            changed += 1;
            if example.is_empty() {
                example = format!("{} -> {}", js, back);
            }
        }
    }
    println!("{} {} {}", changed, a.count, example);
}
