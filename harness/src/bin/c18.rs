//! C18: the public `statime::OverlayClock` over a scripted underlying clock.
//!
//! One case = (start of the underlying clock, operation list, release?, observed),
//! in the concrete syntax of `Clock/OverlayCases.v`.  Every operation is
//! bracketed by `now()` readings taken while the scripted clock stands still:
//!   ONow            [r]
//!   OAdv dt         [r0; r1]            now(); underlying += dt; now()
//!   OSetFreq f      [pre; ret; post]    now(); set_frequency(f); now()
//!   OStep off       [pre; ret; post]    now(); step_clock(off); now()
//!   OConv q         [c; r]              time_from_underlying(q); now() with the
//!                                       underlying clock showing q
//! and the last entry is [reads of the underlying clock; adjustment calls that
//! reached the underlying clock].
use std::cell::{Cell, RefCell};
use std::collections::VecDeque;

use fixed::types::{I96F32, U96F32};
use statime::config::TimePropertiesDS;
use statime::time::{Duration, Time};
use statime::{Clock, OverlayClock};
use svh::*;

const NS: u128 = 1_000_000_000;
const FRAC: u128 = 1 << 32;
const SEC: u128 = NS * FRAC;

fn time(bits: u128) -> Time {
    Time::from_fixed_nanos(U96F32::from_bits(bits))
}
fn dur(bits: i128) -> Duration {
    Duration::from_fixed_nanos(I96F32::from_bits(bits))
}
fn tzu(t: Time) -> String {
    zu(t.nanos().to_bits())
}

/// Underlying clock: `now()` returns successive values of a script.
#[derive(Debug)]
struct Scripted {
    script: RefCell<VecDeque<Time>>,
    last: Cell<Time>,
    reads: Cell<u64>,
    adjustments: Cell<u64>,
}

impl Scripted {
    fn new(first: Time) -> Self {
        let mut q = VecDeque::new();
        q.push_back(first);
        Scripted {
            script: RefCell::new(q),
            last: Cell::new(first),
            reads: Cell::new(0),
            adjustments: Cell::new(0),
        }
    }
    /// The next read(s) of the clock return `t` (the script is replaced).
    fn show(&self, t: Time) {
        let mut q = self.script.borrow_mut();
        q.clear();
        q.push_back(t);
    }
}

impl Clock for Scripted {
    type Error = core::convert::Infallible;
    fn now(&self) -> Time {
        self.reads.set(self.reads.get() + 1);
        let v = self.script.borrow_mut().pop_front();
        match v {
            Some(t) => {
                self.last.set(t);
                t
            }
            // script exhausted: the clock stands still
            None => self.last.get(),
        }
    }
    fn set_frequency(&mut self, _ppm: f64) -> Result<Time, Self::Error> {
        self.adjustments.set(self.adjustments.get() + 1);
        Ok(self.last.get())
    }
    fn step_clock(&mut self, _offset: Duration) -> Result<Time, Self::Error> {
        self.adjustments.set(self.adjustments.get() + 1);
        Ok(self.last.get())
    }
    fn set_properties(&mut self, _p: &TimePropertiesDS) -> Result<(), Self::Error> {
        self.adjustments.set(self.adjustments.get() + 1);
        Ok(())
    }
}

#[derive(Clone, Debug)]
enum Op {
    Now,
    Adv(u128),
    SetFreq(f64),
    Step(i128),
    Conv(u128),
}

/// Coq term `mkf s m e` = (-1)^s * m * 2^e for a finite f64; NaN / infinities
/// are written with Coq's own constants.
fn coq_float(x: f64) -> String {
    if x.is_nan() {
        return "nan".into();
    }
    if x.is_infinite() {
        return if x > 0.0 { "infinity".into() } else { "neg_infinity".into() };
    }
    let b = x.to_bits();
    let s = (b >> 63) != 0;
    let ef = ((b >> 52) & 0x7ff) as i64;
    let frac = b & ((1u64 << 52) - 1);
    let (m, e) = if ef == 0 { (frac, -1074) } else { (frac | (1u64 << 52), ef - 1075) };
    format!("(mkf {} {} {})", coq_bool(s), m, z(e))
}

fn op_coq(o: &Op) -> String {
    match o {
        Op::Now => "ONow".into(),
        Op::Adv(d) => format!("OAdv {}", zu(*d)),
        Op::SetFreq(f) => format!("OSetFreq {}", coq_float(*f)),
        Op::Step(d) => format!("OStep {}", z(*d)),
        Op::Conv(q) => format!("OConv {}", zu(*q)),
    }
}

fn run(t0: u128, ops: &[Op]) -> Vec<Vec<String>> {
    let mut t = t0;
    let mut clock = OverlayClock::new(Scripted::new(time(t0)));
    let mut out = Vec::new();
    for o in ops {
        match o {
            Op::Now => {
                clock.underlying().show(time(t));
                out.push(vec![tzu(clock.now())]);
            }
            Op::Adv(dt) => {
                clock.underlying().show(time(t));
                let r0 = clock.now();
                t += *dt;
                clock.underlying().show(time(t));
                let r1 = clock.now();
                out.push(vec![tzu(r0), tzu(r1)]);
            }
            Op::SetFreq(f) => {
                clock.underlying().show(time(t));
                let pre = clock.now();
                clock.underlying().show(time(t));
                let ret = clock.set_frequency(*f).unwrap();
                clock.underlying().show(time(t));
                let post = clock.now();
                out.push(vec![tzu(pre), tzu(ret), tzu(post)]);
            }
            Op::Step(d) => {
                clock.underlying().show(time(t));
                let pre = clock.now();
                clock.underlying().show(time(t));
                let ret = clock.step_clock(dur(*d)).unwrap();
                clock.underlying().show(time(t));
                let post = clock.now();
                out.push(vec![tzu(pre), tzu(ret), tzu(post)]);
            }
            Op::Conv(q) => {
                let c = clock.time_from_underlying(time(*q));
                clock.underlying().show(time(*q));
                let r = clock.now();
                out.push(vec![tzu(c), tzu(r)]);
            }
        }
    }
    // set_properties is accepted; like every other call it must not reach the
    // underlying (read-only) clock
    clock.set_properties(&TimePropertiesDS::default()).unwrap();
    let u = clock.underlying();
    out.push(vec![zu(u.reads.get() as u128), zu(u.adjustments.get() as u128)]);
    out
}

fn gen_t0(r: &mut Rng, n: usize) -> (u128, &'static str) {
    let ptp_max: u128 = (1u128 << 48) * SEC;
    let margin: u128 = (n as u128 + 1) * 11 * SEC;
    let sub = |r: &mut Rng| -> u128 {
        match r.below(4) {
            0 => 0,
            1 => r.below(1 << 32) as u128,
            2 => (r.below(NS as u64) as u128) * FRAC + r.below(1 << 32) as u128,
            _ => (r.below(NS as u64) as u128) * FRAC,
        }
    };
    match r.below(12) {
        0 => (r.below(3) as u128 * SEC + sub(r), "epoch"),
        1 => (margin, "margin"),
        2 => (margin - 1 - r.below(5) as u128, "below-margin"),
        3 => (margin + r.below(1 << 20) as u128, "margin"),
        4 => (ptp_max - 1 - sub(r), "ptp-end"),
        5 => ((r.u128() % ptp_max).max(margin), "uniform"),
        6 => ((1u128 << 63) * FRAC - r.below(3) as u128 * SEC, "2^63ns"),
        7 => (((1u128 << 32) - 1 + r.below(3) as u128) * SEC + sub(r), "2^32s"),
        8 => (r.below(600) as u128 * SEC + sub(r), "small"),
        _ => ((1_600_000_000 + r.below(400_000_000) as u128) * SEC + sub(r), "today"),
    }
}

fn gen_ppm(r: &mut Rng) -> f64 {
    match r.below(16) {
        0 => 0.0,
        1 => -0.0,
        2 => 500.0,
        3 => -500.0,
        // multiples of 2^-10
        4 | 5 => r.range(-512_000, 512_000) as f64 / 1024.0,
        // arbitrary mantissas
        6 | 7 | 8 => (r.next() as f64 / u64::MAX as f64) * 1000.0 - 500.0,
        // small magnitudes, including below the 2^-32 resolution
        9 => (r.next() as f64 / u64::MAX as f64 - 0.5) * 1e-3,
        10 => (r.next() as f64 / u64::MAX as f64 - 0.5) * 2f64.powi(-(r.below(40) as i32)),
        // exact ties of the float -> fixed conversion: (k + 1/2) * 2^-32
        11 => (r.range(-2_000_000, 2_000_000) as f64 + 0.5) * 2f64.powi(-32),
        12 => r.range(-500, 500) as f64,
        13 => {
            // neighbours of the domain boundary
            let x: f64 = if r.chance(1, 2) { 500.0 } else { -500.0 };
            f64::from_bits(x.to_bits() - r.below(3))
        }
        14 => r.range(-5, 5) as f64 * 0.1,
        _ => {
            // rarely outside the property's domain (model / implementation only)
            match r.below(8) {
                0 => 600.0,
                1 => -1e6,
                2 => 1e30,
                3 => f64::NAN,
                4 => f64::INFINITY,
                5 => -1_000_001.5,
                _ => (r.next() as f64 / u64::MAX as f64) * 100.0,
            }
        }
    }
}

fn gen_off(r: &mut Rng) -> i128 {
    let ten = 10 * SEC as i128;
    let mag: i128 = match r.below(10) {
        0 => 0,
        1 => ten,
        2 => 1,
        3 => r.below(1 << 33) as i128,
        4 => (r.below(10 * NS as u64) as i128) * FRAC as i128,
        5 | 6 => (r.u128() % (ten as u128 + 1)) as i128,
        7 => (r.below(1_000_000) as i128) * FRAC as i128 + r.below(1 << 32) as i128,
        8 => ten - r.below(3) as i128,
        _ => {
            if r.chance(1, 6) {
                // outside the domain
                (r.below(1000) as i128 + 11) * SEC as i128
            } else {
                (r.below(10) as i128) * SEC as i128
            }
        }
    };
    if r.chance(1, 2) {
        -mag
    } else {
        mag
    }
}

fn gen_dt(r: &mut Rng) -> u128 {
    let max = 10_000 * SEC;
    match r.below(9) {
        0 => 0,
        1 => 1,
        2 => FRAC,
        3 => max,
        4 => SEC,
        5 => r.u128() % (max + 1),
        6 => (r.below(10_000) as u128) * SEC + r.below(1 << 32) as u128,
        7 => r.below(1 << 40) as u128,
        _ => (r.below(1_000_000_000) as u128) * FRAC * (r.below(100) as u128 + 1),
    }
}

fn main() {
    drive(|i, r0| {
        // svh::Rng::new(seed, index) starts the splitmix stream of neighbouring indices
        // at neighbouring positions (case i+1 is often case i shifted by one draw);
        // restart from a scrambled output instead: still a pure function of (seed, index)
        let mut fresh = Rng(r0.next().wrapping_mul(0xD6E8_FEB8_6659_FD93) ^ i.rotate_left(32));
        let r = &mut fresh;
        // lengths: the first indices sweep 0..=50, later ones are random
        let n = if i <= 50 { i as usize } else if r.chance(1, 6) { 50 } else { r.below(51) as usize };
        let (t0, t0tag) = gen_t0(r, n);
        let mut ops: Vec<Op> = Vec::with_capacity(n);
        let mut t = t0;
        let mut la = t0; // underlying time of the last adjustment
        let mut ppm_nonzero = false;
        let (mut step_zero, mut step_nonzero, mut conv_past, mut ood) = (false, false, false, false);
        // op mix profile of this case
        let profile = r.below(4);
        for _ in 0..n {
            let k = match profile {
                0 => r.below(5),
                1 => *r.pick(&[0u64, 1, 1, 1, 2, 3, 4]), // advance heavy
                2 => *r.pick(&[1u64, 2, 3, 2, 3, 0, 4]), // adjustment heavy
                _ => *r.pick(&[1u64, 3, 1, 3, 4, 2]),    // steps between advances
            };
            match k {
                0 => ops.push(Op::Now),
                1 => {
                    let dt = gen_dt(r);
                    t += dt;
                    ops.push(Op::Adv(dt));
                }
                2 => {
                    let f = gen_ppm(r);
                    if !(f.abs() <= 500.0) {
                        ood = true;
                    }
                    ppm_nonzero = f != 0.0;
                    la = t;
                    ops.push(Op::SetFreq(f));
                }
                3 => {
                    let d = gen_off(r);
                    if d.unsigned_abs() > 10 * SEC {
                        ood = true;
                    }
                    if ppm_nonzero {
                        step_nonzero = true;
                    } else {
                        step_zero = true;
                    }
                    la = t;
                    ops.push(Op::Step(d));
                }
                _ => {
                    let q = match r.below(7) {
                        0 => t,
                        1 => la,
                        2 => la + (r.u128() % (t - la + 1)),
                        3 => t + gen_dt(r),
                        4 => {
                            conv_past = true;
                            la.saturating_sub(gen_dt(r))
                        }
                        5 => la + (r.u128() % (t - la + 1)),
                        _ => {
                            conv_past = true;
                            r.u128() % (t + 1)
                        }
                    };
                    ops.push(Op::Conv(q));
                }
            }
        }
        let res = catch(|| run(t0, &ops));
        let class = format!(
            "{}:{}:len{}:{}{}{}{}{}",
            t0tag,
            if res.is_some() { "ok" } else { "panic" },
            n / 10,
            if step_zero { "Z" } else { "" },
            if step_nonzero { "N" } else { "" },
            if conv_past { "P" } else { "" },
            if ood { "O" } else { "" },
            if cfg!(debug_assertions) { "" } else { ":rel" },
        );
        let term = format!(
            "({}, {}, {}, {})",
            zu(t0),
            zlist(ops.iter().map(op_coq)),
            coq_bool(!cfg!(debug_assertions)),
            coq_opt(res, |rows| zlist(rows.into_iter().map(zlist)))
        );
        (class, term)
    });
}
