//! C20 helper: prints (hex) the bytes that the daemon's `write_json` would put on
//! the observation socket for a real `ObservableState` built with the real
//! statime / statime-linux types (serde_json::to_vec, exactly as observer.rs).
use statime::config::{ClockAccuracy, ClockIdentity, ClockQuality, SdoId, TimePropertiesDS, TimeSource, LeapIndicator};
use statime::observability::{current::CurrentDS, default::DefaultDS, parent::ParentDS, PathTraceDS};
use statime::time::Duration;
use statime_linux::metrics::exporter::{ObservableState, ProgramData};
use statime_linux::observer::ObservableInstanceState;

fn main() {
    let id = ClockIdentity([0x9c, 0x6b, 0, 5, 0x17, 0x21, 0, 0]);
    let q = ClockQuality { clock_class: 248, clock_accuracy: ClockAccuracy::Unknown, offset_scaled_log_variance: 0x8000 - 23 * 256 };
    // ParentDS / PathTraceDS contain types that cannot be named from outside the
    // crate; they are obtained through their real Deserialize implementations.
    let parent: ParentDS = serde_json::from_str(
        r#"{"parent_port_identity":{"clock_identity":[0,14,254,255,254,3,0,81],"port_number":1},"grandmaster_identity":[0,14,254,255,254,3,0,81],"grandmaster_clock_quality":{"clock_class":6,"clock_accuracy":"NS25","offset_scaled_log_variance":20061},"grandmaster_priority_1":128,"grandmaster_priority_2":128}"#,
    ).unwrap();
    let path: PathTraceDS = serde_json::from_str(r#"{"list":[[0,14,254,255,254,3,0,81]],"enable":true}"#).unwrap();
    let st = ObservableState {
        program: ProgramData::with_uptime(12.5),
        instance: ObservableInstanceState {
            default_ds: DefaultDS { clock_identity: id, number_ports: 1, clock_quality: q, priority_1: 128, priority_2: 128, domain_number: 0, slave_only: false, sdo_id: SdoId::try_from(0).unwrap() },
            current_ds: CurrentDS { steps_removed: 1, offset_from_master: Duration::from_nanos(1500), mean_delay: Duration::from_nanos(250) },
            parent_ds: parent,
            time_properties_ds: TimePropertiesDS::new_ptp_time(Some(37), LeapIndicator::NoLeap, true, false, TimeSource::Gnss),
            path_trace_ds: path,
            port_ds: vec![serde_json::from_str(r#"{"port_identity":{"clock_identity":[156,107,0,5,23,33,0,0],"port_number":1},"port_state":"Slave","log_announce_interval":1,"announce_receipt_timeout":3,"log_sync_interval":0,"delay_mechanism":{"E2E":{"log_min_delay_req_interval":0}},"version_number":2,"minor_version_number":1,"delay_asymmetry":0,"master_only":false}"#).unwrap()],
        },
    };
    let bytes = serde_json::to_vec(&st).unwrap();
    let hex: String = bytes.iter().map(|b| format!("{:02x}", b)).collect();
    println!("{}", hex);
}
