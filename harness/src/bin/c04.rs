//! C04: wire codec correspondence over `statime::fuzz::FuzzMessage`.
//!
//! Every case is a byte string `b` (built by the byte-level generator below,
//! which knows nothing of the library) together with what the library did:
//!   * `FuzzMessage::deserialize(b)`  -> error kind, or
//!   * re-serialisation into a zeroed 2048-byte buffer, `PartialEq` of the
//!     re-decoded message, the TLV list (type code, value length) seen by the
//!     iterator, serialisation into other buffer sizes (too small ones panic),
//!   * `local`: decoding `b` cut at max(34, messageLength) and the cut followed
//!     by foreign bytes gives the same result (only evaluated when the declared
//!     length fits the buffer).
//!
//! Numbers are printed for `uint63_scope` (coq/Base/Lit.v): byte strings as
//! `(b7 len [7 octets per literal])`, other integers as `(zi k)`.
//!
//! usage: c04 --seed S --count N [--start K] [--only I] <stream>
//!   stream = sweep | struct | random | sweep16
use statime::fuzz::FuzzMessage;
use svh::*;

// ---------------------------------------------------------------------------
// byte-level frame generator (independent of the library)

const TYPES: [u8; 10] = [0x0, 0x1, 0x2, 0x3, 0x8, 0x9, 0xa, 0xb, 0xc, 0xd];
const TNAMES: [&str; 10] = [
    "sync", "dreq", "pdreq", "pdresp", "fup", "dresp", "pdrfu", "ann", "sig", "mgmt",
];

fn body_len(t: u8) -> usize {
    match t {
        0x0 | 0x1 | 0x8 | 0xc => 10,
        0x2 | 0x3 | 0x9 | 0xa => 20,
        0xb => 30,
        0xd => 14,
        _ => 0,
    }
}

fn tname(b0: u8) -> &'static str {
    match TYPES.iter().position(|t| *t == (b0 & 0x0f)) {
        Some(k) => TNAMES[k],
        None => "undef",
    }
}

#[derive(Clone)]
struct Frame {
    hdr: [u8; 34],
    body: Vec<u8>,
    tlvs: Vec<u8>,
    pad: Vec<u8>,
    /// explicit messageLength (otherwise the true length without padding)
    len_override: Option<u16>,
}

impl Frame {
    fn bytes(&self) -> Vec<u8> {
        let mut v = self.hdr.to_vec();
        v.extend_from_slice(&self.body);
        v.extend_from_slice(&self.tlvs);
        let l = match self.len_override {
            Some(l) => l,
            None => v.len() as u16,
        };
        v[2..4].copy_from_slice(&l.to_be_bytes());
        v.extend_from_slice(&self.pad);
        v
    }
}

fn wide(r: &mut Rng, bytes: usize) -> Vec<u8> {
    // boundary / random values of a big-endian field of `bytes` octets
    let mut v = vec![0u8; bytes];
    match r.below(8) {
        0 => {}
        1 => v.iter_mut().for_each(|x| *x = 0xff),
        2 => v[bytes - 1] = 1,
        3 => {
            v.iter_mut().for_each(|x| *x = 0xff);
            v[0] = 0x7f
        }
        4 => v[0] = 0x80,
        5 => {
            v.iter_mut().for_each(|x| *x = 0xff);
            v[bytes - 1] = 0xfe
        }
        6 => {
            let k = r.below(bytes as u64) as usize;
            v[k] = 1 << r.below(8)
        }
        _ => v = r.bytes(bytes),
    }
    v
}

fn timestamp(r: &mut Rng) -> Vec<u8> {
    let mut v = wide(r, 6);
    let nanos: u32 = match r.below(7) {
        0 => 0,
        1 => 999_999_999,
        2 => 1_000_000_000,
        3 => u32::MAX,
        4 => 1,
        5 => r.below(1_000_000_000) as u32,
        _ => r.next() as u32,
    };
    v.extend_from_slice(&nanos.to_be_bytes());
    v
}

fn port_identity(r: &mut Rng) -> Vec<u8> {
    let mut v = wide(r, 8);
    v.extend_from_slice(&wide(r, 2));
    v
}

fn small(r: &mut Rng) -> u8 {
    match r.below(6) {
        0 => 0,
        1 => 0xff,
        2 => 0x7f,
        3 => 0x80,
        4 => 1,
        _ => r.next() as u8,
    }
}

fn body(r: &mut Rng, t: u8, plain: bool) -> Vec<u8> {
    if plain {
        let mut v: Vec<u8> = (0..body_len(t)).map(|i| (i as u8).wrapping_mul(7).wrapping_add(t)).collect();
        if t == 0xb {
            v[15] = 0x21; // a defined clockAccuracy
            v[29] = 0x20; // GNSS
        }
        if t == 0xd {
            v[13] = 2;
        }
        return v;
    }
    match t {
        0x0 | 0x1 | 0x8 => timestamp(r),
        0x2 => {
            let mut v = timestamp(r);
            if r.chance(1, 2) {
                v.extend_from_slice(&[0; 10]);
            } else {
                v.extend_from_slice(&r.bytes(10)); // reserved octets
            }
            v
        }
        0x3 | 0x9 | 0xa => {
            let mut v = timestamp(r);
            v.extend_from_slice(&port_identity(r));
            v
        }
        0xb => {
            let mut v = timestamp(r);
            v.extend_from_slice(&wide(r, 2)); // currentUtcOffset
            v.push(if r.chance(3, 4) { 0 } else { r.next() as u8 }); // reserved
            v.push(small(r)); // priority1
            v.push(small(r)); // clockClass
            v.push(match r.below(8) {
                0 => 0x16,
                1 => 0x17,
                2 => 0x31,
                3 => 0x32,
                4 => 0x7f + r.below(3) as u8,
                5 => 0xfd + r.below(3) as u8,
                6 => 0x20 + r.below(16) as u8,
                _ => r.next() as u8,
            }); // clockAccuracy
            v.extend_from_slice(&wide(r, 2)); // variance
            v.push(small(r)); // priority2
            v.extend_from_slice(&wide(r, 8)); // grandmasterIdentity
            v.extend_from_slice(&wide(r, 2)); // stepsRemoved
            v.push(match r.below(6) {
                0 => 0x10 * (1 + r.below(10) as u8),
                1 => 0x39,
                2 => 0xef + r.below(3) as u8,
                3 => 0xfe + r.below(2) as u8,
                _ => r.next() as u8,
            }); // timeSource
            v
        }
        0xc => port_identity(r),
        0xd => {
            let mut v = port_identity(r);
            v.push(if r.chance(1, 2) { 0 } else { r.next() as u8 });
            v.push(small(r));
            v.push(small(r));
            v.push(match r.below(4) {
                0 => r.below(8) as u8,
                1 => 0xf0 | r.below(16) as u8,
                _ => r.next() as u8,
            });
            v
        }
        _ => {
            let n = r.below(40) as usize;
            r.bytes(n)
        }
    }
}

fn header(r: &mut Rng, t: u8, plain: bool) -> [u8; 34] {
    let mut h = [0u8; 34];
    if plain {
        h[0] = t;
        h[1] = 0x12;
        h[4] = 3;
        h[7] = 0x08;
        for k in 20..30 {
            h[k] = 0xa0 + k as u8;
        }
        h[30] = 0x12;
        h[31] = 0x34;
        h[33] = 1;
        return h;
    }
    h[0] = t | if r.chance(1, 2) { 0 } else { (r.below(16) as u8) << 4 };
    h[1] = match r.below(4) {
        0 => 0x02,
        1 => 0x12,
        _ => r.next() as u8,
    };
    h[4] = small(r);
    h[5] = if r.chance(1, 2) { 0 } else { r.next() as u8 };
    h[6] = match r.below(3) {
        0 => r.next() as u8 & 0x67,
        1 => 1 << r.below(8),
        _ => r.next() as u8,
    };
    h[7] = match r.below(3) {
        0 => r.next() as u8 & 0x7f,
        1 => 1 << r.below(8),
        _ => r.next() as u8,
    };
    h[8..16].copy_from_slice(&wide(r, 8));
    if r.chance(1, 3) {
        h[16..20].copy_from_slice(&r.bytes(4));
    }
    h[20..30].copy_from_slice(&port_identity(r));
    h[30..32].copy_from_slice(&wide(r, 2));
    h[32] = if r.chance(1, 2) { small(r) } else { r.below(6) as u8 };
    h[33] = small(r);
    h
}

const TLV_TYPES: [u16; 24] = [
    0x0000, 0x0001, 0x0002, 0x0003, 0x0004, 0x0007, 0x0008, 0x0009, 0x000a, 0x1fff, 0x2000, 0x2003,
    0x2004, 0x202f, 0x2030, 0x3fff, 0x4000, 0x4001, 0x4002, 0x7eff, 0x7f00, 0x7fff, 0x8000, 0x8009,
];

fn tlv_type(r: &mut Rng) -> u16 {
    match r.below(4) {
        0 => r.next() as u16,
        1 => 0x800a + r.below(3) as u16,
        _ => *r.pick(&TLV_TYPES),
    }
}

fn one_tlv(r: &mut Rng, len: usize) -> Vec<u8> {
    let mut v = tlv_type(r).to_be_bytes().to_vec();
    v.extend_from_slice(&(len as u16).to_be_bytes());
    v.extend_from_slice(&r.bytes(len));
    v
}

/// TLV area layouts; returns (bytes, tag)
fn tlv_layout(r: &mut Rng, kind: u64) -> (Vec<u8>, &'static str) {
    let even = |r: &mut Rng| 2 * r.below(12) as usize;
    match kind {
        0 => (vec![], "none"),
        1 => {
            let l = 2 + even(r);
            (one_tlv(r, l), "one")
        }
        2 => {
            let n = 2 + r.below(4);
            let mut v = vec![];
            for _ in 0..n {
                let l = 2 + even(r);
                v.extend(one_tlv(r, l));
            }
            (v, "several")
        }
        3 => {
            // last TLV with an empty value (rejected before the repair of F5), possibly after others
            let mut v = vec![];
            for _ in 0..r.below(3) {
                let l = even(r);
                v.extend(one_tlv(r, l));
            }
            v.extend(one_tlv(r, 0));
            (v, "empty_last")
        }
        4 => {
            // empty value not in last position
            let mut v = one_tlv(r, 0);
            if r.chance(1, 2) {
                v.extend(one_tlv(r, 0));
            }
            let l = 2 + even(r);
            v.extend(one_tlv(r, l));
            (v, "empty_inner")
        }
        5 => {
            // odd length field (value bytes present or not)
            let mut v = vec![];
            if r.chance(1, 2) {
                let l = 2 + even(r);
                v.extend(one_tlv(r, l));
            }
            let l = 1 + even(r);
            let mut t = one_tlv(r, l);
            if r.chance(1, 2) {
                t.push(0); // padded to even
            }
            v.extend(t);
            if r.chance(1, 3) {
                let l = even(r) + 2;
                v.extend(one_tlv(r, l));
            }
            (v, "odd")
        }
        6 => {
            // truncated: the value is shorter than announced
            let mut v = vec![];
            if r.chance(1, 2) {
                let l = 2 + even(r);
                v.extend(one_tlv(r, l));
            }
            let l = 2 + even(r);
            let mut t = one_tlv(r, l);
            let cut = 1 + r.below(l as u64) as usize;
            t.truncate(t.len() - cut);
            v.extend(t);
            (v, "truncated")
        }
        7 => {
            // trailing 1..4 bytes after well-formed TLVs
            let mut v = vec![];
            for _ in 0..r.below(3) {
                let l = 2 + even(r);
                v.extend(one_tlv(r, l));
            }
            let k = 1 + r.below(4) as usize;
            let mut tail = r.bytes(k);
            if k == 4 && r.chance(1, 2) {
                tail[2] = 0;
                tail[3] = 0;
            }
            v.extend(tail);
            (v, "trailing")
        }
        8 => {
            // length field far exceeding the buffer
            let mut v = tlv_type(r).to_be_bytes().to_vec();
            let l: u16 = match r.below(3) {
                0 => 0xfffe,
                1 => 0x0400,
                _ => (r.next() as u16) & 0xfffe,
            };
            v.extend_from_slice(&l.to_be_bytes());
            let n = r.below(20) as usize;
            v.extend(r.bytes(n));
            (v, "huge_len")
        }
        9 => {
            // many small TLVs
            let n = 20 + r.below(100);
            let mut v = vec![];
            for _ in 0..n {
                let l = 2 * r.below(4) as usize + 2;
                v.extend(one_tlv(r, l));
            }
            (v, "many")
        }
        10 => {
            // a single large TLV (frame near 1024 / 2048 bytes)
            let target = *r.pick(&[1024usize, 2048, 1500, 600]);
            let l = (target - 34 - 30 - 4 - r.below(24) as usize) & !1;
            (one_tlv(r, l), "large")
        }
        _ => {
            // arbitrary bytes as TLV area
            let n = r.below(24) as usize;
            (r.bytes(n), "garbage")
        }
    }
}

fn frame(r: &mut Rng, t: u8, plain: bool) -> Frame {
    Frame {
        hdr: header(r, t, plain),
        body: body(r, t, plain),
        tlvs: vec![],
        pad: vec![],
        len_override: None,
    }
}

// ---------------------------------------------------------------------------
// observation

/// byte string literal `(b7 len [7 octets per primitive-integer literal])` (Wire/WireCases.v)
fn b7(b: &[u8]) -> String {
    let mut lits = Vec::with_capacity(b.len() / 7 + 1);
    for ch in b.chunks(7) {
        let mut v: u64 = 0;
        for i in 0..7 {
            v = (v << 8) | (*ch.get(i).unwrap_or(&0) as u64);
        }
        lits.push(v.to_string());
    }
    format!("(b7 {} [{}])", b.len(), lits.join("; "))
}

fn err_kind(s: &str) -> &'static str {
    match s {
        "enum conversion failed" => "EEnumConversion",
        "a buffer is too short" => "EBufferTooShort",
        "a container has insufficient capacity" => "ECapacity",
        "an invariant was violated" => "EInvalid",
        _ => "EUnknownErrorKind",
    }
}

fn tlv_code(name: &str) -> i64 {
    let arg = |p: &str| -> Option<i64> {
        name.strip_prefix(p)
            .and_then(|s| s.strip_suffix(')'))
            .and_then(|s| s.trim().parse::<i64>().ok())
    };
    if let Some(v) = arg("Reserved(") {
        return v;
    }
    if let Some(v) = arg("Legacy(") {
        return v;
    }
    if let Some(v) = arg("Experimental(") {
        return v;
    }
    match name {
        "Management" => 0x0001,
        "ManagementErrorStatus" => 0x0002,
        "OrganizationExtension" => 0x0003,
        "RequestUnicastTransmission" => 0x0004,
        "GrantUnicastTransmission" => 0x0005,
        "CancelUnicastTransmission" => 0x0006,
        "AcknowledgeCancelUnicastTransmission" => 0x0007,
        "PathTrace" => 0x0008,
        "AlternateTimeOffsetIndicator" => 0x0009,
        "OrganizationExtensionPropagate" => 0x4000,
        "EnhancedAccuracyMetrics" => 0x4001,
        "OrganizationExtensionDoNotPropagate" => 0x8000,
        "L1Sync" => 0x8001,
        "PortCommunicationAvailability" => 0x8002,
        "ProtocolAddress" => 0x8003,
        "SlaveRxSyncTimingData" => 0x8004,
        "SlaveRxSyncComputedData" => 0x8005,
        "SlaveTxEventTimestamps" => 0x8006,
        "CumulativeRateRatio" => 0x8007,
        "Pad" => 0x8008,
        "Authentication" => 0x8009,
        _ => -1,
    }
}

/// (type code, value length) from the Debug rendering of a FuzzTlv:
/// `FuzzTlv(Tlv { tlv_type: PathTrace, value: [1, 2] })`
fn tlv_summary(dbg: &str) -> (i64, i64) {
    let a = dbg.find("tlv_type: ").map(|p| p + 10);
    let b = dbg.find(", value: [");
    match (a, b) {
        (Some(a), Some(b)) if a <= b => {
            let name = &dbg[a..b];
            let rest = &dbg[b + 10..];
            let end = rest.find(']').unwrap_or(0);
            let inner = rest[..end].trim();
            let n = if inner.is_empty() { 0 } else { inner.split(',').count() as i64 };
            (tlv_code(name), n)
        }
        _ => (-2, -2),
    }
}

enum Dec {
    Ok,
    Err(&'static str),
}

fn same_result(a: &[u8], b: &[u8]) -> bool {
    match (FuzzMessage::deserialize(a), FuzzMessage::deserialize(b)) {
        (Ok(x), Ok(y)) => x == y,
        (Err(x), Err(y)) => x.to_string() == y.to_string(),
        _ => false,
    }
}

fn probe(m: &FuzzMessage, size: usize) -> String {
    let mut buf = vec![0u8; size];
    match catch(|| m.serialize(&mut buf).map_err(|e| e.to_string())) {
        None => "PPanic".to_string(),
        Some(Err(e)) => format!("(PErr {})", err_kind(&e)),
        Some(Ok(n)) => {
            if n <= size {
                format!("(PBytes {})", b7(&buf[..n]))
            } else {
                "(PErr ECapacity)".to_string() // returned length exceeds the buffer: never expected
            }
        }
    }
}

/// returns (outcome tag, Coq term of the observation)
fn observe(b: &[u8], r: &mut Rng) -> (String, String) {
    // locality of the declared length
    let local = if b.len() >= 34 {
        let l = u16::from_be_bytes([b[2], b[3]]) as usize;
        if l <= b.len() {
            let k = l.max(34);
            let cut = &b[..k];
            let mut ext = cut.to_vec();
            ext.extend_from_slice(&[0xa5, 0x5a, 0xff]);
            same_result(b, cut) && same_result(b, &ext)
        } else {
            true
        }
    } else {
        true
    };
    let (tag, res) = match FuzzMessage::deserialize(b) {
        Err(e) => {
            let k = err_kind(&e.to_string());
            (Dec::Err(k), format!("(ObsErr {})", k))
        }
        Ok(m) => {
            let main = probe(&m, 2048);
            // length of the frame: serialise into a buffer that is certainly large enough;
            // the buffer is DIRTY (a port re-uses its packet buffer): every octet of every
            // defined field has to be written, not or-ed into what was there before
            let mut big = vec![0xffu8; 4096 + b.len()];
            let n = m.serialize(&mut big).map_err(|e| e.to_string()).unwrap_or(0);
            let req = match FuzzMessage::deserialize(&big[..n]) {
                Ok(m2) => m2 == m,
                Err(_) => false,
            };
            let tlvs: Vec<String> = m
                .tlv()
                .map(|t| {
                    let (c, l) = tlv_summary(&format!("{:?}", t));
                    format!("(zi {}, zi {})", svh::n(c), svh::n(l))
                })
                .collect();
            // other buffer sizes
            let mut sizes: Vec<usize> = vec![];
            sizes.push(match r.below(6) {
                0 => 0,
                1 => 33,
                2 => 34,
                3 => n.saturating_sub(1),
                4 => 34 + r.below((n.max(35) - 34) as u64) as usize,
                _ => r.below(n.max(1) as u64) as usize,
            });
            if r.chance(1, 4) {
                sizes.push(n + r.below(3) as usize);
            }
            let probes: Vec<String> = sizes
                .iter()
                .map(|s| format!("(zi {}, {})", s, probe(&m, *s)))
                .collect();
            (
                Dec::Ok,
                format!(
                    "(ObsOk {} {} {} {})",
                    main,
                    coq_bool(req),
                    zlist(tlvs),
                    zlist(probes)
                ),
            )
        }
    };
    let t = match tag {
        Dec::Ok => "ok",
        Dec::Err("EEnumConversion") => "enum",
        Dec::Err("EBufferTooShort") => "short",
        Dec::Err("ECapacity") => "cap",
        Dec::Err("EInvalid") => "invalid",
        Dec::Err(_) => "unknown",
    };
    (t.to_string(), format!("(mkObs {} {})", res, coq_bool(local)))
}

fn case(kind: &str, b: Vec<u8>, r: &mut Rng) -> (String, String) {
    let tn = if b.is_empty() { "empty" } else { tname(b[0]) };
    // a panic anywhere in deserialize / the TLV iterator / PartialEq is itself the observation
    let (o, term) = match catch(|| observe(&b, &mut *r)) {
        Some(x) => x,
        None => ("panic".to_string(), "(mkObs ObsPanic true)".to_string()),
    };
    (format!("{}:{}:{}", kind, tn, o), format!("({}, {})", b7(&b), term))
}

// ---------------------------------------------------------------------------
// streams

/// A fixed small TLV area used by the sweeps
fn std_tlv() -> Vec<u8> {
    vec![0x00, 0x08, 0x00, 0x04, 0xde, 0xad, 0xbe, 0xef]
}

/// 8-bit sweeps: (name, message type or 0xff = rotate, absolute byte offset)
const SWEEP8: [(&str, u8, usize); 27] = [
    ("b0", 0xff, 0),
    ("b1_version", 0xff, 1),
    ("len_hi", 0xff, 2),
    ("len_lo", 0xff, 3),
    ("domain", 0xff, 4),
    ("minor_sdo", 0xff, 5),
    ("flags0", 0xff, 6),
    ("flags1", 0xff, 7),
    ("msg_type_specific", 0xff, 19),
    ("control", 0xff, 32),
    ("log_interval", 0xff, 33),
    ("seq_hi", 0xff, 30),
    ("src_port_lo", 0xff, 29),
    ("ann_utc_lo", 0xb, 45),
    ("ann_reserved", 0xb, 46),
    ("ann_prio1", 0xb, 47),
    ("ann_class", 0xb, 48),
    ("ann_accuracy", 0xb, 49),
    ("ann_variance_hi", 0xb, 50),
    ("ann_prio2", 0xb, 52),
    ("ann_steps_lo", 0xb, 62),
    ("ann_time_source", 0xb, 63),
    ("mgmt_b44", 0xd, 44),
    ("mgmt_start_hops", 0xd, 45),
    ("mgmt_hops", 0xd, 46),
    ("mgmt_action", 0xd, 47),
    ("pdreq_reserved", 0x2, 50),
];

fn sweep_pass_len() -> u64 {
    let lens: u64 = TYPES.iter().map(|t| (34 + body_len(*t) + 8 + 3) as u64).sum();
    let cuts: u64 = TYPES.iter().map(|t| (34 + body_len(*t) + 8 + 1) as u64).sum();
    10 + 27 * 256 + 4096 + lens + cuts + 10 * 12 * 4
}

fn gen_sweep(i: u64, r: &mut Rng) -> (String, String) {
    let pass = i / sweep_pass_len();
    let mut j = i % sweep_pass_len();
    let plain = pass == 0;
    // 1. the ten message types
    if j < 10 {
        let t = TYPES[j as usize];
        let mut f = frame(r, t, plain);
        if pass % 2 == 1 {
            f.tlvs = std_tlv();
        }
        return case("type", f.bytes(), r);
    }
    j -= 10;
    // 2. every value of single octets
    if j < 27 * 256 {
        let (name, ty, off) = SWEEP8[(j / 256) as usize];
        let v = (j % 256) as u8;
        let t = if ty == 0xff { TYPES[((v as u64 + j / 256 + pass) % 10) as usize] } else { ty };
        let mut f = frame(r, t, plain);
        if v % 2 == 1 {
            f.tlvs = std_tlv();
        }
        let mut b = f.bytes();
        if off == 0 {
            // keep the high nibble varying as well: all 256 values of octet 0
            b[0] = v;
        } else {
            b[off] = v;
        }
        return case(&format!("oct_{}", name), b, r);
    }
    j -= 27 * 256;
    // 3. every combination of the twelve defined flags
    if j < 4096 {
        let t = TYPES[((j + pass) % 10) as usize];
        let mut f = frame(r, t, plain);
        let lo = (j & 0x7) as u8 | (((j >> 3) & 0x3) as u8) << 5;
        let hi = ((j >> 5) & 0x7f) as u8;
        f.hdr[6] = lo | if pass % 2 == 1 { 0x98 } else { 0 };
        f.hdr[7] = hi | if pass % 2 == 1 { 0x80 } else { 0 };
        return case("flags", f.bytes(), r);
    }
    j -= 4096;
    // 4. every messageLength in [0, len+2] against a fixed buffer
    for t in TYPES {
        let len = (34 + body_len(t) + 8) as u64;
        if j < len + 3 {
            let mut f = frame(r, t, plain);
            f.tlvs = std_tlv();
            f.len_override = Some(j as u16);
            if pass % 3 == 1 {
                f.pad = vec![0; 2];
            } else if pass % 3 == 2 {
                f.pad = r.bytes(6);
            }
            return case("mlen", f.bytes(), r);
        }
        j -= len + 3;
    }
    // 5. every buffer length in [0, len] with the declared length unchanged
    for t in TYPES {
        let len = (34 + body_len(t) + 8) as u64;
        if j < len + 1 {
            let mut f = frame(r, t, plain);
            f.tlvs = std_tlv();
            let mut b = f.bytes();
            b.truncate(j as usize);
            return case("cut", b, r);
        }
        j -= len + 1;
    }
    // 6. TLV layouts for every message type
    let t = TYPES[(j / 48) as usize % 10];
    let kind = (j % 48) / 4;
    let mut f = frame(r, t, false);
    let (tl, tag) = tlv_layout(r, kind);
    f.tlvs = tl;
    if j % 4 == 3 {
        let n = 1 + r.below(4) as usize;
        f.pad = r.bytes(n);
    }
    case(&format!("tlv_{}", tag), f.bytes(), r)
}

fn gen_struct(_i: u64, r: &mut Rng) -> (String, String) {
    let t = *r.pick(&TYPES);
    let mut f = frame(r, t, false);
    let kind = if r.chance(1, 3) { 0 } else { r.below(12) };
    let (tl, tag) = tlv_layout(r, kind);
    f.tlvs = tl;
    let mut name = format!("st_{}", tag);
    match r.below(10) {
        0 => {
            // declared length off by a little
            let true_len = (34 + f.body.len() + f.tlvs.len()) as i64;
            let d = r.range(-6, 6);
            f.len_override = Some((true_len + d).clamp(0, 65535) as u16);
            name = format!("st_len{:+}", d.signum());
        }
        1 => {
            let n = 1 + r.below(8) as usize;
            f.pad = r.bytes(n);
            name.push_str("_pad");
        }
        2 => {
            // declared length covers part of the TLV area only; the rest is padding
            if !f.tlvs.is_empty() {
                let k = r.below(f.tlvs.len() as u64) as usize;
                f.len_override = Some((34 + f.body.len() + k) as u16);
                name = "st_len_in_tlv".into();
            }
        }
        3 => {
            // body shortened / lengthened by a few octets
            let d = r.range(-4, 4);
            let n = (f.body.len() as i64 + d).max(0) as usize;
            f.body.resize(n, 0x11);
            name = format!("st_body{:+}", d.signum());
        }
        _ => {}
    }
    let mut b = f.bytes();
    if r.chance(1, 12) {
        // flip one random octet
        let k = r.below(b.len() as u64) as usize;
        b[k] ^= 1 << r.below(8);
        name.push_str("_flip");
    }
    if b.len() > 2052 {
        b.truncate(2052);
    }
    case(&name, b, r)
}

fn gen_random(_i: u64, r: &mut Rng) -> (String, String) {
    let around = [34usize, 44, 54, 64, 1024, 2048];
    let n = match r.below(4) {
        0 => {
            let c = *r.pick(&around) as i64 + r.range(-3, 3);
            c as usize
        }
        _ => r.below(201) as usize,
    };
    let mut b = r.bytes(n);
    let mut name = "rnd".to_string();
    if n >= 34 {
        match r.below(4) {
            0 => {}
            1 => {
                // plausible type and length, everything else random
                b[0] = (b[0] & 0xf0) | *r.pick(&TYPES);
                let l = (n as i64 + r.range(-2, 2)).max(0) as u16;
                b[2..4].copy_from_slice(&l.to_be_bytes());
                name = "rnd_typed_len".into();
            }
            2 => {
                b[0] = (b[0] & 0xf0) | *r.pick(&TYPES);
                name = "rnd_typed".into();
            }
            _ => {
                // plausible frame: right type, exact body, random even-length TLV chain
                let t = *r.pick(&TYPES);
                b[0] = (b[0] & 0xf0) | t;
                let mut pos = 34 + body_len(t);
                while pos + 4 <= n {
                    let room = n - pos - 4;
                    let l = if room < 2 || r.chance(1, 3) { room & !1 } else { (r.below(room as u64) as usize) & !1 };
                    b[pos + 2..pos + 4].copy_from_slice(&(l as u16).to_be_bytes());
                    pos += 4 + l;
                }
                let l = if r.chance(3, 4) { pos.min(n) } else { n } as u16;
                b[2..4].copy_from_slice(&l.to_be_bytes());
                name = "rnd_chain".into();
            }
        }
    }
    case(&name, b, r)
}

/// 16-bit fields: (name, type or 0xff = rotate, offset of the high octet)
const SWEEP16: [(&str, u8, usize); 9] = [
    ("message_length", 0xff, 2),
    ("flag_field", 0xff, 6),
    ("sequence_id", 0xff, 30),
    ("source_port", 0xff, 28),
    ("utc_offset", 0xb, 44),
    ("variance", 0xb, 50),
    ("steps_removed", 0xb, 61),
    ("req_port", 0x9, 52),
    ("tlv_type", 0xff, 0),
];

fn gen_sweep16(i: u64, r: &mut Rng) -> (String, String) {
    let nf = SWEEP16.len() as u64;
    let (name, ty, off) = SWEEP16[(i % nf) as usize];
    // a permutation of 0..65535 so that every prefix is spread and the full stream is exhaustive
    let k = (i / nf) % 65536;
    let v = ((k * 40503 + 0x1234) % 65536) as u16;
    let pass = i / (nf * 65536);
    let t = if ty == 0xff { TYPES[((v as u64 / 7 + pass) % 10) as usize] } else { ty };
    let mut f = frame(r, t, pass == 0);
    if name == "tlv_type" {
        let mut tl = v.to_be_bytes().to_vec();
        tl.extend_from_slice(&[0, 2, 0x55, 0xaa]);
        f.tlvs = tl;
        return case("w_tlv_type", f.bytes(), r);
    }
    if v % 2 == 1 {
        f.tlvs = std_tlv();
    }
    let mut b = f.bytes();
    b[off..off + 2].copy_from_slice(&v.to_be_bytes());
    case(&format!("w_{}", name), b, r)
}

fn main() {
    let a = parse_args();
    let stream = a.extra.first().cloned().unwrap_or_else(|| "struct".to_string());
    drive(|i, r| match stream.as_str() {
        "sweep" => gen_sweep(i, r),
        "random" => gen_random(i, r),
        "sweep16" => gen_sweep16(i, r),
        _ => gen_struct(i, r),
    });
}
