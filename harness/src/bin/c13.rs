//! C13 (and, through `c02.rs`, C02): the real `KalmanFilter` / `BasicFilter` behind a
//! recording, scripted clock.  Every case is one stream of events (measurements,
//! `update`, `demobilize`) generated in closed loop with a small plant model (the
//! clock's replies and the following timestamps depend on the commands the filter
//! issued).  The case printed for Coq contains the configuration, the events, the
//! clock replies in call order, and what the implementation did (commands as bit
//! patterns, FilterUpdate, current_estimates, panics).
#![allow(dead_code)]
use fixed::types::{I96F32, U96F32};
use statime::config::TimePropertiesDS;
use statime::filters::{BasicFilter, Filter, KalmanConfiguration, KalmanFilter};
use statime::port::Measurement;
use statime::time::{Duration, Time};
use statime::Clock;
use svh::*;

pub const NS: i128 = 1_000_000_000;
pub const FRAC: i128 = 1 << 32;

pub fn time(bits: u128) -> Time {
    Time::from_fixed_nanos(U96F32::from_bits(bits))
}
pub fn dur(bits: i128) -> Duration {
    Duration::from_fixed_nanos(I96F32::from_bits(bits))
}
pub fn dbits(d: Duration) -> i128 {
    d.nanos().to_bits()
}
pub fn tbits(t: Time) -> u128 {
    t.nanos().to_bits()
}
/// seconds (f64) -> Duration bits, plain rounding (harness-side only)
pub fn sec_bits(s: f64) -> i128 {
    (s * 1e9 * 4294967296.0) as i128
}
pub fn fz(f: f64) -> String {
    zmag(fbits(f) as u128)
}
pub fn fbits(f: f64) -> u64 {
    if f.is_nan() {
        0x7ff8_0000_0000_0000
    } else {
        f.to_bits()
    }
}

#[derive(Clone, Debug)]
pub enum Cmd {
    Freq(f64),
    Step(i128),
}

#[derive(Clone, Copy, Debug, PartialEq)]
pub enum ClockMode {
    /// returns `now` = local time + latency; applies steps
    Good,
    /// like Good, but calls fail with probability err_num/err_den
    Flaky,
    /// returns a time behind the local time (event timestamps ahead of the clock: F15)
    Lagging,
    /// ignores steps and always returns the same time (as the repository's test clocks do)
    Frozen,
}

/// Plant + recording clock.
pub struct Plant {
    pub l: i128,     // local time, bits
    pub theta: i128, // local - master, bits
    pub f0: f64,     // oscillator error, ppm
    pub cmd: f64,    // last accepted frequency command, ppm
    pub mode: ClockMode,
    pub err_num: u64,
    pub err_den: u64,
    pub latency: i128,
    pub lag: i128,
    pub log: Vec<Cmd>,
    pub replies: Vec<Option<u128>>,
    pub rng: Rng,
    pub steps: u64,
    pub freqs: u64,
}

impl Plant {
    pub fn new(rng: Rng) -> Self {
        Plant {
            l: 1_700_000_000 * NS * FRAC,
            theta: 0,
            f0: 0.0,
            cmd: 0.0,
            mode: ClockMode::Good,
            err_num: 0,
            err_den: 1,
            latency: 0,
            lag: 0,
            log: vec![],
            replies: vec![],
            rng,
            steps: 0,
            freqs: 0,
        }
    }
    pub fn advance(&mut self, dt_bits: i128) {
        let dt = dt_bits as f64 / (1e9 * 4294967296.0);
        let rate = (self.f0 + if self.cmd.is_finite() { self.cmd } else { 0.0 }) * 1e-6;
        self.theta += sec_bits(rate * dt);
        self.l += dt_bits;
    }
    fn fail(&mut self) -> bool {
        self.mode == ClockMode::Flaky && self.rng.chance(self.err_num, self.err_den)
    }
    fn reply_time(&self) -> u128 {
        let t = match self.mode {
            ClockMode::Good | ClockMode::Flaky => self.l + self.latency,
            ClockMode::Lagging => self.l - self.lag,
            ClockMode::Frozen => 0,
        };
        if t < 0 {
            0
        } else {
            t as u128
        }
    }
}

impl Clock for Plant {
    type Error = ();
    fn now(&self) -> Time {
        time(self.reply_time())
    }
    fn step_clock(&mut self, offset: Duration) -> Result<Time, ()> {
        self.log.push(Cmd::Step(dbits(offset)));
        self.steps += 1;
        if self.fail() {
            self.replies.push(None);
            return Err(());
        }
        if self.mode != ClockMode::Frozen {
            let d = dbits(offset);
            // keep the local time inside the non-negative range of Time
            if self.l.checked_add(d).map(|x| x < 0 || x > (1i128 << 120)).unwrap_or(true) {
                self.replies.push(None);
                return Err(());
            }
            self.l += d;
            self.theta = self.theta.saturating_add(d);
        }
        let t = self.reply_time();
        self.replies.push(Some(t));
        Ok(time(t))
    }
    fn set_frequency(&mut self, ppm: f64) -> Result<Time, ()> {
        self.log.push(Cmd::Freq(ppm));
        self.freqs += 1;
        if self.fail() {
            self.replies.push(None);
            return Err(());
        }
        self.cmd = ppm;
        let t = self.reply_time();
        self.replies.push(Some(t));
        Ok(time(t))
    }
    fn set_properties(&mut self, _t: &TimePropertiesDS) -> Result<(), ()> {
        Ok(())
    }
}

#[derive(Clone, Copy, Debug)]
pub enum Ev {
    Meas(Measurement),
    Update,
    Demob,
}

pub struct Obs {
    pub cmds: Vec<Cmd>,
    pub res: Option<(bool, Option<i128>)>,
    pub est: Option<(i128, i128)>,
}

// ---------------------------------------------------------------- printing
/// Coq term of type Z.  Long decimal Z literals are very slow to parse in coqc
/// (about 2 ms for 28 digits), primitive-integer literals are not, so numbers of
/// more than six digits are written in chunks of 62 bits: `zs a`, `zd a b`, `zt a b c`.
pub fn zmag(a: u128) -> String {
    const M: u128 = (1u128 << 62) - 1;
    if a < 1_000_000 {
        format!("{}", a)
    } else if a < (1u128 << 62) {
        format!("(zs {})", a)
    } else if a < (1u128 << 124) {
        format!("(zd {} {})", a >> 62, a & M)
    } else {
        format!("(zt {} {} {})", a >> 124, (a >> 62) & M, a & M)
    }
}
pub fn zi(v: i128) -> String {
    if v < 0 {
        let m = zmag(v.unsigned_abs());
        if m.starts_with('(') {
            format!("(zneg {})", m)
        } else {
            format!("(-{})", m)
        }
    } else {
        zmag(v as u128)
    }
}
pub fn oz(v: Option<i128>) -> String {
    match v {
        Some(x) => format!("(Some {})", zi(x)),
        None => "None".into(),
    }
}
pub fn od(d: Option<Duration>) -> String {
    oz(d.map(dbits))
}
pub fn ev_coq(e: &Ev) -> String {
    match e {
        Ev::Meas(m) => format!(
            "M {} {} {} {} {} {}",
            zmag(tbits(m.event_time)),
            od(m.offset),
            od(m.delay),
            od(m.peer_delay),
            od(m.raw_sync_offset),
            od(m.raw_delay_offset)
        ),
        Ev::Update => "EUpdate".into(),
        Ev::Demob => "EDemob".into(),
    }
}
/// Sanity test of the check itself: with SVH_PERTURB=over the printed observation of a
/// frequency command equal to +-400 is moved one ulp outwards (what the code did before the
/// F12 fix); with SVH_PERTURB=nan a zero frequency command of the basic filter that follows a
/// step command is printed as NaN (F13).  Never set by the check.
fn perturb(f: f64, after_step: bool) -> u64 {
    match std::env::var("SVH_PERTURB").ok().as_deref() {
        Some("over") if f.abs() == 400.0 => fbits(f) + 1,
        Some("nan") if after_step && f == 0.0 => 0x7ff8_0000_0000_0000,
        _ => fbits(f),
    }
}
pub fn cmd_coq(c: &Cmd) -> String {
    match c {
        Cmd::Freq(f) => format!("OF {}", zmag(perturb(*f, false) as u128)),
        Cmd::Step(d) => format!("OS {}", zi(*d)),
    }
}
pub fn obs_coq(o: &Obs) -> String {
    let res = match &o.res {
        None => "None".to_string(),
        Some((nu, md)) => format!("(Some ({}, {}))", coq_bool(*nu), oz(*md)),
    };
    let est = match &o.est {
        None => "None".to_string(),
        Some((a, b)) => format!("(Some ({}, {}))", zi(*a), zi(*b)),
    };
    let mut prev_step = false;
    let cmds: Vec<String> = o
        .cmds
        .iter()
        .map(|c| {
            let t = match c {
                Cmd::Freq(f) => format!("OF {}", zmag(perturb(*f, prev_step) as u128)),
                Cmd::Step(_) => cmd_coq(c),
            };
            prev_step = matches!(c, Cmd::Step(_));
            t
        })
        .collect();
    format!("Ob {} {} {}", zlist(cmds), res, est)
}
pub fn cfg_coq(c: &KalmanConfiguration) -> String {
    format!(
        "(FKalman (kcfg_bits {} {} {} {} {} {} {} {} {} {} {} {} {} {} {}))",
        zi(dbits(c.step_threshold)),
        fz(c.deadzone),
        zi(dbits(c.steer_time)),
        fz(c.max_steer),
        fz(c.max_freq_offset),
        fz(c.initial_frequency_uncertainty),
        fz(c.initial_wander),
        fz(c.delay_wander),
        fz(c.precision_low_probability),
        fz(c.precision_high_probability),
        c.precision_hysteresis,
        zi(dbits(c.estimate_threshold)),
        c.difference_estimation_boundary,
        c.statistical_estimation_boundary,
        fz(c.peer_delay_factor)
    )
}
pub fn case_coq(kind: &str, events: &[Ev], replies: &[Option<u128>], obs: &[Obs]) -> String {
    format!(
        "({}, {}, {}, {}, {})",
        kind,
        coq_bool(!cfg!(debug_assertions)),
        zlist(events.iter().map(ev_coq)),
        zlist(replies.iter().map(|r| match r {
            Some(t) => format!("Some {}", zmag(*t)),
            None => "None".into(),
        })),
        zlist(obs.iter().map(obs_coq))
    )
}

// ---------------------------------------------------------------- running
/// Runs a stream on a real filter.  `gen` produces event number i from the plant
/// state (closed loop) or returns None to stop.
pub fn run_stream<F: Filter>(
    cfg: F::Config,
    plant: &mut Plant,
    mut gen: impl FnMut(&mut Plant, usize) -> Option<Ev>,
) -> (Vec<Ev>, Vec<Obs>) {
    let mut events = vec![];
    let mut obs = vec![];
    let mut filter = match catch(|| F::new(cfg.clone())) {
        Some(f) => f,
        None => {
            obs.push(Obs { cmds: vec![], res: None, est: None });
            return (events, obs);
        }
    };
    let mut i = 0;
    while let Some(ev) = gen(plant, i) {
        i += 1;
        events.push(ev);
        plant.log.clear();
        let r = catch(|| match ev {
            Ev::Meas(m) => {
                let u = filter.measurement(m, plant);
                (u.next_update.is_some(), u.mean_delay.map(dbits))
            }
            Ev::Update => {
                let u = filter.update(plant);
                (u.next_update.is_some(), u.mean_delay.map(dbits))
            }
            Ev::Demob => {
                let fresh = F::new(cfg.clone());
                let old = std::mem::replace(&mut filter, fresh);
                old.demobilize(plant);
                (false, None)
            }
        });
        let cmds = plant.log.clone();
        match r {
            None => {
                obs.push(Obs { cmds, res: None, est: None });
                break;
            }
            Some(u) => {
                let est = catch(|| {
                    let e = filter.current_estimates();
                    (dbits(e.offset_from_master), dbits(e.mean_delay))
                });
                obs.push(Obs { cmds, res: Some(u), est });
            }
        }
    }
    (events, obs)
}

// ---------------------------------------------------------------- generators
pub fn meas(t: i128, offset: Option<i128>, delay: Option<i128>, peer: Option<i128>, sync: Option<i128>, dly: Option<i128>) -> Ev {
    let t = if t < 0 { 0 } else { t as u128 };
    Ev::Meas(Measurement {
        event_time: time(t),
        offset: offset.map(dur),
        delay: delay.map(dur),
        peer_delay: peer.map(dur),
        raw_sync_offset: sync.map(dur),
        raw_delay_offset: dly.map(dur),
    })
}

fn jitter(r: &mut Rng, amp_bits: i128) -> i128 {
    if amp_bits == 0 {
        0
    } else {
        (r.next() as i128 % (2 * amp_bits + 1)) - amp_bits
    }
}

pub fn default_cfg() -> KalmanConfiguration {
    KalmanConfiguration::default()
}

pub fn pick_cfg(r: &mut Rng) -> (KalmanConfiguration, &'static str) {
    let mut c = KalmanConfiguration::default();
    let tag = match r.below(12) {
        0 | 1 | 2 | 3 => "default",
        4 => {
            c.max_freq_offset = *r.pick(&[10.0, 0.1, 0.3, 1e-3, 33.3, 400.0000000000001, 7.000000000000001]);
            c.max_steer = *r.pick(&[200.0, 5.0, 0.05]);
            "smallbound"
        }
        5 => {
            c.precision_hysteresis = *r.pick(&[0u8, 1, 2, 127]);
            c.initial_wander = *r.pick(&[1e-16, 1e-8, 1.0, 1e-30]);
            "hyst"
        }
        6 => {
            let (a, b) = *r.pick(&[(1usize, 2usize), (2, 2), (4, 4), (1, 32), (32, 32), (3, 5)]);
            c.difference_estimation_boundary = a;
            c.statistical_estimation_boundary = b;
            "bounds"
        }
        7 => {
            c.deadzone = *r.pick(&[0.5, 1.0, 3.0]);
            c.steer_time = dur(sec_bits(*r.pick(&[0.25, 1.0, 16.0])));
            "deadzone"
        }
        8 => {
            c.step_threshold = dur(sec_bits(*r.pick(&[1e-6, 1e-2, 1.0, 100.0])));
            "threshold"
        }
        9 => {
            c.max_freq_offset = 0.1 + 0.2; // 0.30000000000000004
            c.max_steer = 1000.0;
            c.precision_low_probability = 0.1;
            c.precision_high_probability = 0.9;
            c.peer_delay_factor = 3.0;
            "mixed"
        }
        10 => {
            c.estimate_threshold = dur(sec_bits(*r.pick(&[1e-3, 5.0])));
            c.delay_wander = *r.pick(&[0.0, 1e-3]);
            c.initial_frequency_uncertainty = *r.pick(&[1e-3, 1e-9]);
            "est"
        }
        _ => {
            // a few configurations outside the property's range (must still correspond)
            match r.below(4) {
                0 => c.precision_hysteresis = 128,
                1 => {
                    c.difference_estimation_boundary = 0;
                    c.statistical_estimation_boundary = r.below(2) as usize;
                }
                2 => c.max_steer = -1.0,
                _ => c.deadzone = -1.0,
            }
            "odd"
        }
    };
    (c, tag)
}

/// Stream families.  Returns (family tag, generator state machine as a closure).
pub struct Fam {
    pub id: u64,
    pub n: usize,
    pub interval: i128,
    pub delay: i128,
    pub jit: i128,
    pub rng: Rng,
    pub want_delay_next: bool,
    pub const_off: i128,
    pub last_t: i128,
}

pub const FAMILIES: [&str; 10] = [
    "nominal", "eqback", "extreme", "zerovar", "kinds", "flaky", "saturate", "garbage", "lagging", "lifecycle",
];

pub fn setup_family(id: u64, r: &mut Rng, plant: &mut Plant, n: usize) -> Fam {
    let log_int = r.range(-3, 1);
    let interval = if log_int >= 0 { (NS * FRAC) << log_int } else { (NS * FRAC) >> (-log_int) };
    let mut f = Fam {
        id,
        n,
        interval,
        delay: (1_000 + r.below(399_000) as i128) * FRAC,
        jit: (r.below(20_001) as i128) * FRAC,
        rng: Rng(r.next()),
        want_delay_next: false,
        const_off: 0,
        last_t: 0,
    };
    plant.theta = sec_bits((r.below(2_000_001) as f64 - 1_000_000.0) * 1e-5); // +-10 s
    if r.chance(1, 3) {
        plant.theta = sec_bits((r.below(2_001) as f64 - 1_000.0) * 1e-7); // +-100 us
    }
    plant.f0 = r.below(300_001) as f64 * 1e-3 - 150.0;
    plant.latency = (r.below(1_000_000) as i128) * FRAC / 1000;
    match FAMILIES[id as usize] {
        "flaky" => {
            plant.mode = ClockMode::Flaky;
            plant.err_num = 1 + r.below(3);
            plant.err_den = 4;
        }
        "saturate" => {
            plant.f0 = (if r.chance(1, 2) { 1.0 } else { -1.0 }) * (380.0 + r.below(2000) as f64);
            plant.theta = sec_bits((r.below(2_001) as f64 - 1_000.0) * 1e-7);
            f.jit = (r.below(200) as i128) * FRAC;
        }
        "lagging" => {
            plant.mode = if r.chance(1, 4) { ClockMode::Frozen } else { ClockMode::Lagging };
            plant.lag = (r.below(2_000_000_000) as i128) * FRAC;
        }
        "zerovar" => {
            f.jit = 0;
            plant.f0 = 0.0;
            f.const_off = match r.below(3) {
                0 => 0,
                1 => (r.below(1000) as i128) * FRAC,
                _ => jitter(r, 500_000 * FRAC),
            };
        }
        "extreme" => {
            plant.theta = sec_bits((r.below(2_000_000_001) as f64 - 1e9) * 1.0);
        }
        _ => {}
    }
    f
}

fn lattice_offset(r: &mut Rng) -> i128 {
    let mag: i128 = match r.below(10) {
        0 => 0,
        1 => r.below(3) as i128,
        2 => (r.below(1000) as i128) * FRAC,
        3 => (1_000_000 + r.range(-2, 2) as i128) * FRAC,        // around the 1 ms step threshold
        4 => NS * FRAC + r.range(-2, 2) as i128,                  // around BasicFilter's 1 s
        5 => (r.below(1_000_000_000) as i128) * NS * FRAC,        // up to 10^9 s
        6 => 1_000_000_000 * NS * FRAC,
        7 => (r.next() as i128) << r.below(40),
        8 => (r.below(1 << 20) as i128) * 1_000 * FRAC,
        _ => r.next() as i128 & 0xffff_ffff_ffff,
    };
    if r.chance(1, 2) {
        -mag
    } else {
        mag
    }
}

pub fn next_event(f: &mut Fam, plant: &mut Plant, i: usize) -> Option<Ev> {
    if i >= f.n {
        return None;
    }
    let fam = FAMILIES[f.id as usize];
    let r = &mut f.rng;
    // lifecycle events
    let life = match fam {
        "lifecycle" => 6,
        "garbage" | "kinds" => 25,
        _ => 60,
    };
    if i > 0 && r.chance(1, life) {
        return Some(if r.chance(1, 3) { Ev::Demob } else { Ev::Update });
    }
    match fam {
        "garbage" => {
            let t = match r.below(5) {
                0 => f.last_t,
                1 => f.last_t + (r.below(1 << 34) as i128),
                2 => plant.l,
                3 => (r.next() as i128) << r.below(36),
                _ => f.last_t - (r.below(1 << 40) as i128),
            };
            f.last_t = t.max(0);
            let o = |r: &mut Rng| if r.chance(1, 2) { Some(lattice_offset(r)) } else { None };
            plant.advance(r.below(1 << 33) as i128);
            Some(meas(t, o(r), o(r), o(r), o(r), o(r)))
        }
        "extreme" => {
            plant.advance(f.interval);
            let off = if r.chance(1, 3) { lattice_offset(r) } else { plant.theta };
            let t = plant.l;
            if r.chance(1, 2) {
                Some(meas(t, Some(off), None, None, Some(off + f.delay), None))
            } else {
                Some(meas(t, None, Some(f.delay), None, None, Some(off - f.delay)))
            }
        }
        "zerovar" => {
            // identical raw offsets; event times advance by the interval, stay equal, or step back
            let adv = match r.below(6) {
                0 | 1 => 0,
                2 => 1,
                _ => f.interval,
            };
            plant.advance(adv);
            let t = plant.l - if r.chance(1, 10) { (r.below(1000) as i128) * FRAC } else { 0 };
            let off = f.const_off;
            match r.below(3) {
                0 => Some(meas(t, Some(off), None, None, Some(off), None)),
                1 => Some(meas(t, None, Some(0), None, None, Some(off))),
                _ => Some(meas(t, Some(off), Some(0), None, Some(off), Some(off))),
            }
        }
        _ => {
            // plant driven: sync, then (mostly) a delay response shortly after
            let want_delay = f.want_delay_next;
            let adv = if want_delay { f.interval / 16 + (r.below(1000) as i128) * FRAC } else { f.interval - f.interval / 16 };
            let adv = match fam {
                "eqback" if r.chance(1, 4) => 0,
                _ => adv,
            };
            plant.advance(adv);
            let mut t = plant.l;
            if fam == "eqback" && r.chance(1, 5) {
                t -= (r.below(3_000_000_000) as i128) * FRAC;
            }
            let j = jitter(r, f.jit);
            let ev = if fam == "kinds" && r.chance(1, 3) {
                // peer-delay measurement, sometimes combined with a sync
                let pd = f.delay + j;
                if r.chance(1, 2) {
                    meas(t, None, None, Some(pd), None, None)
                } else {
                    meas(t, Some(plant.theta + j), None, Some(pd), Some(plant.theta + pd), None)
                }
            } else if want_delay {
                meas(t, None, Some(f.delay + j), None, None, Some(plant.theta - f.delay + j))
            } else {
                meas(t, Some(plant.theta + j), None, None, Some(plant.theta + f.delay + j), None)
            };
            f.want_delay_next = !want_delay && !r.chance(1, 8);
            Some(ev)
        }
    }
}

pub fn features(obs: &[Obs], bound: f64) -> String {
    let mut step = false;
    let mut slew = false;
    let mut sat = false;
    let mut over = false;
    let mut nonfin = false;
    let mut panic = false;
    for o in obs {
        if o.res.is_none() {
            panic = true;
        }
        for c in &o.cmds {
            match c {
                Cmd::Step(_) => step = true,
                Cmd::Freq(f) => {
                    slew = true;
                    if !f.is_finite() {
                        nonfin = true;
                    } else if f.abs() > bound {
                        over = true;
                    } else if f.abs() == bound {
                        sat = true;
                    }
                }
            }
        }
    }
    let mut s = String::new();
    for (b, t) in [(step, "step"), (slew, "slew"), (sat, "sat"), (over, "over"), (nonfin, "nonfinite"), (panic, "panic")] {
        if b {
            s.push('+');
            s.push_str(t);
        }
    }
    if s.is_empty() {
        s.push_str("+quiet");
    }
    s
}

/// F13 regression stream (case index 0 of every run): two identical zero-offset measurements.
/// Before fix 3d2d7f9 the second one made BasicFilter call set_frequency(NaN).
pub fn witness_f13() -> (String, String) {
    let mut plant = Plant::new(Rng(1));
    let t0 = plant.l;
    let (events, obs) = run_stream::<BasicFilter>(0.5, &mut plant, |_p, i| {
        if i < 2 {
            Some(meas(t0, Some(0), None, None, Some(0), None))
        } else {
            None
        }
    });
    (
        format!("basic:regressF13{}", features(&obs, f64::INFINITY)),
        case_coq(&format!("(FBasic (fb {}))", fz(0.5)), &events, &plant.replies, &obs),
    )
}

/// F12 regression stream (case index 1 of every run): the first short stream (fixed internal
/// seed) on which the real Kalman filter saturates its frequency command at `max_freq_offset`.
/// Before fix 4d80470 such streams produced commands one ulp beyond the bound.
pub fn regress_f12() -> (String, String) {
    for idx in 0..20_000u64 {
        let mut r = Rng::new(0xF12, idx);
        let (class, term) = gen_case_sel(&mut r, 12, Some(false));
        if (class.contains("+sat") || class.contains("+over")) && !class.contains(":odd") {
            return (class.replacen("kalman:", "kalman:regressF12:", 1), term);
        }
    }
    let mut r = Rng::new(0xF12, 0);
    gen_case_sel(&mut r, 12, Some(false))
}

pub fn gen_case(_i: u64, r: &mut Rng, len: usize) -> (String, String) {
    gen_case_sel(r, len, None)
}

pub fn gen_case_sel(r: &mut Rng, len: usize, force_basic: Option<bool>) -> (String, String) {
    let fam_id = r.below(FAMILIES.len() as u64);
    let basic = r.chance(1, 4);
    let basic = force_basic.unwrap_or(basic);
    let n = 4 + r.below(len as u64 - 3) as usize;
    let mut plant = Plant::new(Rng(r.next()));
    let mut fam = setup_family(fam_id, r, &mut plant, n);
    if basic {
        let gain = *r.pick(&[0.5, 1.0, 0.1, 0.9, 1e-3]);
        let (events, obs) = run_stream::<BasicFilter>(gain, &mut plant, |p, k| next_event(&mut fam, p, k));
        (
            format!("basic:{}{}", FAMILIES[fam_id as usize], features(&obs, f64::INFINITY)),
            case_coq(&format!("(FBasic (fb {}))", fz(gain)), &events, &plant.replies, &obs),
        )
    } else {
        let (cfg, tag) = pick_cfg(r);
        let (events, obs) = run_stream::<KalmanFilter>(cfg, &mut plant, |p, k| next_event(&mut fam, p, k));
        (
            format!("kalman:{}:{}{}", FAMILIES[fam_id as usize], tag, features(&obs, cfg.max_freq_offset)),
            case_coq(&cfg_coq(&cfg), &events, &plant.replies, &obs),
        )
    }
}

pub fn main_c13() {
    let a = parse_args();
    let len = a
        .extra
        .iter()
        .position(|x| x == "--len")
        .and_then(|p| a.extra.get(p + 1))
        .and_then(|x| x.parse().ok())
        .unwrap_or(60usize);
    drive(|i, r| match i {
        0 => witness_f13(),
        1 => regress_f12(),
        _ => gen_case(i, r, len),
    });
}

fn main() {
    main_c13();
}
