//! C03, filter part: "every call returns normally" for the real `KalmanFilter` / `BasicFilter`
//! on measurement streams AS A PORT PRODUCES THEM (port/slave.rs: exactly one of
//! raw_sync_offset / raw_delay_offset / peer_delay per Measurement; `offset` = raw sync offset
//! minus the mean delay the filter last reported; `delay` = half the difference to the last raw
//! sync offset; event time = host-supplied receive timestamp of the Sync resp. transmit
//! timestamp of the Delay_Req), over the whole domain of C03: any timestamps in [0, 2^63 ns),
//! in particular EQUAL ones (coarse or frozen clock), offsets chosen by the master, and any
//! clock (failing, frozen, lagging).
//!
//! A case is
//!   (filter, release?, warm-up pattern, repetitions, warm-up clock reply,
//!    observed events, clock replies of the observed part, (warm-up result, observations))
//! The warm-up (pattern repeated `repetitions` times, every clock call answered by the constant
//! reply) is run on the real filter WITHOUT recording; only whether and where it panicked is
//! reported.  The Coq side (Filter/PanicCases.v) iterates the model over the same warm-up.
//! Observation format and printing are those of c13.rs.
#![allow(dead_code)]
#[path = "c13.rs"]
mod base;
use base::*;
use statime::config::TimePropertiesDS;
use statime::filters::{BasicFilter, Filter, KalmanConfiguration, KalmanFilter};
use statime::time::{Duration, Time};
use statime::Clock;
use svh::*;

const TMAX: i128 = ((1i128 << 63) - 1) * FRAC; // 2^63 - 1 ns, in Time bits

#[derive(Clone, Copy, PartialEq, Debug)]
enum CMode {
    /// Ok(event time + latency)
    Good,
    /// Ok(event time): a clock that is read at the timestamping instant
    Same,
    /// Ok(0) always (as the repository's test clocks do)
    Frozen,
    /// every call fails
    FailAll,
    /// step_clock fails, set_frequency works (a clock that cannot be stepped)
    StepFail,
    /// calls fail with probability 1/3
    Flaky,
    /// warm-up: every call is answered by the same reply, nothing is recorded
    Const(Option<u128>),
}

struct Clk {
    mode: CMode,
    now: i128,
    latency: i128,
    log: Vec<Cmd>,
    replies: Vec<Option<u128>>,
    rng: Rng,
}

impl Clk {
    fn reply(&mut self, is_step: bool) -> Option<u128> {
        let t = (self.now + self.latency).max(0) as u128;
        match self.mode {
            CMode::Good => Some(t),
            CMode::Same => Some(self.now.max(0) as u128),
            CMode::Frozen => Some(0),
            CMode::FailAll => None,
            CMode::StepFail => {
                if is_step {
                    None
                } else {
                    Some(t)
                }
            }
            CMode::Flaky => {
                if self.rng.chance(1, 3) {
                    None
                } else {
                    Some(t)
                }
            }
            CMode::Const(r) => r,
        }
    }
    fn call(&mut self, c: Cmd, is_step: bool) -> Result<Time, ()> {
        let r = self.reply(is_step);
        if !matches!(self.mode, CMode::Const(_)) {
            self.log.push(c);
            self.replies.push(r);
        }
        r.map(time).ok_or(())
    }
}

impl Clock for Clk {
    type Error = ();
    fn now(&self) -> Time {
        time(self.now.max(0) as u128)
    }
    fn step_clock(&mut self, offset: Duration) -> Result<Time, ()> {
        self.call(Cmd::Step(dbits(offset)), true)
    }
    fn set_frequency(&mut self, ppm: f64) -> Result<Time, ()> {
        self.call(Cmd::Freq(ppm), false)
    }
    fn set_properties(&mut self, _t: &TimePropertiesDS) -> Result<(), ()> {
        Ok(())
    }
}

/// What a slave port remembers between measurements.
#[derive(Default, Clone, Copy)]
struct PortSide {
    mean_delay: Option<i128>,
    last_raw_sync: Option<i128>,
}

impl PortSide {
    fn sync(&mut self, t: i128, raw: i128) -> Ev {
        self.last_raw_sync = Some(raw);
        meas(t, self.mean_delay.map(|d| raw.saturating_sub(d)), None, None, Some(raw), None)
    }
    fn delay(&mut self, t: i128, raw: i128) -> Ev {
        meas(t, None, self.last_raw_sync.map(|s| (s.saturating_sub(raw)) / 2), None, None, Some(raw))
    }
    fn peer(&mut self, t: i128, pd: i128) -> Ev {
        meas(t, None, None, Some(pd), None, None)
    }
    fn feedback(&mut self, o: &Obs) {
        if let Some((_, Some(md))) = o.res {
            self.mean_delay = Some(md);
        }
    }
}

fn apply<F: Filter>(filter: &mut F, cfg: &F::Config, ev: Ev, clk: &mut Clk) -> Option<(bool, Option<i128>)> {
    if let Ev::Meas(m) = ev {
        clk.now = tbits(m.event_time) as i128;
    }
    catch(|| match ev {
        Ev::Meas(m) => {
            let u = filter.measurement(m, clk);
            (u.next_update.is_some(), u.mean_delay.map(dbits))
        }
        Ev::Update => {
            let u = filter.update(clk);
            (u.next_update.is_some(), u.mean_delay.map(dbits))
        }
        Ev::Demob => {
            let fresh = F::new(cfg.clone());
            let old = std::mem::replace(filter, fresh);
            old.demobilize(clk);
            (false, None)
        }
    })
}

struct Run {
    warm_res: Option<u64>,
    events: Vec<Ev>,
    obs: Vec<Obs>,
    replies: Vec<Option<u128>>,
}

/// warm-up (unobserved), then the observed part generated in closed loop
fn run_filter<F: Filter>(
    cfg: F::Config,
    mode: CMode,
    latency: i128,
    seed: u64,
    warm: &[Ev],
    reps: u64,
    warm_reply: Option<u128>,
    mut gen: impl FnMut(&mut PortSide, usize) -> Option<Ev>,
) -> Run {
    let mut clk = Clk { mode: CMode::Const(warm_reply), now: 0, latency, log: vec![], replies: vec![], rng: Rng(seed) };
    let mut run = Run { warm_res: None, events: vec![], obs: vec![], replies: vec![] };
    let mut filter = match catch(|| F::new(cfg.clone())) {
        Some(f) => f,
        None => {
            run.obs.push(Obs { cmds: vec![], res: None, est: None });
            return run;
        }
    };
    let mut n = 0u64;
    'warm: for _ in 0..reps {
        for ev in warm {
            let ok = apply(&mut filter, &cfg, *ev, &mut clk).is_some()
                && catch(|| {
                    let e = filter.current_estimates();
                    (dbits(e.offset_from_master), dbits(e.mean_delay))
                })
                .is_some();
            if !ok {
                run.warm_res = Some(n);
                break 'warm;
            }
            n += 1;
        }
    }
    if run.warm_res.is_some() {
        return run;
    }
    clk.mode = mode;
    let mut side = PortSide::default();
    let mut i = 0;
    while let Some(ev) = gen(&mut side, i) {
        i += 1;
        run.events.push(ev);
        clk.log.clear();
        let r = apply(&mut filter, &cfg, ev, &mut clk);
        let cmds = clk.log.clone();
        match r {
            None => {
                run.obs.push(Obs { cmds, res: None, est: None });
                break;
            }
            Some(u) => {
                let est = catch(|| {
                    let e = filter.current_estimates();
                    (dbits(e.offset_from_master), dbits(e.mean_delay))
                });
                let o = Obs { cmds, res: Some(u), est };
                side.feedback(&o);
                let stop = o.est.is_none();
                run.obs.push(o);
                if stop {
                    break;
                }
            }
        }
    }
    run.replies = clk.replies.clone();
    run
}

fn case_term(kind: &str, warm: &[Ev], reps: u64, warm_reply: Option<u128>, run: &Run) -> String {
    format!(
        "({}, {}, {}, {}, {}, {}, {}, ({}, {}))",
        kind,
        coq_bool(!cfg!(debug_assertions)),
        zlist(warm.iter().map(ev_coq)),
        reps,
        match warm_reply {
            Some(t) => format!("(Some {})", zmag(t)),
            None => "None".into(),
        },
        zlist(run.events.iter().map(ev_coq)),
        zlist(run.replies.iter().map(|r| match r {
            Some(t) => format!("Some {}", zmag(*t)),
            None => "None".into(),
        })),
        match run.warm_res {
            Some(n) => format!("(Some {})", n),
            None => "None".into(),
        },
        zlist(run.obs.iter().map(obs_coq))
    )
}

fn outcome(run: &Run) -> String {
    if let Some(_) = run.warm_res {
        return "+panic-in-warmup".into();
    }
    let mut s = String::new();
    if run.obs.iter().any(|o| o.res.is_none()) {
        s.push_str("+panic");
    } else if run.obs.iter().any(|o| o.est.is_none()) {
        s.push_str("+estimates-panic");
    }
    if run.obs.iter().any(|o| o.cmds.iter().any(|c| matches!(c, Cmd::Step(_)))) {
        s.push_str("+step");
    }
    if run.obs.iter().any(|o| o.cmds.iter().any(|c| matches!(c, Cmd::Freq(_)))) {
        s.push_str("+slew");
    }
    if s.is_empty() {
        s.push_str("+quiet");
    }
    s
}

// ------------------------------------------------------------------ fixed witnesses
const T0: i128 = 1_000_000_000 * FRAC; // 1 s

fn ns(v: i128) -> i128 {
    v * FRAC
}

fn kalman_case(
    tag: &str,
    cfg: KalmanConfiguration,
    cfgtag: &str,
    mode: CMode,
    latency: i128,
    seed: u64,
    warm: &[Ev],
    reps: u64,
    warm_reply: Option<u128>,
    gen: impl FnMut(&mut PortSide, usize) -> Option<Ev>,
) -> (String, String) {
    let run = run_filter::<KalmanFilter>(cfg, mode, latency, seed, warm, reps, warm_reply, gen);
    (
        format!("kalman:{}:{:?}:{}{}", tag, mode, cfgtag, outcome(&run)).replace("Const(None)", "const").replace("(", "").replace(")", ""),
        case_term(&cfg_coq(&cfg), warm, reps, warm_reply, &run),
    )
}

/// F24-a: five peer delay measurements of 0 ns, one per second, well-behaved clock.
fn witness_peer_zero() -> (String, String) {
    kalman_case("witness-peer-zero", default_cfg(), "default", CMode::Good, ns(1000), 1, &[], 0, None, |p, i| {
        if i < 6 {
            Some(p.peer(T0 + i as i128 * T0, 0))
        } else {
            None
        }
    })
}

/// F24-b: Sync and Delay_Resp measurements alternating at ONE event time with constant raw
/// offsets (300 ns / -300 ns): the tenth measurement panics.
fn witness_equal_times() -> (String, String) {
    kalman_case("witness-equal-times", default_cfg(), "default", CMode::Same, 0, 1, &[], 0, None, |p, i| {
        if i < 12 {
            Some(if i % 2 == 0 { p.sync(T0, ns(300)) } else { p.delay(T0, ns(-300)) })
        } else {
            None
        }
    })
}

/// F24-c: a P2P port on a link whose measured delay is exactly 0 (coarse timestamps), Sync every
/// second with a little noise, clock read at the timestamping instant: the fifth peer delay
/// measurement panics.
fn witness_p2p_zero() -> (String, String) {
    kalman_case("witness-p2p-zero", default_cfg(), "default", CMode::Same, 0, 1, &[], 0, None, |p, i| {
        let k = (i / 2) as i128;
        if i >= 16 {
            None
        } else if i % 2 == 0 {
            Some(p.peer(T0 + k * T0, 0))
        } else {
            Some(p.sync(T0 + k * T0 + T0 / 2, ns(100 + (k * 37) % 50)))
        }
    })
}

/// The wander route: event times frozen, a clock that cannot be stepped, a master that moves its
/// origin timestamps by whole seconds with period three.  Every measurement looks like a large
/// surprise, `wander *= 4.0` is never balanced (no time passes, so no process noise is ever
/// added), after about 540 increases it is infinite and `inf * 0` (process noise for a zero time
/// step) is NaN.  With the default precision_hysteresis (16) this takes 18 334 measurements
/// (`long`), with hysteresis 0 a few hundred.
fn wander_pattern() -> Vec<Ev> {
    let mut p = PortSide::default();
    let mut v = vec![];
    for k in 0..3i128 {
        let base = k * T0; // 0 s, 1 s, 2 s
        v.push(p.sync(T0, base + ns(1000)));
        v.push(p.delay(T0, base - ns(1000)));
    }
    v
}

fn witness_wander(long: bool) -> (String, String) {
    let mut cfg = default_cfg();
    let (reps, tag) = if long {
        (3055, "default")
    } else {
        cfg.precision_hysteresis = 0;
        (180, "hyst0")
    };
    let pat = wander_pattern();
    let tail = pat.clone();
    kalman_case("witness-wander", cfg, tag, CMode::StepFail, 0, 1, &pat, reps, None, move |_p, i| {
        if i < 2 * tail.len() {
            Some(tail[i % tail.len()])
        } else {
            None
        }
    })
}

// ------------------------------------------------------------------ generated streams
const FAMS: [&str; 7] = ["frozen", "coarse", "p2p", "masterctl", "extremes", "lifecycle", "basic"];

fn pick_mode(r: &mut Rng) -> CMode {
    *r.pick(&[CMode::Good, CMode::Good, CMode::Same, CMode::Frozen, CMode::FailAll, CMode::StepFail, CMode::Flaky])
}

/// a small set of values: identical samples are what makes the noise estimate zero
fn small_value(r: &mut Rng) -> i128 {
    match r.below(8) {
        0 | 1 => 0,
        2 => ns(r.below(4) as i128),
        3 => ns(1000 * r.below(4) as i128),
        4 => ns(r.range(-500_000, 500_000) as i128),
        5 => r.range(-3, 3) as i128, // below a nanosecond
        6 => ns(8 * r.below(100) as i128), // 8 ns granularity
        _ => ns(1_000_000 + r.range(-2, 2) as i128), // around the step threshold
    }
}

fn extreme_value(r: &mut Rng) -> i128 {
    let m: i128 = match r.below(6) {
        0 => TMAX,
        1 => TMAX - ns(r.below(3) as i128),
        2 => ns(1_000_000_000) * r.below(1_000_000_000) as i128,
        3 => (r.next() as i128) << r.below(33),
        4 => 0,
        _ => ns(1_000_000) + r.range(-1, 1) as i128,
    };
    if r.chance(1, 2) {
        -m
    } else {
        m
    }
}

struct Gen {
    fam: &'static str,
    n: usize,
    r: Rng,
    t: i128,
    quantum: i128,
    vals: Vec<i128>,
    sync_v: i128,
    delay_v: i128,
    peer_v: i128,
    p2p: bool,
    phase: usize,
}

fn next_ev(g: &mut Gen, p: &mut PortSide, i: usize) -> Option<Ev> {
    if i >= g.n {
        return None;
    }
    let r = &mut g.r;
    let life = if g.fam == "lifecycle" { 5 } else { 40 };
    if i > 0 && r.chance(1, life) {
        return Some(if r.chance(1, 3) { Ev::Demob } else { Ev::Update });
    }
    // event time: never decreasing here (a port hands over timestamps in the order of the
    // events); equal, one unit later, or later by the nominal interval
    let adv: i128 = match g.fam {
        "frozen" => 0,
        "coarse" => {
            // real time advances by 1/16 s per event, the timestamp shows it in steps of `quantum`
            T0 / 16
        }
        "extremes" => match r.below(5) {
            0 => 0,
            1 => 1,
            2 => TMAX,
            _ => T0,
        },
        _ => match r.below(6) {
            0 | 1 => 0,
            2 => 1,
            3 => ns(1),
            _ => T0 >> r.below(4),
        },
    };
    g.t = (g.t + adv).min(TMAX);
    let t = if g.fam == "coarse" { g.t / g.quantum * g.quantum } else { g.t };
    let v = |r: &mut Rng, base: i128, vals: &Vec<i128>| -> i128 {
        match r.below(6) {
            0 => base + *r.pick(vals),
            _ => base,
        }
    };
    g.phase += 1;
    match g.fam {
        "p2p" => {
            if g.phase % 2 == 1 {
                let pd = v(r, g.peer_v, &g.vals);
                Some(p.peer(t, pd))
            } else {
                let s = v(r, g.sync_v, &g.vals);
                Some(p.sync(t, s))
            }
        }
        "masterctl" => {
            // the master shifts its timestamps: common-mode jumps of sync and delay offsets
            let k = (g.phase / 2) as i128 % 3;
            let jump = k * g.quantum;
            if g.phase % 2 == 1 {
                Some(p.sync(t, g.sync_v + jump))
            } else {
                Some(p.delay(t, g.delay_v + jump))
            }
        }
        "extremes" => {
            let x = if r.chance(1, 2) { extreme_value(r) } else { g.sync_v };
            match r.below(3) {
                0 => Some(p.sync(t, x)),
                1 => Some(p.delay(t, x)),
                _ => Some(p.peer(t, x)),
            }
        }
        _ => {
            if g.p2p && r.chance(1, 3) {
                let pd = v(r, g.peer_v, &g.vals);
                Some(p.peer(t, pd))
            } else if g.phase % 2 == 1 || g.p2p {
                let s = v(r, g.sync_v, &g.vals);
                Some(p.sync(t, s))
            } else {
                let d = v(r, g.delay_v, &g.vals);
                Some(p.delay(t, d))
            }
        }
    }
}

fn gen_case(r: &mut Rng, len: usize) -> (String, String) {
    let fam = FAMS[r.below(FAMS.len() as u64) as usize];
    let mode = pick_mode(r);
    let n = 6 + r.below(len as u64 - 5) as usize;
    let latency = ns(r.below(2_000) as i128);
    let seed = r.next();
    let sync_v = small_value(r);
    let mut g = Gen {
        fam,
        n,
        r: Rng(r.next()),
        t: match r.below(4) {
            0 => 0,
            1 => TMAX - ns(r.below(5) as i128 * 1_000_000_000),
            _ => T0 * (1 + r.below(1_700_000_000) as i128),
        },
        quantum: *r.pick(&[ns(1_000), ns(1_000_000), T0, 4 * T0]),
        vals: (0..1 + r.below(3)).map(|_| small_value(r)).collect(),
        sync_v,
        delay_v: if r.chance(1, 2) { -sync_v } else { small_value(r) },
        peer_v: if r.chance(1, 2) { 0 } else { small_value(r).abs() },
        p2p: r.chance(1, 3),
        phase: 0,
    };
    if fam == "basic" || (fam != "masterctl" && r.chance(1, 8)) {
        let gain = *r.pick(&[0.5, 1.0, 0.1, 0.9, 1e-3, 0.0]);
        let run = run_filter::<BasicFilter>(gain, mode, latency, seed, &[], 0, None, |p, i| next_ev(&mut g, p, i));
        (
            format!("basic:{}:{:?}{}", fam, mode, outcome(&run)),
            case_term(&format!("(FBasic (fb {}))", fz(gain)), &[], 0, None, &run),
        )
    } else {
        let (mut cfg, mut tag) = pick_cfg(r);
        if tag == "odd" {
            // configurations outside the documented ranges are not part of this property
            cfg = default_cfg();
            tag = "default";
        }
        if fam == "masterctl" && r.chance(1, 2) {
            cfg.precision_hysteresis = *r.pick(&[0u8, 1, 2]);
            tag = "lowhyst";
        }
        kalman_case(fam, cfg, tag, mode, latency, seed, &[], 0, None, |p, i| next_ev(&mut g, p, i))
    }
}

fn main() {
    let a = parse_args();
    let len = a
        .extra
        .iter()
        .position(|x| x == "--len")
        .and_then(|p| a.extra.get(p + 1))
        .and_then(|x| x.parse().ok())
        .unwrap_or(40usize);
    let long = a.extra.iter().any(|x| x == "--long");
    drive(|i, r| match i {
        0 => witness_peer_zero(),
        1 => witness_equal_times(),
        2 => witness_p2p_zero(),
        3 => witness_wander(false),
        4 if long => witness_wander(true),
        _ => gen_case(r, len),
    });
}
