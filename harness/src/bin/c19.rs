//! C19: observable states built with the REAL statime / statime-linux types.
//!
//! For case `index` of seed `s` prints
//!     index \t class \t <obs_state term> @@ <ftoks term> @@ <hex of serde_json::to_vec(&state)>
//! The state term is the Coq mirror (Obs/Json.v: mkObs ...) of the Rust value,
//! written from the Rust fields (not from the JSON).  `ftoks` are the decimal
//! renderings (`Display`) of the floating-point values the exporter publishes,
//! computed with the same public conversions (`Duration::seconds`,
//! `TimeInterval::to_nanos`).  The JSON bytes are exactly what observer.rs's
//! `write_json` sends.  The check serves them to the real exporter binary.
use fixed::types::{I48F16, I96F32};
use statime::config::{ClockAccuracy, ClockIdentity, ClockQuality, LeapIndicator, SdoId, TimePropertiesDS, TimeSource};
use statime::observability::port::{DelayMechanism, PortDS, PortState};
use statime::observability::{current::CurrentDS, default::DefaultDS, parent::ParentDS, PathTraceDS};
use statime::time::Duration;
use statime_linux::metrics::exporter::{ObservableState, ProgramData};
use statime_linux::observer::ObservableInstanceState;
use svh::*;

const ACC_UNITS: [(ClockAccuracy, &str); 29] = [
    (ClockAccuracy::Reserved, "Reserved"), (ClockAccuracy::PS1, "PS1"), (ClockAccuracy::PS2_5, "PS2_5"),
    (ClockAccuracy::PS10, "PS10"), (ClockAccuracy::PS25, "PS25"), (ClockAccuracy::PS100, "PS100"),
    (ClockAccuracy::PS250, "PS250"), (ClockAccuracy::NS1, "NS1"), (ClockAccuracy::NS2_5, "NS2_5"),
    (ClockAccuracy::NS10, "NS10"), (ClockAccuracy::NS25, "NS25"), (ClockAccuracy::NS100, "NS100"),
    (ClockAccuracy::NS250, "NS250"), (ClockAccuracy::US1, "US1"), (ClockAccuracy::US2_5, "US2_5"),
    (ClockAccuracy::US10, "US10"), (ClockAccuracy::US25, "US25"), (ClockAccuracy::US100, "US100"),
    (ClockAccuracy::US250, "US250"), (ClockAccuracy::MS1, "MS1"), (ClockAccuracy::MS2_5, "MS2_5"),
    (ClockAccuracy::MS10, "MS10"), (ClockAccuracy::MS25, "MS25"), (ClockAccuracy::MS100, "MS100"),
    (ClockAccuracy::MS250, "MS250"), (ClockAccuracy::S1, "S1"), (ClockAccuracy::S10, "S10"),
    (ClockAccuracy::SGT10, "SGT10"), (ClockAccuracy::Unknown, "Unknown"),
];
const TS_UNITS: [(TimeSource, &str); 10] = [
    (TimeSource::AtomicClock, "AtomicClock"), (TimeSource::Gnss, "Gnss"), (TimeSource::TerrestrialRadio, "TerrestrialRadio"),
    (TimeSource::SerialTimeCode, "SerialTimeCode"), (TimeSource::Ptp, "Ptp"), (TimeSource::Ntp, "Ntp"),
    (TimeSource::HandSet, "HandSet"), (TimeSource::Other, "Other"), (TimeSource::InternalOscillator, "InternalOscillator"),
    (TimeSource::Reserved, "Reserved"),
];
const PORT_STATES: [(PortState, &str); 9] = [
    (PortState::Initializing, "Initializing"), (PortState::Faulty, "Faulty"), (PortState::Disabled, "Disabled"),
    (PortState::Listening, "Listening"), (PortState::PreMaster, "PreMaster"), (PortState::Master, "Master"),
    (PortState::Passive, "Passive"), (PortState::Uncalibrated, "Uncalibrated"), (PortState::Slave, "Slave"),
];

fn cstr(s: &str) -> String {
    assert!(s.bytes().all(|b| (32..127).contains(&b)));
    format!("\"{}\"", s.replace('"', "\"\""))
}
fn chars(s: &str) -> String {
    format!("(s2c {})", cstr(s))
}
fn id_term(id: &ClockIdentity) -> String {
    bytes_coq(&id.0)
}

fn gen_id(r: &mut Rng) -> ClockIdentity {
    match r.below(6) {
        0 => ClockIdentity([0; 8]),
        1 => ClockIdentity([0xff; 8]),
        2 => ClockIdentity::from_mac_address([0x9c, 0x6b, 0, r.next() as u8, 0x0a, 0x10]),
        _ => {
            let b = r.bytes(8);
            ClockIdentity([b[0], b[1], b[2], b[3], b[4], b[5], b[6], b[7]])
        }
    }
}

fn gen_acc(r: &mut Rng) -> (ClockAccuracy, String) {
    if r.chance(1, 6) {
        // 0x80 + v must fit u8 without tripping the debug overflow check; the wire only yields v <= 0x7d
        let v = *r.pick(&[0u8, 1, 0x7d, 0x7e, 0x7f]);
        let v = if r.chance(1, 2) { v } else { r.below(0x7e) as u8 };
        (ClockAccuracy::ProfileSpecific(v), format!("(AccProfile {})", v))
    } else {
        let (a, n) = r.pick(&ACC_UNITS).clone();
        (a, format!("(AccUnit {})", cstr(n)))
    }
}

fn gen_quality(r: &mut Rng) -> (ClockQuality, String) {
    let (a, at) = gen_acc(r);
    let class = *r.pick(&[0u8, 6, 7, 13, 52, 127, 128, 187, 248, 255]);
    let oslv = *r.pick(&[0u16, 1, 0x4e5d, 0x8000 - 23 * 256, 0xffff, 0x8000]);
    (
        ClockQuality { clock_class: class, clock_accuracy: a, offset_scaled_log_variance: oslv },
        format!("(mkCQ {} {} {})", class, at, oslv),
    )
}

/// Duration bit patterns: 0, tiny, ns, us, ms, s, the 64-bit boundary, +-10 s, uniform within +-10 s.
fn gen_dur_bits(r: &mut Rng) -> i128 {
    let ns: i128 = 1 << 32;
    let ten_s: i128 = 10_000_000_000 * ns;
    let mag: i128 = match r.below(14) {
        0 => 0,
        1 => 1,
        2 => ns,
        3 => 1500 * ns,
        4 => 1_000_000 * ns + 12345,
        5 => 1_000_000_000 * ns,
        6 => (1i128 << 63) - 1,
        7 => 1i128 << 63,
        8 => (1i128 << 63) + 1,
        9 => (1i128 << 64) + r.below(1 << 20) as i128,
        10 => ten_s,
        11 => ten_s - 1,
        12 => (r.u128() % (ten_s as u128)) as i128,
        _ => (r.next() >> r.below(60)) as i128,
    };
    if r.chance(1, 2) { -mag } else { mag }
}

fn gen_ti_bits(r: &mut Rng) -> i64 {
    let mag: i64 = match r.below(9) {
        0 => 0,
        1 => 1,
        2 => 1 << 16,
        3 => 1500 << 16,
        4 => (1_000_000i64 << 16) + 77,
        5 => i64::MAX,
        6 => (r.next() >> 1) as i64,
        7 => (r.below(1 << 40)) as i64,
        _ => (250i64 << 16) + r.below(65536) as i64,
    };
    match r.below(5) {
        0 => -mag,
        1 if mag == i64::MAX => i64::MIN,
        _ => mag,
    }
}

fn gen_f64(r: &mut Rng) -> f64 {
    match r.below(10) {
        0 => 0.0,
        1 => 12.5,
        2 => 648.041376773,
        3 => 1e-7,
        4 => 86400.0 * 365.0,
        5 => 1e16,
        6 => 3.0e21,
        7 => (r.next() % 1_000_000_000) as f64 / 1e9,
        8 => r.next() as f64 / 4096.0,
        _ => (r.below(100_000) as f64) + (r.below(1_000_000_000) as f64) * 1e-9,
    }
}

const PORT_TEMPLATE: &str = r#"{"port_identity":{"clock_identity":[0,0,0,0,0,0,0,0],"port_number":1},"port_state":"Listening","log_announce_interval":1,"announce_receipt_timeout":3,"log_sync_interval":0,"delay_mechanism":"NoMechanism","version_number":2,"minor_version_number":1,"delay_asymmetry":0,"master_only":false}"#;
const PARENT_TEMPLATE: &str = r#"{"parent_port_identity":{"clock_identity":[0,0,0,0,0,0,0,0],"port_number":0},"grandmaster_identity":[0,0,0,0,0,0,0,0],"grandmaster_clock_quality":{"clock_class":248,"clock_accuracy":"Unknown","offset_scaled_log_variance":0},"grandmaster_priority_1":128,"grandmaster_priority_2":128}"#;

fn main() {
    drive(|index, r| {
        // ---------------- role
        let role = match index % 3 {
            0 => "gm",
            1 => "slave",
            _ => "bc",
        };
        let own = gen_id(r);
        let nports: usize = match (role, r.below(8)) {
            ("gm", 0) => 0,
            ("gm", _) => 1 + r.below(3) as usize,
            ("slave", _) => 1,
            (_, 7) => 2 + r.below(30) as usize,
            // a big boundary clock: the observation message is larger than 16 KiB
            ("bc", 6) if r.chance(1, 3) => 52 + r.below(20) as usize,
            _ => 2 + r.below(4) as usize,
        };
        // ---------------- program
        let up = gen_f64(r);
        let ver = *r.pick(&["0.4.0", "1.0.0-beta.2", "v", "0.4.0+local build (x86_64)"]);
        let commit = *r.pick(&["e188e85654aa8b8b201467d0861baf06e46dc5ed", "e188e85654aa8b8b201467d0861baf06e46dc5ed-dirty", "unknown", ""]);
        let date = *r.pick(&["2000-01-01", "2025-03-13", "unknown"]);
        let program = ProgramData { version: ver.to_owned(), build_commit: commit.to_owned(), build_commit_date: date.to_owned(), uptime_seconds: up };
        let up_json = serde_json::to_string(&up).unwrap();
        // what the exporter will publish: the number after serde_json's float parser (the only
        // f64 of the state; exact since the workspace enables `float_roundtrip`)
        let up_seen: f64 = serde_json::from_str(&up_json).unwrap();
        let up_disp = format!("{}", up_seen);
        // ---------------- default_ds
        let (q, qt) = gen_quality(r);
        let p1 = *r.pick(&[0u8, 1, 127, 128, 255]);
        let p2 = r.next() as u8;
        let domain = *r.pick(&[0u8, 1, 4, 24, 127, 255]);
        let slave_only = role == "slave" && r.chance(1, 2);
        let sdo = *r.pick(&[0u16, 0x100, 0xfff, 1]);
        let default_ds = DefaultDS {
            clock_identity: own, number_ports: nports as u16, clock_quality: q, priority_1: p1, priority_2: p2,
            domain_number: domain, slave_only, sdo_id: SdoId::try_from(sdo).unwrap(),
        };
        // ---------------- current_ds
        let steps: u16 = if role == "gm" { 0 } else { *r.pick(&[1u16, 2, 3, 255, 65535]) };
        let (off_bits, del_bits) = if role == "gm" { (0i128, 0i128) } else { (gen_dur_bits(r), gen_dur_bits(r).abs()) };
        let offset = Duration::from_fixed_nanos(I96F32::from_bits(off_bits));
        let delay = Duration::from_fixed_nanos(I96F32::from_bits(del_bits));
        let current_ds = CurrentDS { steps_removed: steps, offset_from_master: offset, mean_delay: delay };
        // ---------------- parent_ds
        let mut parent: ParentDS = serde_json::from_str(PARENT_TEMPLATE).unwrap();
        let (gm_id, par_id, par_port) = if role == "gm" { (own, own, 0u16) } else { (gen_id(r), gen_id(r), *r.pick(&[1u16, 2, 7, 65535])) };
        let (gq, gqt) = if role == "gm" { (q, qt.clone()) } else { gen_quality(r) };
        let (g1, g2) = if role == "gm" { (p1, p2) } else { (r.next() as u8, r.next() as u8) };
        parent.parent_port_identity.clock_identity = par_id;
        parent.parent_port_identity.port_number = par_port;
        parent.grandmaster_identity = gm_id;
        parent.grandmaster_clock_quality = gq;
        parent.grandmaster_priority_1 = g1;
        parent.grandmaster_priority_2 = g2;
        // ---------------- time properties: every combination is reached through index
        let k = index / 3;
        let utc = match k % 4 { 0 => None, 1 => Some(37i16), 2 => Some(-1), _ => Some(*r.pick(&[0i16, i16::MAX, i16::MIN, 18])) };
        let leap = [LeapIndicator::NoLeap, LeapIndicator::Leap61, LeapIndicator::Leap59][((k / 4) % 3) as usize];
        let (tt, ft, pt) = (((k / 12) & 1) == 1, ((k / 24) & 1) == 1, ((k / 48) & 1) == 1);
        let (ts, tst) = match r.below(5) {
            0 => { let v = *r.pick(&[0u8, 1, 0xe, 0xf]); (TimeSource::ProfileSpecific(v), format!("(TsProfile {})", v)) }
            1 => { let v = r.next() as u8; (TimeSource::Unknown(v), format!("(TsUnknown {})", v)) }
            _ => { let (t, n) = r.pick(&TS_UNITS).clone(); (t, format!("(TsUnit {})", cstr(n))) }
        };
        let tp = TimePropertiesDS { current_utc_offset: utc, leap_indicator: leap, time_traceable: tt, frequency_traceable: ft, ptp_timescale: pt, time_source: ts };
        // ---------------- path trace
        let plen: usize = if role == "gm" && r.chance(1, 2) { 0 } else {
            match r.below(10) { 0 => 0, 1 => 1, 2 => 2, 3 => 127, 4 => 128, 5 => 8, 6 => r.below(129) as usize, _ => steps.min(6) as usize }
        };
        let ids: Vec<ClockIdentity> = (0..plen).map(|_| gen_id(r)).collect();
        let pt_enable = (index / 2) % 2 == 0;
        let path = PathTraceDS { list: ids.iter().cloned().collect(), enable: pt_enable };
        // ---------------- ports
        let template: PortDS = serde_json::from_str(PORT_TEMPLATE).unwrap();
        let mut ports: Vec<PortDS> = vec![];
        let mut port_terms: Vec<String> = vec![];
        let mut link_toks: Vec<String> = vec![];
        let mut states_seen = String::new();
        for pn in 0..nports {
            let mut p = template;
            let number: u16 = if r.chance(1, 10) { *r.pick(&[0u16, 65535, 256]) } else { pn as u16 + 1 };
            p.port_identity.clock_identity = own;
            p.port_identity.port_number = number;
            let (st, stn) = match (role, pn) {
                ("gm", _) if r.chance(3, 4) => (PortState::Master, "Master"),
                ("slave", 0) | ("bc", 0) if r.chance(3, 4) => if r.chance(1, 4) { (PortState::Uncalibrated, "Uncalibrated") } else { (PortState::Slave, "Slave") },
                _ => PORT_STATES[((index as usize / 3) + pn) % 9].clone(),
            };
            p.port_state = st;
            states_seen.push_str(&stn[..2]);
            p.log_announce_interval = *r.pick(&[1i8, 0, -3, 127, -128]);
            p.announce_receipt_timeout = *r.pick(&[3u8, 2, 10, 255]);
            p.log_sync_interval = *r.pick(&[0i8, -4, 1, -128, 127]);
            p.version_number = 2;
            p.minor_version_number = (r.below(2)) as u8;
            let asym = gen_ti_bits(r);
            p.delay_asymmetry.0 = I48F16::from_bits(asym);
            p.master_only = r.chance(1, 4);
            let mut ti = template.delay_asymmetry;
            let mech_term;
            match (index as usize + pn) % 5 {
                0 => { let a = *r.pick(&[0i8, 1, -7, 127, -128]); p.delay_mechanism = DelayMechanism::E2E { log_min_delay_req_interval: a }; mech_term = format!("(DmE2E {})", z(a)); }
                1 => {
                    let a = *r.pick(&[0i8, 1, -7, 127, -128]);
                    let d = gen_ti_bits(r);
                    ti.0 = I48F16::from_bits(d);
                    p.delay_mechanism = DelayMechanism::P2P { log_min_p_delay_req_interval: a, mean_link_delay: ti };
                    mech_term = format!("(DmP2P {} {})", z(a), z(d));
                    link_toks.push(format!("{}", ti.to_nanos()));
                }
                2 => { p.delay_mechanism = DelayMechanism::NoMechanism; mech_term = "DmNone".to_owned(); }
                3 => { let d = gen_ti_bits(r); ti.0 = I48F16::from_bits(d); p.delay_mechanism = DelayMechanism::CommonP2P { mean_link_delay: ti }; mech_term = format!("(DmCommonP2P {})", z(d)); }
                _ => { p.delay_mechanism = DelayMechanism::Special; mech_term = "DmSpecial".to_owned(); }
            }
            port_terms.push(format!(
                "mkPort (mkPI {} {}) {} {} {} {} {} {} {} {} {}",
                id_term(&own), number, cstr(stn), z(p.log_announce_interval), p.announce_receipt_timeout, z(p.log_sync_interval),
                mech_term, p.version_number, p.minor_version_number, z(asym), coq_bool(p.master_only)
            ));
            ports.push(p);
        }

        let state = ObservableState {
            program,
            instance: ObservableInstanceState { default_ds, current_ds, parent_ds: parent, time_properties_ds: tp, path_trace_ds: path, port_ds: ports },
        };
        let json = serde_json::to_vec(&state).unwrap();
        let hex: String = json.iter().map(|b| format!("{:02x}", b)).collect();

        let st_term = format!(
            "mkObs {} {} {} {} {} {} {} {} {} {} {} {} {} {} {} (mkPI {} {}) {} {} {} {} {} {} {} {} {} {} {} {} {}",
            cstr(ver), cstr(commit), cstr(date), chars(&up_json),
            id_term(&own), nports, qt, p1, p2, domain, coq_bool(slave_only), sdo,
            steps, z(off_bits), z(del_bits),
            id_term(&par_id), par_port, id_term(&gm_id), gqt, g1, g2,
            coq_opt(utc, |v| z(v)),
            match leap { LeapIndicator::NoLeap => "NoLeap", LeapIndicator::Leap61 => "Leap61", LeapIndicator::Leap59 => "Leap59" },
            coq_bool(tt), coq_bool(ft), coq_bool(pt), tst,
            zlist(ids.iter().map(id_term)), coq_bool(pt_enable),
            zlist(port_terms),
        );
        let ft_term = format!(
            "mkFt {} {} {} {}",
            chars(&up_disp), chars(&format!("{}", offset.seconds())), chars(&format!("{}", delay.seconds())),
            zlist(link_toks.iter().map(|t| chars(t))),
        );
        let big = |b: i128| if b == 0 { "0" } else if b.unsigned_abs() >> 63 == 0 { "s" } else { "L" };
        let class = format!(
            "{}{}:p{}:pt{}:off{}{}:utc{}{}{}{}:{}",
            role, if json.len() > 16384 { "~big" } else if up_seen != up { "~ulp" } else { "" }, nports.min(9), match plen { 0 => "0".to_owned(), 128 => "max".to_owned(), n if n < 4 => format!("{}", n), _ => "n".to_owned() },
            if off_bits < 0 { "-" } else { "+" }, big(off_bits),
            utc.is_some() as u8, tt as u8, ft as u8, pt as u8, states_seen
        );
        (class, format!("{} @@ {} @@ {}", st_term, ft_term, hex))
    });
}
