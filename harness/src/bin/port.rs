//! Port-level correspondence cases: `port --gen <name> --seed s --count n`.
use svh::*;

fn main() {
    let a = parse_args();
    let gen = a
        .extra
        .iter()
        .position(|x| x == "--gen")
        .and_then(|i| a.extra.get(i + 1).cloned())
        .unwrap_or_else(|| "mix".to_string());
    drive(move |i, r| {
        if gen == "c07" {
            return gens::gen_c07(r);
        }
        if gen == "c01" {
            return net::gen_c01(r);
        }
        if gen == "warm" {
            return gens::gen_warm(i as u64, r, None);
        }
        if gen == "warmdr" {
            return gens::gen_warm(i as u64, r, Some(2));
        }
        let (class, sim) = match gen.as_str() {
            "mix" => gens::gen_mix(r),
            "c09" => gens::gen_c09(r),
            "c14" => gens::gen_c14(r),
            "c11" => gens::gen_c11(r),
            "c06" => gens::gen_c06(r),
            "c05" => gens::gen_c05(r),
            "c08" => gens::gen_c08(r),
            "c15" => gens::gen_c15(r),
            "c12" => gens::gen_c12(r),
            "c03" => gens::gen_c03(r),
            "c10" => gens::gen_c10(r, false),
            "c10long" => gens::gen_c10(r, true),
            other => panic!("unknown generator {other}"),
        };
        (class, sim.case_term())
    });
}
