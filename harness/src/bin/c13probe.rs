use fixed::types::{I96F32, U96F32};
use statime::time::{Duration, Time};
use svh::*;
fn main() {
    silence_panics();
    let mut t = Time::from_fixed_nanos(U96F32::from_bits(0));
    let d = Duration::from_fixed_nanos(I96F32::from_bits(-4294972000000000));
    println!("{:?}", catch(|| { t += d; t.nanos().to_bits() }));
    let t2 = Time::from_fixed_nanos(U96F32::from_bits(0));
    println!("{:?}", catch(|| { (t2 + d).nanos().to_bits() }));
    let d2 = Duration::from_seconds(-0.001000001);
    println!("{:?} {:?}", d2.nanos().to_bits(), catch(|| { (t2 + d2).nanos().to_bits() }));
}
