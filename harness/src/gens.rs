//! Scenario generators for the port-level harness.  Every generator is a
//! function of an `Rng` only; it drives a `Sim` interactively (it may look at
//! port states, pending timestamp contexts and emitted frames) and returns a
//! class tag describing what the history exercised.

use crate::frames::*;
use crate::port::*;
use crate::Rng;

pub const NS: u128 = 1_000_000_000;
pub const FRAC: u128 = 1 << 32;

#[derive(Clone, Debug)]
pub struct Master {
    pub clock: u64,
    pub port: u16,
    pub ann: Ann,
    pub seq: u16,
    pub sync_seq: u16,
    pub flags: [u8; 2],
}

pub fn rand_draws(r: &mut Rng, n: usize) -> Vec<u64> {
    (0..n)
        .map(|_| match r.below(6) {
            0 => 0,
            1 => (1u64 << 52) - 1,
            2 => 1u64 << 51,
            _ => r.next() >> 12,
        })
        .collect()
}

pub fn default_tp() -> Tp {
    Tp {
        utc: None,
        leap: 0,
        time_traceable: false,
        freq_traceable: false,
        ptp_timescale: false,
        time_source: 0xa0,
    }
}

pub fn rand_tp(r: &mut Rng) -> Tp {
    Tp {
        utc: if r.chance(1, 2) { Some(r.range(-40, 40) as i16) } else { None },
        leap: r.below(3) as u8,
        time_traceable: r.chance(1, 2),
        freq_traceable: r.chance(1, 2),
        ptp_timescale: r.chance(1, 2),
        time_source: *r.pick(&[0x10, 0x20, 0x40, 0xa0, 0x90, 0x55, 0xf3, 0xff]),
    }
}

pub fn rand_port_cfg(r: &mut Rng) -> PortCfg {
    PortCfg {
        acceptable: if r.chance(1, 6) {
            Some(vec![0x0a00_0000_0000_0001, 0x0b00_0000_0000_0002])
        } else {
            None
        },
        p2p: r.chance(1, 4),
        log_delay: r.range(-2, 2) as i8,
        log_announce: r.range(-2, 2) as i8,
        receipt_timeout: r.range(2, 4) as u8,
        log_sync: r.range(-3, 1) as i8,
        master_only: r.chance(1, 7),
        asymmetry: match r.below(4) {
            0 => 0,
            1 => 1000 * FRAC as i128,
            2 => -(2500 * FRAC as i128) - 12345,
            _ => r.range(-100000, 100000) as i128 * 65536,
        },
        minor: r.below(2) as u8,
        rng: rand_draws(r, 96),
    }
}

pub fn rand_inst_cfg(r: &mut Rng) -> InstCfg {
    InstCfg {
        clock_identity: *r.pick(&[0x0500_0000_0000_0005u64, 0x0100_0000_0000_0001, 0x0c00_0000_0000_000c]),
        prio1: *r.pick(&[128u8, 128, 100, 200]),
        prio2: *r.pick(&[128u8, 127, 129]),
        domain: *r.pick(&[0u8, 0, 0, 5]),
        sdo_id: *r.pick(&[0u16, 0, 0, 0x123]),
        slave_only: r.chance(1, 6),
        path_trace: r.chance(1, 2),
        quality: (
            *r.pick(&[248u8, 248, 6, 127, 128, 255, 187]),
            *r.pick(&[0xfeu8, 0x21, 0x17, 0x31]),
            *r.pick(&[0xffffu16, 0x4e5d, 0x8000 - 23 * 256]),
        ),
        tp: if r.chance(1, 2) { default_tp() } else { rand_tp(r) },
    }
}

pub fn rand_master(r: &mut Rng, k: usize) -> Master {
    let clocks = [
        0x0a00_0000_0000_0001u64,
        0x0b00_0000_0000_0002,
        0x0300_0000_0000_0003,
        0x0d00_0000_0000_0004,
    ];
    let clock = clocks[k % 4];
    Master {
        clock,
        port: r.range(1, 3) as u16,
        ann: Ann {
            utc_offset: r.range(-5, 40) as i16,
            prio1: *r.pick(&[128u8, 128, 10, 250]),
            class: *r.pick(&[6u8, 7, 248, 248, 255]),
            accuracy: *r.pick(&[0xfeu8, 0x21, 0x20, 0x05]),
            variance: *r.pick(&[0xffffu16, 0x4e5d, 100]),
            prio2: *r.pick(&[128u8, 1, 255]),
            gm: if r.chance(2, 3) { clock } else { 0x0900_0000_0000_0009 },
            steps: match r.below(8) {
                0 => 254,
                1 => 255,
                2 => 3,
                _ => r.below(3) as u16,
            },
            time_source: *r.pick(&[0xa0u8, 0x20, 0x10, 0x77]),
        },
        seq: match r.below(4) {
            0 => 65533,
            1 => 32766,
            _ => r.below(1000) as u16,
        },
        sync_seq: if r.chance(1, 4) { 65534 } else { r.below(5000) as u16 },
        flags: [0, r.below(64) as u8],
    }
}

pub struct World {
    pub masters: Vec<Master>,
    pub now: u128, // bits
    pub domain: u8,
    pub sdo: u16,
    pub last_delay_req: Vec<Option<(u16, Vec<u8>)>>,
    pub last_pdelay_req: Vec<Option<u16>>,
    pub visited: std::collections::BTreeSet<String>,
}

impl World {
    pub fn new(r: &mut Rng, sim: &Sim, nm: usize) -> World {
        World {
            masters: (0..nm).map(|k| rand_master(r, k)).collect(),
            now: match r.below(4) {
                0 => 5 * NS * FRAC,
                1 => ((1u128 << 47) * NS + 999_999_999) * FRAC,
                _ => (1_700_000_000u128 + r.below(1000) as u128) * NS * FRAC + r.below(1 << 32) as u128,
            },
            domain: sim.icfg.domain,
            sdo: sim.icfg.sdo_id,
            last_delay_req: vec![None; sim.nports()],
            last_pdelay_req: vec![None; sim.nports()],
            visited: Default::default(),
        }
    }

    pub fn tick(&mut self, r: &mut Rng) -> u128 {
        self.now += match r.below(5) {
            0 => 0,
            1 => r.below(1 << 20) as u128,
            2 => NS * FRAC,
            _ => (r.below(500_000_000) as u128) * FRAC + r.below(1 << 32) as u128,
        };
        self.now
    }

    pub fn hdr(&self, ty: u8, clock: u64, port: u16, seq: u16) -> Hdr {
        let mut h = Hdr::new(ty, clock, port, seq);
        h.domain = self.domain;
        h.sdo_id = self.sdo;
        h
    }

    pub fn announce_frame(&mut self, m: usize, suffix: &[u8]) -> Vec<u8> {
        let ms = &mut self.masters[m];
        ms.seq = ms.seq.wrapping_add(1);
        let mut h = Hdr::new(ANNOUNCE, ms.clock, ms.port, ms.seq);
        h.domain = self.domain;
        h.sdo_id = self.sdo;
        h.flags = ms.flags;
        frame(&h, &announce_body(&ms.ann), suffix)
    }

    /// record what the ports emitted in the last call
    pub fn observe(&mut self, sim: &Sim) {
        for (p, is_event, f) in &sim.last_frames {
            if *is_event && f.len() >= 34 {
                let seq = u16::from_be_bytes([f[30], f[31]]);
                match f[0] & 0xf {
                    1 => self.last_delay_req[*p] = Some((seq, f.clone())),
                    2 => self.last_pdelay_req[*p] = Some(seq),
                    _ => {}
                }
            }
        }
        for (i, s) in sim.states.iter().enumerate() {
            self.visited.insert(format!("p{}s{}", i, s));
        }
    }
}

pub fn wire_ts(bits: u128) -> (u64, u32) {
    let ns = bits >> 32;
    ((ns / NS) as u64, (ns % NS) as u32)
}

pub fn corr(r: &mut Rng) -> i64 {
    match r.below(8) {
        0 => 0,
        1 => 1000 << 16,
        2 => -(3 << 16) - 5,
        3 => r.range(-(1 << 30), 1 << 30),
        4 => 65535,
        _ => r.range(0, 1 << 24),
    }
}

/// One random event of the mixed generator.
pub fn mix_event(r: &mut Rng, sim: &Sim, w: &mut World) -> Ev {
    let np = sim.nports();
    let p = r.below(np as u64) as usize;
    let own = sim.icfg.clock_identity;
    let nm = w.masters.len();
    let m = r.below(nm as u64) as usize;
    match r.below(30) {
        0..=6 => {
            // announce, sometimes with TLVs
            let mut suffix = Vec::new();
            if r.chance(1, 4) {
                for _ in 0..r.below(3) + 1 {
                    let ty = *r.pick(&[8u16, 9, 0x4000, 0x4001, 0x4005, 0x7f10, 3, 0x8001, 1]);
                    let len = 2 * r.below(12) as usize;
                    let val = if ty == 8 {
                        let n = r.below(4) as usize;
                        let mut v = Vec::new();
                        for j in 0..n {
                            let id: u64 = if r.chance(1, 8) { own } else { 0x7700_0000_0000_0000 + j as u64 };
                            v.extend_from_slice(&id.to_be_bytes());
                        }
                        v
                    } else {
                        r.bytes(len)
                    };
                    suffix.extend_from_slice(&tlv(ty, &val));
                }
            }
            Ev::RecvGeneral(p, w.announce_frame(m, &suffix))
        }
        7..=9 => Ev::Bmca,
        10 => Ev::AnnounceTimer(p),
        11 => Ev::SyncTimer(p),
        12 => Ev::DelayReqTimer(p),
        13 => {
            if r.chance(1, 3) {
                Ev::AnnounceReceiptTimer(p)
            } else {
                Ev::FilterUpdateTimer(p)
            }
        }
        14..=16 => {
            // sync from a master (two-step or one-step)
            let t = w.tick(r);
            let ms = &mut w.masters[m];
            if r.chance(3, 4) {
                ms.sync_seq = ms.sync_seq.wrapping_add(1);
            }
            let (clock, port, seq) = (ms.clock, ms.port, ms.sync_seq);
            let mut h = w.hdr(SYNC, clock, port, seq);
            let two_step = r.chance(2, 3);
            h.flags[0] = if two_step { 2 } else { 0 };
            h.correction = corr(r);
            let (s, n) = wire_ts(t.saturating_sub(r.below(1 << 40) as u128));
            Ev::RecvEvent(p, frame(&h, &ts10(s, n), &[]), t)
        }
        17..=18 => {
            let t = w.now;
            let ms = &w.masters[m];
            let seq = if r.chance(4, 5) { ms.sync_seq } else { ms.sync_seq.wrapping_sub(1) };
            let mut h = w.hdr(FOLLOW_UP, ms.clock, ms.port, seq);
            h.correction = corr(r);
            let (s, n) = wire_ts(t.saturating_sub(r.below(1 << 40) as u128));
            Ev::RecvGeneral(p, frame(&h, &ts10(s, n), &[]))
        }
        19..=21 => {
            // return a pending timestamp
            let cands: Vec<usize> = (0..np).filter(|i| !sim.pending[*i].is_empty()).collect();
            if cands.is_empty() {
                return Ev::Bmca;
            }
            let p = *r.pick(&cands);
            let k = r.below(sim.pending[p].len() as u64) as usize;
            Ev::SendTimestamp(p, k, w.tick(r))
        }
        22 => {
            // delay response to the last delay request of the port
            let t = w.tick(r);
            let (seq, _) = w.last_delay_req[p].clone().unwrap_or((r.below(5) as u16, vec![]));
            let ms = &w.masters[m];
            let mut h = w.hdr(DELAY_RESP, ms.clock, ms.port, if r.chance(5, 6) { seq } else { seq.wrapping_add(1) });
            h.correction = corr(r);
            let (s, n) = wire_ts(t);
            let req_clock = if r.chance(7, 8) { own } else { 0x42 };
            let mut body = ts10(s, n);
            body.extend_from_slice(&pid10(req_clock, (p + 1) as u16));
            Ev::RecvGeneral(p, frame(&h, &body, &[]))
        }
        23 => {
            // delay request from someone (answered when master)
            let t = w.tick(r);
            let mut h = w.hdr(DELAY_REQ, 0x4200_0000_0000_0000 + r.below(3), 1, r.next() as u16);
            h.correction = match r.below(6) {
                0 => i64::MAX,
                1 => i64::MAX - 70000,
                2 => i64::MIN,
                _ => corr(r),
            };
            h.flags = [r.next() as u8 & 0x67, r.next() as u8 & 0x7f];
            Ev::RecvEvent(p, frame(&h, &ts10(0, 0), &[]), t)
        }
        24 => {
            // pdelay request
            let t = w.tick(r);
            let mut h = w.hdr(PDELAY_REQ, 0x4300_0000_0000_0000, 2, r.next() as u16);
            h.correction = corr(r);
            let mut body = ts10(0, 0);
            body.extend_from_slice(&[0; 10]);
            Ev::RecvEvent(p, frame(&h, &body, &[]), t)
        }
        25 => {
            // pdelay response / follow up to our last pdelay request
            let t = w.tick(r);
            let seq = w.last_pdelay_req[p].unwrap_or(0);
            let responder = if r.chance(5, 6) { 0x4400_0000_0000_0000u64 } else { 0x4500_0000_0000_0000 };
            let (s, n) = wire_ts(t.saturating_sub(r.below(1 << 36) as u128));
            let mut body = ts10(s, n);
            body.extend_from_slice(&pid10(own, (p + 1) as u16));
            if r.chance(1, 2) {
                let mut h = w.hdr(PDELAY_RESP, responder, 1, seq);
                h.flags[0] = if r.chance(2, 3) { 2 } else { 0 };
                h.correction = corr(r);
                Ev::RecvEvent(p, frame(&h, &body, &[]), t)
            } else {
                let mut h = w.hdr(PDELAY_RESP_FOLLOW_UP, responder, 1, seq);
                h.correction = corr(r);
                Ev::RecvGeneral(p, frame(&h, &body, &[]))
            }
        }
        26 => {
            // malformed / foreign traffic
            match r.below(6) {
                0 => {
                    let n = r.below(80) as usize;
                    Ev::RecvGeneral(p, r.bytes(n))
                }
                1 => {
                    let mut f = w.announce_frame(m, &[]);
                    f.truncate(r.below(64) as usize);
                    Ev::RecvGeneral(p, f)
                }
                2 => {
                    let mut f = w.announce_frame(m, &[]);
                    f[4] = f[4].wrapping_add(1); // other domain
                    Ev::RecvGeneral(p, f)
                }
                3 => {
                    let mut f = w.announce_frame(m, &[]);
                    f[1] = 0x11; // PTPv1
                    Ev::RecvGeneral(p, f)
                }
                4 => {
                    let h = w.hdr(MANAGEMENT, 0x99, 1, 7);
                    Ev::RecvGeneral(p, frame(&h, &[0; 14], &[]))
                }
                _ => {
                    let h = w.hdr(SIGNALING, 0x99, 1, 7);
                    Ev::RecvGeneral(p, frame(&h, &[0; 10], &tlv(3, &[1, 2, 3, 4])))
                }
            }
        }
        27 => Ev::SetSlaveOnly(r.chance(1, 2)),
        28 => Ev::SetClockQuality((
            *r.pick(&[248u8, 6, 127, 255]),
            *r.pick(&[0xfeu8, 0x21]),
            *r.pick(&[0xffffu16, 0x4e5d]),
        )),
        _ => {
            // announce from our own instance (other port / same port)
            let src_port = r.range(1, 3) as u16;
            let ms = &w.masters[m];
            let mut a = ms.ann.clone();
            a.gm = own;
            let seq = r.below(100) as u16;
            let h = w.hdr(ANNOUNCE, own, src_port, seq);
            Ev::RecvGeneral(p, frame(&h, &announce_body(&a), &[]))
        }
    }
}

/// Mixed random walk over the whole host-call alphabet.
pub fn gen_mix(r: &mut Rng) -> (String, Sim) {
    let icfg = rand_inst_cfg(r);
    let np = 1 + r.below(3) as usize;
    let cfgs: Vec<PortCfg> = (0..np).map(|_| rand_port_cfg(r)).collect();
    let mut sim = Sim::new(icfg, cfgs);
    let nm = 1 + r.below(3) as usize;
    let mut w = World::new(r, &sim, nm);
    let n = 10 + r.below(40);
    for _ in 0..n {
        let ev = mix_event(r, &sim, &mut w);
        if !sim.step(ev) {
            break;
        }
        w.observe(&sim);
    }
    let class = format!(
        "mix:np{}:{}:{}",
        np,
        if sim.panicked { "panic" } else { "ok" },
        w.visited.iter().cloned().collect::<Vec<_>>().join("")
    );
    (class, sim)
}

// ---------------------------------------------------------------------------
// C10: master-side messages

pub fn lattice_ts(r: &mut Rng) -> u128 {
    let base: u128 = match r.below(8) {
        0 => 0,
        1 => r.below(3) as u128 * NS * FRAC,
        2 => ((1u128 << 32) - 1 + r.below(3) as u128) * NS * FRAC,
        3 => (1u128 << 63) * FRAC - 1 - r.below(1 << 20) as u128,
        4 => 999_999_999 * FRAC + r.below(1 << 32) as u128,
        _ => (1_700_000_000u128 + r.below(1 << 20) as u128) * NS * FRAC,
    };
    let delta: u128 = match r.below(6) {
        0 => 0,
        1 => (NS - 1) * FRAC + ((1u128 << 32) - 1),
        2 => r.below(1 << 32) as u128,
        3 => (r.below(1 << 16) as u128) << 16,
        _ => (r.below(NS as u64) as u128) * FRAC + r.below(1 << 32) as u128,
    };
    (base + delta).min((1u128 << 63) * FRAC - 1)
}

pub fn master_inst(r: &mut Rng) -> InstCfg {
    let mut i = rand_inst_cfg(r);
    i.slave_only = false;
    i
}

pub fn gen_c10(r: &mut Rng, long: bool) -> (String, Sim) {
    let icfg = master_inst(r);
    let np = 1 + r.below(2) as usize;
    let cfgs: Vec<PortCfg> = (0..np)
        .map(|_| {
            let mut c = rand_port_cfg(r);
            c.acceptable = None;
            c
        })
        .collect();
    let mut sim = Sim::new(icfg, cfgs);
    let mut w = World::new(r, &sim, 1);
    let own = sim.icfg.clock_identity;
    // become master on every port
    for p in 0..np {
        sim.step(Ev::AnnounceReceiptTimer(p));
    }
    let n = if long { 66000 + r.below(500) } else { 25 + r.below(40) };
    let mut kinds = std::collections::BTreeSet::new();
    for _ in 0..n {
        let p = r.below(np as u64) as usize;
        let choice = if long { r.below(4) } else { r.below(14) };
        let ev = match choice {
            0 | 1 => Ev::SyncTimer(p),
            2 | 3 => {
                let cands: Vec<usize> = (0..np).filter(|i| !sim.pending[*i].is_empty()).collect();
                if cands.is_empty() {
                    Ev::SyncTimer(p)
                } else {
                    let p = *r.pick(&cands);
                    let k = if r.chance(3, 4) { 0 } else { r.below(sim.pending[p].len() as u64) as usize };
                    Ev::SendTimestamp(p, k, lattice_ts(r))
                }
            }
            4 | 5 => {
                let mut h = w.hdr(DELAY_REQ, 0x4200_0000_0000_0000 + r.below(3), r.range(0, 3) as u16, r.next() as u16);
                h.correction = match r.below(8) {
                    0 => i64::MAX,
                    1 => i64::MAX - r.below(70000) as i64,
                    2 => i64::MIN,
                    3 => 0,
                    _ => corr(r),
                };
                h.flags = [r.next() as u8 & 0x67, r.next() as u8 & 0x7f];
                h.log_interval = r.next() as i8;
                h.control = r.next() as u8;
                h.version = if r.chance(1, 6) { 0x02 } else { 0x12 };
                kinds.insert("dreq");
                Ev::RecvEvent(p, frame(&h, &ts10(r.next() >> 16, r.next() as u32), &[]), lattice_ts(r))
            }
            6 | 7 => {
                let mut h = w.hdr(PDELAY_REQ, 0x4300_0000_0000_0000 + r.below(2), 2, r.next() as u16);
                h.correction = corr(r);
                let mut body = ts10(0, 0);
                body.extend_from_slice(&[0; 10]);
                kinds.insert("pdreq");
                Ev::RecvEvent(p, frame(&h, &body, &[]), lattice_ts(r))
            }
            8 => Ev::AnnounceTimer(p),
            9 => Ev::Bmca,
            10 => {
                // a better master appears: the port may leave the master state
                kinds.insert("ann");
                Ev::RecvGeneral(p, w.announce_frame(0, &[]))
            }
            11 => Ev::AnnounceReceiptTimer(p),
            12 => Ev::DelayReqTimer(p),
            _ => {
                // request from our own identity / wrong domain
                let mut h = w.hdr(DELAY_REQ, own, (p + 1) as u16, 3);
                if r.chance(1, 2) {
                    h.domain = h.domain.wrapping_add(1);
                }
                Ev::RecvEvent(p, frame(&h, &ts10(0, 0), &[]), lattice_ts(r))
            }
        };
        if !sim.step(ev) {
            break;
        }
        w.observe(&sim);
    }
    let class = format!(
        "c10:{}:np{}:{}:{}:{}",
        if long { "long" } else { "short" },
        np,
        if sim.panicked { "panic" } else { "ok" },
        kinds.iter().cloned().collect::<Vec<_>>().join("+"),
        w.visited.iter().cloned().collect::<Vec<_>>().join("")
    );
    (class, sim)
}
