//! Scenario generators for the port-level harness.  Every generator is a
//! function of an `Rng` only; it drives a `Sim` interactively (it may look at
//! port states, pending timestamp contexts and emitted frames) and returns a
//! class tag describing what the history exercised.

use crate::frames::*;
use crate::port::*;
use crate::Rng;

pub const NS: u128 = 1_000_000_000;
pub const FRAC: u128 = 1 << 32;

#[derive(Clone, Debug)]
pub struct Master {
    pub clock: u64,
    pub port: u16,
    pub ann: Ann,
    pub seq: u16,
    pub sync_seq: u16,
    pub flags: [u8; 2],
}

pub fn rand_draws(r: &mut Rng, n: usize) -> Vec<u64> {
    (0..n)
        .map(|_| match r.below(6) {
            0 => 0,
            1 => (1u64 << 52) - 1,
            2 => 1u64 << 51,
            _ => r.next() >> 12,
        })
        .collect()
}

pub fn default_tp() -> Tp {
    Tp {
        utc: None,
        leap: 0,
        time_traceable: false,
        freq_traceable: false,
        ptp_timescale: false,
        time_source: 0xa0,
    }
}

pub fn rand_tp(r: &mut Rng) -> Tp {
    Tp {
        utc: if r.chance(1, 2) { Some(r.range(-40, 40) as i16) } else { None },
        leap: r.below(3) as u8,
        time_traceable: r.chance(1, 2),
        freq_traceable: r.chance(1, 2),
        ptp_timescale: r.chance(1, 2),
        time_source: *r.pick(&[0x10, 0x20, 0x40, 0xa0, 0x90, 0x55, 0xf3, 0xff]),
    }
}

pub fn rand_port_cfg(r: &mut Rng) -> PortCfg {
    PortCfg {
        acceptable: if r.chance(1, 6) {
            Some(vec![0x0a00_0000_0000_0001, 0x0b00_0000_0000_0002])
        } else {
            None
        },
        p2p: r.chance(1, 4),
        log_delay: r.range(-2, 2) as i8,
        log_announce: r.range(-2, 2) as i8,
        receipt_timeout: r.range(2, 4) as u8,
        log_sync: r.range(-3, 1) as i8,
        master_only: r.chance(1, 7),
        asymmetry: match r.below(4) {
            0 => 0,
            1 => 1000 * FRAC as i128,
            2 => -(2500 * FRAC as i128) - 12345,
            _ => r.range(-100000, 100000) as i128 * 65536,
        },
        minor: r.below(2) as u8,
        rng: rand_draws(r, 96),
    }
}

pub fn rand_inst_cfg(r: &mut Rng) -> InstCfg {
    InstCfg {
        clock_identity: *r.pick(&[0x0500_0000_0000_0005u64, 0x0100_0000_0000_0001, 0x0c00_0000_0000_000c]),
        prio1: *r.pick(&[128u8, 128, 100, 200]),
        prio2: *r.pick(&[128u8, 127, 129]),
        domain: *r.pick(&[0u8, 0, 0, 5]),
        sdo_id: *r.pick(&[0u16, 0, 0, 0x123]),
        slave_only: r.chance(1, 6),
        path_trace: r.chance(1, 2),
        quality: (
            *r.pick(&[248u8, 248, 6, 127, 128, 255, 187]),
            *r.pick(&[0xfeu8, 0x21, 0x17, 0x31]),
            *r.pick(&[0xffffu16, 0x4e5d, 0x8000 - 23 * 256]),
        ),
        tp: if r.chance(1, 2) { default_tp() } else { rand_tp(r) },
    }
}

pub fn rand_master(r: &mut Rng, k: usize) -> Master {
    let clocks = [
        0x0a00_0000_0000_0001u64,
        0x0b00_0000_0000_0002,
        0x0300_0000_0000_0003,
        0x0d00_0000_0000_0004,
    ];
    let clock = clocks[k % 4];
    Master {
        clock,
        port: r.range(1, 3) as u16,
        ann: Ann {
            utc_offset: r.range(-5, 40) as i16,
            prio1: *r.pick(&[128u8, 128, 10, 250]),
            class: *r.pick(&[6u8, 7, 248, 248, 255]),
            accuracy: *r.pick(&[0xfeu8, 0x21, 0x20, 0x05]),
            variance: *r.pick(&[0xffffu16, 0x4e5d, 100]),
            prio2: *r.pick(&[128u8, 1, 255]),
            gm: if r.chance(2, 3) { clock } else { 0x0900_0000_0000_0009 },
            steps: match r.below(8) {
                0 => 254,
                1 => 255,
                2 => 3,
                _ => r.below(3) as u16,
            },
            time_source: *r.pick(&[0xa0u8, 0x20, 0x10, 0x77]),
        },
        seq: match r.below(4) {
            0 => 65533,
            1 => 32766,
            _ => r.below(1000) as u16,
        },
        sync_seq: if r.chance(1, 4) { 65534 } else { r.below(5000) as u16 },
        flags: [0, r.below(64) as u8],
    }
}

pub struct World {
    pub masters: Vec<Master>,
    pub now: u128, // bits
    pub domain: u8,
    pub sdo: u16,
    pub last_delay_req: Vec<Option<(u16, Vec<u8>)>>,
    pub last_pdelay_req: Vec<Option<u16>>,
    pub visited: std::collections::BTreeSet<String>,
}

impl World {
    pub fn new(r: &mut Rng, sim: &Sim, nm: usize) -> World {
        let mut masters: Vec<Master> = (0..nm).map(|k| rand_master(r, k)).collect();
        // sometimes the second master is another PORT of the first master's clock
        // (two ports of one boundary clock on the segment): identities then differ
        // in the port number only
        if nm >= 2 && r.chance(1, 5) {
            masters[1].clock = masters[0].clock;
            masters[1].port = if masters[0].port == 1 { 2 } else { 1 };
        }
        World {
            masters,
            now: match r.below(4) {
                0 => 5 * NS * FRAC,
                1 => ((1u128 << 47) * NS + 999_999_999) * FRAC,
                _ => (1_700_000_000u128 + r.below(1000) as u128) * NS * FRAC + r.below(1 << 32) as u128,
            },
            domain: sim.icfg.domain,
            sdo: sim.icfg.sdo_id,
            last_delay_req: vec![None; sim.nports()],
            last_pdelay_req: vec![None; sim.nports()],
            visited: Default::default(),
        }
    }

    pub fn tick(&mut self, r: &mut Rng) -> u128 {
        self.now += match r.below(5) {
            0 => 0,
            1 => r.below(1 << 20) as u128,
            2 => NS * FRAC,
            _ => (r.below(500_000_000) as u128) * FRAC + r.below(1 << 32) as u128,
        };
        self.now
    }

    pub fn hdr(&self, ty: u8, clock: u64, port: u16, seq: u16) -> Hdr {
        let mut h = Hdr::new(ty, clock, port, seq);
        h.domain = self.domain;
        h.sdo_id = self.sdo;
        h
    }

    pub fn announce_frame(&mut self, m: usize, suffix: &[u8]) -> Vec<u8> {
        let ms = &mut self.masters[m];
        ms.seq = ms.seq.wrapping_add(1);
        let mut h = Hdr::new(ANNOUNCE, ms.clock, ms.port, ms.seq);
        h.domain = self.domain;
        h.sdo_id = self.sdo;
        h.flags = ms.flags;
        frame(&h, &announce_body(&ms.ann), suffix)
    }

    /// record what the ports emitted in the last call
    pub fn observe(&mut self, sim: &Sim) {
        for (p, is_event, f) in &sim.last_frames {
            if *is_event && f.len() >= 34 {
                let seq = u16::from_be_bytes([f[30], f[31]]);
                match f[0] & 0xf {
                    1 => self.last_delay_req[*p] = Some((seq, f.clone())),
                    2 => self.last_pdelay_req[*p] = Some(seq),
                    _ => {}
                }
            }
        }
        for (i, s) in sim.states.iter().enumerate() {
            self.visited.insert(format!("p{}s{}", i, s));
        }
    }
}

pub fn wire_ts(bits: u128) -> (u64, u32) {
    let ns = bits >> 32;
    ((ns / NS) as u64, (ns % NS) as u32)
}

pub fn corr(r: &mut Rng) -> i64 {
    match r.below(8) {
        0 => 0,
        1 => 1000 << 16,
        2 => -(3 << 16) - 5,
        3 => r.range(-(1 << 30), 1 << 30),
        4 => 65535,
        _ => r.range(0, 1 << 24),
    }
}

/// One random event of the mixed generator.
pub fn mix_event(r: &mut Rng, sim: &Sim, w: &mut World) -> Ev {
    let np = sim.nports();
    let p = r.below(np as u64) as usize;
    let own = sim.icfg.clock_identity;
    let nm = w.masters.len();
    let m = r.below(nm as u64) as usize;
    match r.below(30) {
        0..=6 => {
            // announce, sometimes with TLVs
            let mut suffix = Vec::new();
            if r.chance(1, 4) {
                for _ in 0..r.below(3) + 1 {
                    let ty = *r.pick(&[8u16, 9, 0x4000, 0x4001, 0x4005, 0x7f10, 3, 0x8001, 1]);
                    let len = 2 * r.below(12) as usize;
                    let val = if ty == 8 {
                        let n = r.below(4) as usize;
                        let mut v = Vec::new();
                        for j in 0..n {
                            let id: u64 = if r.chance(1, 8) { own } else { 0x7700_0000_0000_0000 + j as u64 };
                            v.extend_from_slice(&id.to_be_bytes());
                        }
                        v
                    } else {
                        r.bytes(len)
                    };
                    suffix.extend_from_slice(&tlv(ty, &val));
                }
            }
            Ev::RecvGeneral(p, w.announce_frame(m, &suffix))
        }
        7..=9 => Ev::Bmca,
        10 => Ev::AnnounceTimer(p),
        11 => Ev::SyncTimer(p),
        12 => Ev::DelayReqTimer(p),
        13 => {
            if r.chance(1, 3) {
                Ev::AnnounceReceiptTimer(p)
            } else {
                Ev::FilterUpdateTimer(p)
            }
        }
        14..=16 => {
            // sync from a master (two-step or one-step)
            let t = w.tick(r);
            let ms = &mut w.masters[m];
            if r.chance(3, 4) {
                ms.sync_seq = ms.sync_seq.wrapping_add(1);
            }
            let (clock, port, seq) = (ms.clock, ms.port, ms.sync_seq);
            let mut h = w.hdr(SYNC, clock, port, seq);
            let two_step = r.chance(2, 3);
            h.flags[0] = if two_step { 2 } else { 0 };
            h.correction = corr(r);
            let (s, n) = wire_ts(t.saturating_sub(r.below(1 << 40) as u128));
            Ev::RecvEvent(p, frame(&h, &ts10(s, n), &[]), t)
        }
        17..=18 => {
            let t = w.now;
            let ms = &w.masters[m];
            let seq = if r.chance(4, 5) { ms.sync_seq } else { ms.sync_seq.wrapping_sub(1) };
            let mut h = w.hdr(FOLLOW_UP, ms.clock, ms.port, seq);
            h.correction = corr(r);
            let (s, n) = wire_ts(t.saturating_sub(r.below(1 << 40) as u128));
            Ev::RecvGeneral(p, frame(&h, &ts10(s, n), &[]))
        }
        19..=21 => {
            // return a pending timestamp
            let cands: Vec<usize> = (0..np).filter(|i| !sim.pending[*i].is_empty()).collect();
            if cands.is_empty() {
                return Ev::Bmca;
            }
            let p = *r.pick(&cands);
            let k = r.below(sim.pending[p].len() as u64) as usize;
            Ev::SendTimestamp(p, k, w.tick(r))
        }
        22 => {
            // delay response to the last delay request of the port
            let t = w.tick(r);
            let (seq, _) = w.last_delay_req[p].clone().unwrap_or((r.below(5) as u16, vec![]));
            let ms = &w.masters[m];
            let mut h = w.hdr(DELAY_RESP, ms.clock, ms.port, if r.chance(5, 6) { seq } else { seq.wrapping_add(1) });
            h.correction = corr(r);
            let (s, n) = wire_ts(t);
            let req_clock = if r.chance(7, 8) { own } else { 0x42 };
            let mut body = ts10(s, n);
            body.extend_from_slice(&pid10(req_clock, (p + 1) as u16));
            Ev::RecvGeneral(p, frame(&h, &body, &[]))
        }
        23 => {
            // delay request from someone (answered when master)
            let t = w.tick(r);
            let mut h = w.hdr(DELAY_REQ, 0x4200_0000_0000_0000 + r.below(3), 1, r.next() as u16);
            h.correction = match r.below(6) {
                0 => i64::MAX,
                1 => i64::MAX - 70000,
                2 => i64::MIN,
                _ => corr(r),
            };
            h.flags = [r.next() as u8 & 0x67, r.next() as u8 & 0x7f];
            Ev::RecvEvent(p, frame(&h, &ts10(0, 0), &[]), t)
        }
        24 => {
            // pdelay request
            let t = w.tick(r);
            let mut h = w.hdr(PDELAY_REQ, 0x4300_0000_0000_0000, 2, r.next() as u16);
            h.correction = corr(r);
            let mut body = ts10(0, 0);
            body.extend_from_slice(&[0; 10]);
            Ev::RecvEvent(p, frame(&h, &body, &[]), t)
        }
        25 => {
            // pdelay response / follow up to our last pdelay request
            let t = w.tick(r);
            let seq = w.last_pdelay_req[p].unwrap_or(0);
            let responder = if r.chance(5, 6) { 0x4400_0000_0000_0000u64 } else { 0x4500_0000_0000_0000 };
            let (s, n) = wire_ts(t.saturating_sub(r.below(1 << 36) as u128));
            let mut body = ts10(s, n);
            body.extend_from_slice(&pid10(own, (p + 1) as u16));
            if r.chance(1, 2) {
                let mut h = w.hdr(PDELAY_RESP, responder, 1, seq);
                h.flags[0] = if r.chance(2, 3) { 2 } else { 0 };
                h.correction = corr(r);
                Ev::RecvEvent(p, frame(&h, &body, &[]), t)
            } else {
                let mut h = w.hdr(PDELAY_RESP_FOLLOW_UP, responder, 1, seq);
                h.correction = corr(r);
                Ev::RecvGeneral(p, frame(&h, &body, &[]))
            }
        }
        26 => {
            // malformed / foreign traffic
            match r.below(6) {
                0 => {
                    let n = r.below(80) as usize;
                    Ev::RecvGeneral(p, r.bytes(n))
                }
                1 => {
                    let mut f = w.announce_frame(m, &[]);
                    f.truncate(r.below(64) as usize);
                    Ev::RecvGeneral(p, f)
                }
                2 => {
                    let mut f = w.announce_frame(m, &[]);
                    f[4] = f[4].wrapping_add(1); // other domain
                    Ev::RecvGeneral(p, f)
                }
                3 => {
                    let mut f = w.announce_frame(m, &[]);
                    f[1] = 0x11; // PTPv1
                    Ev::RecvGeneral(p, f)
                }
                4 => {
                    let h = w.hdr(MANAGEMENT, 0x99, 1, 7);
                    Ev::RecvGeneral(p, frame(&h, &[0; 14], &[]))
                }
                _ => {
                    let h = w.hdr(SIGNALING, 0x99, 1, 7);
                    Ev::RecvGeneral(p, frame(&h, &[0; 10], &tlv(3, &[1, 2, 3, 4])))
                }
            }
        }
        27 => Ev::SetSlaveOnly(r.chance(1, 2)),
        28 => Ev::SetClockQuality((
            *r.pick(&[248u8, 6, 127, 255]),
            *r.pick(&[0xfeu8, 0x21]),
            *r.pick(&[0xffffu16, 0x4e5d]),
        )),
        _ => {
            // announce from our own instance (other port / same port)
            let src_port = r.range(1, 3) as u16;
            let ms = &w.masters[m];
            let mut a = ms.ann.clone();
            a.gm = own;
            let seq = r.below(100) as u16;
            let h = w.hdr(ANNOUNCE, own, src_port, seq);
            Ev::RecvGeneral(p, frame(&h, &announce_body(&a), &[]))
        }
    }
}

/// Mixed random walk over the whole host-call alphabet.
pub fn gen_mix(r: &mut Rng) -> (String, Sim) {
    let icfg = rand_inst_cfg(r);
    let np = 1 + r.below(3) as usize;
    let cfgs: Vec<PortCfg> = (0..np).map(|_| rand_port_cfg(r)).collect();
    let mut sim = Sim::new(icfg, cfgs);
    let nm = 1 + r.below(3) as usize;
    let mut w = World::new(r, &sim, nm);
    let n = 10 + r.below(40);
    for _ in 0..n {
        let ev = mix_event(r, &sim, &mut w);
        if !sim.step(ev) {
            break;
        }
        w.observe(&sim);
    }
    let class = format!(
        "mix:np{}:{}:{}",
        np,
        if sim.panicked { "panic" } else { "ok" },
        w.visited.iter().cloned().collect::<Vec<_>>().join("")
    );
    (class, sim)
}

// ---------------------------------------------------------------------------
// C10: master-side messages

pub fn lattice_ts(r: &mut Rng) -> u128 {
    let base: u128 = match r.below(8) {
        0 => 0,
        1 => r.below(3) as u128 * NS * FRAC,
        2 => ((1u128 << 32) - 1 + r.below(3) as u128) * NS * FRAC,
        3 => (1u128 << 63) * FRAC - 1 - r.below(1 << 20) as u128,
        4 => 999_999_999 * FRAC + r.below(1 << 32) as u128,
        _ => (1_700_000_000u128 + r.below(1 << 20) as u128) * NS * FRAC,
    };
    let delta: u128 = match r.below(6) {
        0 => 0,
        1 => (NS - 1) * FRAC + ((1u128 << 32) - 1),
        2 => r.below(1 << 32) as u128,
        3 => (r.below(1 << 16) as u128) << 16,
        _ => (r.below(NS as u64) as u128) * FRAC + r.below(1 << 32) as u128,
    };
    (base + delta).min((1u128 << 63) * FRAC - 1)
}

pub fn master_inst(r: &mut Rng) -> InstCfg {
    let mut i = rand_inst_cfg(r);
    i.slave_only = false;
    i
}

pub fn gen_c10(r: &mut Rng, long: bool) -> (String, Sim) {
    let icfg = master_inst(r);
    let np = 1 + r.below(2) as usize;
    let cfgs: Vec<PortCfg> = (0..np)
        .map(|_| {
            let mut c = rand_port_cfg(r);
            c.acceptable = None;
            c
        })
        .collect();
    let mut sim = Sim::new(icfg, cfgs);
    let mut w = World::new(r, &sim, 1);
    let own = sim.icfg.clock_identity;
    // become master on every port
    for p in 0..np {
        sim.step(Ev::AnnounceReceiptTimer(p));
    }
    let n = if long { 66000 + r.below(500) } else { 25 + r.below(40) };
    let mut kinds = std::collections::BTreeSet::new();
    for _ in 0..n {
        let p = r.below(np as u64) as usize;
        let choice = if long { r.below(4) } else { r.below(14) };
        let ev = match choice {
            0 | 1 => Ev::SyncTimer(p),
            2 | 3 => {
                let cands: Vec<usize> = (0..np).filter(|i| !sim.pending[*i].is_empty()).collect();
                if cands.is_empty() {
                    Ev::SyncTimer(p)
                } else {
                    let p = *r.pick(&cands);
                    let k = if r.chance(3, 4) { 0 } else { r.below(sim.pending[p].len() as u64) as usize };
                    Ev::SendTimestamp(p, k, lattice_ts(r))
                }
            }
            4 | 5 => {
                let mut h = w.hdr(DELAY_REQ, 0x4200_0000_0000_0000 + r.below(3), r.range(0, 3) as u16, r.next() as u16);
                h.correction = match r.below(8) {
                    0 => i64::MAX,
                    1 => i64::MAX - r.below(70000) as i64,
                    2 => i64::MIN,
                    3 => 0,
                    _ => corr(r),
                };
                h.flags = [r.next() as u8 & 0x67, r.next() as u8 & 0x7f];
                h.log_interval = r.next() as i8;
                h.control = r.next() as u8;
                h.version = if r.chance(1, 6) { 0x02 } else { 0x12 };
                kinds.insert("dreq");
                Ev::RecvEvent(p, frame(&h, &ts10(r.next() >> 16, r.next() as u32), &[]), lattice_ts(r))
            }
            6 | 7 => {
                let mut h = w.hdr(PDELAY_REQ, 0x4300_0000_0000_0000 + r.below(2), 2, r.next() as u16);
                h.correction = corr(r);
                let mut body = ts10(0, 0);
                body.extend_from_slice(&[0; 10]);
                kinds.insert("pdreq");
                Ev::RecvEvent(p, frame(&h, &body, &[]), lattice_ts(r))
            }
            8 => Ev::AnnounceTimer(p),
            9 => Ev::Bmca,
            10 => {
                // a better master appears: the port may leave the master state
                kinds.insert("ann");
                Ev::RecvGeneral(p, w.announce_frame(0, &[]))
            }
            11 => Ev::AnnounceReceiptTimer(p),
            12 => Ev::DelayReqTimer(p),
            _ => {
                // request from our own identity / wrong domain
                let mut h = w.hdr(DELAY_REQ, own, (p + 1) as u16, 3);
                if r.chance(1, 2) {
                    h.domain = h.domain.wrapping_add(1);
                }
                Ev::RecvEvent(p, frame(&h, &ts10(0, 0), &[]), lattice_ts(r))
            }
        };
        if !sim.step(ev) {
            break;
        }
        w.observe(&sim);
    }
    let class = format!(
        "c10:{}:np{}:{}:{}:{}",
        if long { "long" } else { "short" },
        np,
        if sim.panicked { "panic" } else { "ok" },
        kinds.iter().cloned().collect::<Vec<_>>().join("+"),
        w.visited.iter().cloned().collect::<Vec<_>>().join("")
    );
    (class, sim)
}

// ---------------------------------------------------------------------------
// C09 / C14: slave-side measurements

/// An instance with one or two ports whose port 0 is made slave of master 0.
pub fn slave_setup(r: &mut Rng, p2p: bool) -> (Sim, World) {
    let mut icfg = rand_inst_cfg(r);
    icfg.quality.0 = *r.pick(&[248u8, 255, 187]);
    icfg.prio1 = 128;
    let np = 1 + r.below(2) as usize;
    let cfgs: Vec<PortCfg> = (0..np)
        .map(|i| {
            let mut c = rand_port_cfg(r);
            c.acceptable = None;
            if i == 0 {
                c.master_only = false;
                c.p2p = p2p;
            }
            c
        })
        .collect();
    let mut sim = Sim::new(icfg, cfgs);
    let mut w = World::new(r, &sim, 2);
    w.masters[0].ann.prio1 = 10;
    w.masters[0].ann.steps = r.below(3) as u16;
    w.masters[0].ann.gm = w.masters[0].clock;
    w.masters[1].ann.prio1 = 200;
    for _ in 0..2 {
        let f = w.announce_frame(0, &[]);
        sim.step(Ev::RecvGeneral(0, f));
    }
    sim.step(Ev::Bmca);
    w.observe(&sim);
    (sim, w)
}

pub fn sync_frames(r: &mut Rng, w: &mut World, m: usize, two_step: bool, t2: u128) -> (Vec<u8>, Vec<u8>) {
    let ms = &mut w.masters[m];
    ms.sync_seq = ms.sync_seq.wrapping_add(1);
    let (clock, port, seq) = (ms.clock, ms.port, ms.sync_seq);
    let t1 = t2.saturating_sub((r.below(400_000) as u128) * FRAC + r.below(1 << 32) as u128);
    let (s, n) = wire_ts(t1);
    let mut h = w.hdr(SYNC, clock, port, seq);
    h.flags[0] = if two_step { 2 } else { 0 };
    h.correction = corr(r);
    let sync = frame(&h, &ts10(s, n), &[]);
    let mut h2 = w.hdr(FOLLOW_UP, clock, port, seq);
    h2.correction = corr(r);
    let fup = frame(&h2, &ts10(s, n), &[]);
    (sync, fup)
}

/// one event of the end-to-end slave exchange mix (Sync/Follow_Up in any order, duplicates,
/// delayed deliveries, Delay_Req timer, transmit timestamps of any pending request,
/// Delay_Resp with matching / neighbouring sequence ids, announces, take-over)
pub fn c09_event(
    r: &mut Rng,
    sim: &Sim,
    w: &mut World,
    stash: &mut Vec<Ev>,
    kinds: &mut std::collections::BTreeSet<&'static str>,
) -> Ev {
    let own = sim.icfg.clock_identity;
    let ev = match r.below(16) {
            0..=3 => {
                let two = r.chance(2, 3);
                let t2 = w.tick(r);
                let m = if r.chance(7, 8) { 0 } else { 1 };
                let (s, f) = sync_frames(r, w, m, two, t2);
                kinds.insert(if two { "2step" } else { "1step" });
                let (first, second) = if r.chance(1, 5) {
                    kinds.insert("fup-first");
                    (Ev::RecvGeneral(0, f.clone()), Ev::RecvEvent(0, s.clone(), t2))
                } else {
                    (Ev::RecvEvent(0, s.clone(), t2), Ev::RecvGeneral(0, f.clone()))
                };
                if two && !r.chance(1, 8) {
                    stash.push(second);
                }
                if r.chance(1, 6) {
                    kinds.insert("dup");
                    stash.push(Ev::RecvEvent(0, s, t2 + r.below(1000) as u128));
                }
                if r.chance(1, 8) {
                    stash.push(Ev::RecvGeneral(0, f));
                }
                first
            }
            4..=6 => {
                if stash.is_empty() {
                    Ev::DelayReqTimer(0)
                } else {
                    let k = r.below(stash.len() as u64) as usize;
                    stash.remove(k)
                }
            }
            7..=8 => Ev::DelayReqTimer(0),
            9..=10 => {
                if sim.pending[0].is_empty() {
                    Ev::DelayReqTimer(0)
                } else {
                    let k = r.below(sim.pending[0].len() as u64) as usize;
                    kinds.insert("ts");
                    Ev::SendTimestamp(0, k, w.tick(r))
                }
            }
            11..=13 => {
                let t4 = w.tick(r);
                let (seq, _) = w.last_delay_req[0].clone().unwrap_or((0, vec![]));
                let m = if r.chance(7, 8) { 0 } else { 1 };
                let ms = &w.masters[m];
                let seq = match r.below(8) {
                    0 => seq.wrapping_sub(1),
                    1 => seq.wrapping_add(1),
                    _ => seq,
                };
                let mut h = w.hdr(DELAY_RESP, ms.clock, ms.port, seq);
                h.correction = corr(r);
                let (s, n) = wire_ts(t4);
                let mut body = ts10(s, n);
                body.extend_from_slice(&pid10(if r.chance(7, 8) { own } else { 0x42 }, if r.chance(7, 8) { 1 } else { 2 }));
                kinds.insert("dresp");
                let ev = Ev::RecvGeneral(0, frame(&h, &body, &[]));
                if r.chance(1, 8) {
                    if let Ev::RecvGeneral(_, f) = &ev {
                        stash.push(Ev::RecvGeneral(0, f.clone()));
                    }
                }
                ev
            }
            14 => {
                // keep the parent alive / let BMCA run
                if r.chance(1, 2) {
                    let f = w.announce_frame(0, &[]);
                    Ev::RecvGeneral(0, f)
                } else {
                    Ev::Bmca
                }
            }
            _ => {
                // the other master takes over sometimes
                w.masters[1].ann.prio1 = 5;
                let f = w.announce_frame(1, &[]);
                kinds.insert("takeover");
                Ev::RecvGeneral(0, f)
            }
        };
    ev
}

pub fn gen_c09(r: &mut Rng) -> (String, Sim) {
    let (mut sim, mut w) = slave_setup(r, false);
    let mut kinds = std::collections::BTreeSet::new();
    let n = 15 + r.below(30);
    let mut stash: Vec<Ev> = Vec::new(); // delayed / duplicated deliveries
    for _ in 0..n {
        let ev = c09_event(r, &sim, &mut w, &mut stash, &mut kinds);
        if !sim.step(ev) {
            break;
        }
        w.observe(&sim);
    }
    let meas = sim.results.iter().filter(|x| x.contains("OFilterMeas")).count();
    let class = format!(
        "c09:{}:m{}:{}:{}",
        if sim.panicked { "panic" } else { "ok" },
        meas.min(9),
        kinds.iter().cloned().collect::<Vec<_>>().join("+"),
        w.visited.iter().cloned().collect::<Vec<_>>().join("")
    );
    (class, sim)
}

// ---------------------------------------------------------------------------
// C14: peer delay

pub fn gen_c14(r: &mut Rng) -> (String, Sim) {
    // P2P port 0; slave of a master half of the time, otherwise whatever state it is in
    let (mut sim, mut w) = if r.chance(1, 2) {
        slave_setup(r, true)
    } else {
        let icfg = rand_inst_cfg(r);
        let mut c = rand_port_cfg(r);
        c.p2p = true;
        c.acceptable = None;
        let sim = Sim::new(icfg, vec![c]);
        let w = World::new(r, &sim, 2);
        (sim, w)
    };
    let own = sim.icfg.clock_identity;
    let resp_ids = [0x4400_0000_0000_0000u64, 0x4500_0000_0000_0000];
    let mut kinds = std::collections::BTreeSet::new();
    let mut stash: Vec<Ev> = Vec::new();
    let n = 12 + r.below(30);
    let mut want_ts = false;
    if r.chance(1, 3) {
        // scripted prefix: (optionally) an own-identity Announce first, then one request
        // answered by two responders; the walk continues from the faulty port
        kinds.insert("scripted-conflict");
        let mut pre: Vec<Ev> = Vec::new();
        if r.chance(1, 2) {
            let h = w.hdr(ANNOUNCE, own, 0, r.next() as u16);
            let a = w.masters[0].ann.clone();
            pre.push(Ev::RecvGeneral(0, frame(&h, &announce_body(&a), &[])));
        }
        pre.push(Ev::DelayReqTimer(0));
        for ev in pre {
            if !sim.step(ev) {
                break;
            }
            w.observe(&sim);
        }
        if let Some(seq) = w.last_pdelay_req[0] {
            for who in 0..2 {
                let t4 = w.tick(r);
                let (s2, n2) = wire_ts(t4.saturating_sub(1000 * FRAC));
                let mut body = ts10(s2, n2);
                body.extend_from_slice(&pid10(own, 1));
                let mut h = w.hdr(PDELAY_RESP, resp_ids[who], 1, seq);
                h.flags[0] = 2;
                if !sim.step(Ev::RecvEvent(0, frame(&h, &body, &[]), t4)) {
                    break;
                }
                w.observe(&sim);
            }
        }
    }
    for _ in 0..n {
        let roll = if want_ts && r.chance(3, 4) { 3 } else { r.below(16) };
        want_ts = false;
        let ev = match roll {
            0..=2 => {
                want_ts = true;
                Ev::DelayReqTimer(0)
            }
            3..=4 => {
                // transmit timestamp of a pending pdelay request (or any pending context)
                if sim.pending[0].is_empty() {
                    Ev::DelayReqTimer(0)
                } else {
                    let k = if r.chance(3, 4) {
                        sim.pending[0].len() - 1
                    } else {
                        r.below(sim.pending[0].len() as u64) as usize
                    };
                    Ev::SendTimestamp(0, k, w.tick(r))
                }
            }
            5..=10 => {
                // response and follow-up from responder A (mostly) or B
                let who = if r.chance(11, 12) { 0 } else { 1 };
                if who == 1 {
                    kinds.insert("second-responder");
                }
                let seq0 = w.last_pdelay_req[0].unwrap_or(0);
                let seq = match r.below(10) {
                    0 => seq0.wrapping_sub(1),
                    1 => seq0.wrapping_add(1),
                    _ => seq0,
                };
                let t4 = w.tick(r);
                let t2 = t4.saturating_sub((r.below(1 << 20) as u128) * FRAC);
                let t3 = t2 + (r.below(1 << 18) as u128) * FRAC;
                let two = r.chance(2, 3);
                let (s2, n2) = wire_ts(t2);
                let (s3, n3) = wire_ts(t3);
                let req_port = if r.chance(9, 10) { 1 } else { 2 };
                let req_clock = if r.chance(9, 10) { own } else { 0x42 };
                let mut body = ts10(s2, n2);
                body.extend_from_slice(&pid10(req_clock, req_port));
                let mut h = w.hdr(PDELAY_RESP, resp_ids[who], 1, seq);
                h.flags[0] = if two { 2 } else { 0 };
                h.correction = corr(r);
                let resp = Ev::RecvEvent(0, frame(&h, &body, &[]), t4);
                let mut body3 = ts10(s3, n3);
                body3.extend_from_slice(&pid10(req_clock, req_port));
                let mut h3 = w.hdr(PDELAY_RESP_FOLLOW_UP, resp_ids[who], 1, seq);
                h3.correction = corr(r);
                let f3 = frame(&h3, &body3, &[]);
                let fup = if r.chance(1, 6) {
                    Ev::RecvEvent(0, f3, t4)
                } else {
                    Ev::RecvGeneral(0, f3)
                };
                kinds.insert(if two { "2step" } else { "1step" });
                if r.chance(1, 5) {
                    kinds.insert("fup-first");
                    stash.push(resp);
                    fup
                } else {
                    if two || r.chance(1, 3) {
                        stash.push(fup);
                    }
                    if r.chance(1, 6) {
                        kinds.insert("dup");
                        if let Ev::RecvEvent(_, f, t) = &resp {
                            stash.push(Ev::RecvEvent(0, f.clone(), *t + 5));
                        }
                    }
                    resp
                }
            }
            11..=12 => {
                if stash.is_empty() {
                    Ev::DelayReqTimer(0)
                } else {
                    let k = r.below(stash.len() as u64) as usize;
                    stash.remove(k)
                }
            }
            13 => Ev::AnnounceReceiptTimer(0),
            14 => match r.below(3) {
                0 => Ev::Bmca,
                1 => {
                    let f = w.announce_frame(0, &[]);
                    Ev::RecvGeneral(0, f)
                }
                _ => {
                    // Announce bearing our own clock identity from a lower-numbered
                    // port of this instance (the multiport rule of handle_announce)
                    kinds.insert("own-announce");
                    let h = w.hdr(ANNOUNCE, own, 0, r.next() as u16);
                    let a = w.masters[0].ann.clone();
                    Ev::RecvGeneral(0, frame(&h, &announce_body(&a), &[]))
                }
            },
            _ => match r.below(4) {
                0 => Ev::SyncTimer(0),
                1 => Ev::AnnounceTimer(0),
                2 => {
                    let t2 = w.tick(r);
                    let (s, _f) = sync_frames(r, &mut w, 0, false, t2);
                    Ev::RecvEvent(0, s, t2)
                }
                _ => {
                    let t = w.tick(r);
                    let h = w.hdr(DELAY_REQ, 0x4200_0000_0000_0000, 1, 9);
                    Ev::RecvEvent(0, frame(&h, &ts10(0, 0), &[]), t)
                }
            },
        };
        if !sim.step(ev) {
            break;
        }
        w.observe(&sim);
    }
    let meas = sim.results.iter().filter(|x| x.contains("OFilterMeas")).count();
    let class = format!(
        "c14:{}:m{}:{}:{}",
        if sim.panicked { "panic" } else { "ok" },
        meas.min(9),
        kinds.iter().cloned().collect::<Vec<_>>().join("+"),
        w.visited.iter().cloned().collect::<Vec<_>>().join("")
    );
    (class, sim)
}

// ---------------------------------------------------------------------------
// C11: announce contents on boundary clocks

pub fn gen_c11(r: &mut Rng) -> (String, Sim) {
    let mut icfg = rand_inst_cfg(r);
    icfg.slave_only = false;
    icfg.quality.0 = *r.pick(&[248u8, 255, 187, 248, 6]);
    let np = 2 + r.below(2) as usize;
    let cfgs: Vec<PortCfg> = (0..np)
        .map(|_| {
            let mut c = rand_port_cfg(r);
            c.acceptable = None;
            c.master_only = false;
            c
        })
        .collect();
    let mut sim = Sim::new(icfg, cfgs);
    let mut w = World::new(r, &sim, 3);
    let own = sim.icfg.clock_identity;
    w.masters[0].ann.prio1 = 10;
    w.masters[1].ann.prio1 = 20;
    let mut kinds = std::collections::BTreeSet::new();
    // other ports become master by timeout
    for p in 1..np {
        sim.step(Ev::AnnounceReceiptTimer(p));
    }
    let n = 15 + r.below(30);
    for _ in 0..n {
        let p = r.below(np as u64) as usize;
        let ev = match r.below(14) {
            0..=4 => {
                // announce from master 0 (mostly on port 0) with changing contents
                let m = if r.chance(4, 5) { 0 } else { 1 + r.below(2) as usize };
                let port = if r.chance(4, 5) { 0 } else { p };
                if r.chance(1, 3) {
                    let ms = &mut w.masters[m];
                    ms.flags = [0, r.below(64) as u8];
                    ms.ann.utc_offset = r.range(-100, 100) as i16;
                    ms.ann.time_source = *r.pick(&[0x10u8, 0x20, 0xa0, 0x33, 0xfe, 0xff]);
                    ms.ann.steps = match r.below(6) {
                        0 => 254,
                        1 => 255,
                        2 => 65535,
                        _ => r.below(6) as u16,
                    };
                    ms.ann.class = *r.pick(&[6u8, 7, 13, 248]);
                    ms.ann.accuracy = *r.pick(&[0x20u8, 0x21, 0xfe, 0x31]);
                    ms.ann.variance = r.next() as u16;
                    ms.ann.prio2 = r.next() as u8;
                    ms.ann.gm = if r.chance(1, 2) { ms.clock } else { 0x0900_0000_0000_0009 };
                    kinds.insert("change");
                }
                let mut suffix = Vec::new();
                if r.chance(1, 5) {
                    let mut v = Vec::new();
                    for j in 0..r.below(4) {
                        let id: u64 = if r.chance(1, 6) { own } else { 0x7100_0000_0000_0000 + j };
                        v.extend_from_slice(&id.to_be_bytes());
                    }
                    suffix = tlv(8, &v);
                    kinds.insert("path");
                }
                let f = w.announce_frame(m, &suffix);
                Ev::RecvGeneral(port, f)
            }
            5..=7 => Ev::Bmca,
            8..=10 => Ev::AnnounceTimer(p),
            11 => {
                kinds.insert("quality");
                Ev::SetClockQuality((
                    *r.pick(&[248u8, 6, 127, 255, 100]),
                    *r.pick(&[0xfeu8, 0x21, 0x25]),
                    r.next() as u16,
                ))
            }
            12 => {
                // master 1 becomes the best: take-over
                w.masters[1].ann.prio1 = 5;
                kinds.insert("takeover");
                let f = w.announce_frame(1, &[]);
                Ev::RecvGeneral(p, f)
            }
            _ => Ev::AnnounceReceiptTimer(p),
        };
        if !sim.step(ev) {
            break;
        }
        w.observe(&sim);
    }
    let anns = sim
        .results
        .iter()
        .map(|x| x.matches("AResetAnnounceTimer").count())
        .sum::<usize>();
    let class = format!(
        "c11:{}:a{}:{}:{}",
        if sim.panicked { "panic" } else { "ok" },
        anns.min(9),
        kinds.iter().cloned().collect::<Vec<_>>().join("+"),
        w.visited.iter().cloned().collect::<Vec<_>>().join("")
    );
    (class, sim)
}

// ---------------------------------------------------------------------------
// C06: foreign master qualification and expiry

pub fn gen_c06(r: &mut Rng) -> (String, Sim) {
    let steady = r.chance(1, 4);
    let mut icfg = rand_inst_cfg(r);
    icfg.prio1 = 128;
    if steady {
        icfg.slave_only = false;
        icfg.quality.0 = 248;
    }
    let np = if steady { 1 } else { 1 + r.below(2) as usize };
    let cfgs: Vec<PortCfg> = (0..np)
        .map(|_| {
            let mut c = rand_port_cfg(r);
            if steady {
                c.master_only = false;
                c.acceptable = None;
            }
            c
        })
        .collect();
    let mut sim = Sim::new(icfg, cfgs);
    let nm = if steady { 1 } else { *r.pick(&[1usize, 2, 3, 3, 9]) };
    let mut w = World::new(r, &sim, nm.max(1));
    // distinct identities for up to 9 masters
    for (k, m) in w.masters.iter_mut().enumerate() {
        m.clock = 0x0a00_0000_0000_0000 + ((k as u64 + 1) << 8) + 1;
        m.ann.gm = m.clock;
        if m.ann.steps >= 255 && k == 0 {
            m.ann.steps = 1;
        }
    }
    if steady {
        w.masters[0].ann.prio1 = 10;
        w.masters[0].ann.steps = r.below(4) as u16;
        w.masters[0].seq = *r.pick(&[65530u16, 65534, 7, 32765]);
    }
    let mut kinds = std::collections::BTreeSet::new();
    let horizon = 8 + r.below(12); // bmca runs
    'outer: for _ in 0..horizon {
        if steady {
            let f = w.announce_frame(0, &[]);
            if !sim.step(Ev::RecvGeneral(0, f)) {
                break;
            }
        } else {
            // every master is present or absent in this interval
            for m in 0..nm {
                let present = match m {
                    0 => r.chance(3, 4),
                    _ => r.chance(1, 2),
                };
                if !present {
                    kinds.insert("gap");
                    continue;
                }
                let port = r.below(np as u64) as usize;
                let mut f = w.announce_frame(m, &[]);
                match r.below(10) {
                    0 => {
                        // stale sequence id
                        let s = w.masters[m].seq.wrapping_sub(3);
                        f[30..32].copy_from_slice(&s.to_be_bytes());
                        kinds.insert("stale");
                    }
                    1 => {
                        kinds.insert("dup");
                        if !sim.step(Ev::RecvGeneral(port, f.clone())) {
                            break 'outer;
                        }
                    }
                    2 => {
                        // jump far ahead (wrap logic)
                        w.masters[m].seq = w.masters[m].seq.wrapping_add(40000);
                        kinds.insert("jump");
                    }
                    _ => {}
                }
                if !sim.step(Ev::RecvGeneral(port, f)) {
                    break 'outer;
                }
                w.observe(&sim);
            }
            if r.chance(1, 10) {
                let p = r.below(np as u64) as usize;
                kinds.insert("timeout");
                if !sim.step(Ev::AnnounceReceiptTimer(p)) {
                    break;
                }
            }
            if r.chance(1, 12) {
                // announce with own clock identity from port 1 (multiport rule)
                let own = sim.icfg.clock_identity;
                let h = w.hdr(ANNOUNCE, own, 1, 5);
                let a = w.masters[0].ann.clone();
                let p = r.below(np as u64) as usize;
                kinds.insert("own");
                if !sim.step(Ev::RecvGeneral(p, frame(&h, &announce_body(&a), &[]))) {
                    break;
                }
            }
        }
        // phase: sometimes two runs in a row, sometimes none
        let runs = if steady { 1 } else { *r.pick(&[1u64, 1, 1, 2, 0]) };
        for _ in 0..runs {
            if !sim.step(Ev::Bmca) {
                break 'outer;
            }
            w.observe(&sim);
        }
    }
    let class = format!(
        "c06:{}:{}:nm{}:np{}:{}:{}",
        if steady { "steady" } else { "pattern" },
        if sim.panicked { "panic" } else { "ok" },
        nm,
        np,
        kinds.iter().cloned().collect::<Vec<_>>().join("+"),
        w.visited.iter().cloned().collect::<Vec<_>>().join("")
    );
    (class, sim)
}

// ---------------------------------------------------------------------------
// C05: BMCA decision over small exhaustive-ish value domains

pub fn gen_c05(r: &mut Rng) -> (String, Sim) {
    let own_clock = *r.pick(&[0x0500_0000_0000_0005u64, 0x0100_0000_0000_0001, 0x0c00_0000_0000_000c]);
    let icfg = InstCfg {
        clock_identity: own_clock,
        prio1: *r.pick(&[127u8, 128]),
        prio2: *r.pick(&[127u8, 128]),
        domain: 0,
        sdo_id: 0,
        slave_only: r.chance(1, 8),
        path_trace: r.chance(1, 3),
        quality: (
            *r.pick(&[6u8, 127, 128, 248, 248]),
            *r.pick(&[0x20u8, 0x21]),
            *r.pick(&[1u16, 2]),
        ),
        tp: default_tp(),
    };
    let np = 1 + r.below(3) as usize;
    let cfgs: Vec<PortCfg> = (0..np)
        .map(|_| {
            let mut c = rand_port_cfg(r);
            c.acceptable = None;
            c.log_announce = 0;
            c.master_only = r.chance(1, 8);
            c.p2p = r.chance(1, 3);
            c
        })
        .collect();
    let mut sim = Sim::new(icfg, cfgs);
    // grandmaster table: identity -> attributes (keeps the candidate set GM-consistent)
    let gm_ids = [0x0900_0000_0000_0009u64, 0x0200_0000_0000_0002, 0x0e00_0000_0000_000e];
    let mut gms: Vec<Ann> = gm_ids
        .iter()
        .map(|g| Ann {
            utc_offset: r.range(0, 40) as i16,
            prio1: *r.pick(&[127u8, 128]),
            class: *r.pick(&[6u8, 127, 128, 248]),
            accuracy: *r.pick(&[0x20u8, 0x21]),
            variance: *r.pick(&[1u16, 2]),
            prio2: *r.pick(&[127u8, 128]),
            gm: *g,
            steps: 0,
            time_source: 0xa0,
        })
        .collect();
    // masters: sender identities around the own clock identity
    let sender_ids = [0x0400_0000_0000_0004u64, 0x0600_0000_0000_0006, 0x0f00_0000_0000_000f];
    let nm = 1 + r.below(3) as usize;
    struct M {
        clock: u64,
        port: u16,
        gm: usize,
        steps: u16,
        seq: u16,
        ports: Vec<usize>,
        flags: u8,
    }
    let mut ms: Vec<M> = (0..nm)
        .map(|k| M {
            clock: sender_ids[k],
            port: 1 + r.below(2) as u16,
            gm: r.below(3) as usize,
            steps: *r.pick(&[0u16, 1, 2, 3, 254]),
            seq: r.below(100) as u16,
            ports: {
                let mut v: Vec<usize> = (0..np).filter(|_| r.chance(1, 2)).collect();
                if v.is_empty() {
                    v.push(r.below(np as u64) as usize);
                }
                v
            },
            flags: r.below(64) as u8,
        })
        .collect();
    let mut kinds = std::collections::BTreeSet::new();
    for p in 0..np {
        if r.chance(1, 4) {
            kinds.insert("prior-master");
            sim.step(Ev::AnnounceReceiptTimer(p));
        }
    }
    let rounds = 1 + r.below(3);
    let mut w = World::new(r, &sim, 1);
    // a P2P port disabled by a peer delay fault (two responders to one Pdelay_Req): its
    // Erbest must not become Ebest and the BMCA never takes it out of FAULTY
    for p in 0..np {
        if sim.cfgs[p].p2p && r.chance(2, 3) {
            kinds.insert("prior-faulty");
            if !sim.step(Ev::DelayReqTimer(p)) {
                break;
            }
            w.observe(&sim);
            let seq = w.last_pdelay_req[p].unwrap_or(0);
            let t: u128 = (1_700_000_000u128 * NS) << 32;
            for who in [0x4400_0000_0000_0000u64, 0x4500_0000_0000_0000] {
                let (s, n) = wire_ts(t);
                let mut body = ts10(s, n);
                body.extend_from_slice(&pid10(own_clock, p as u16 + 1));
                let h = w.hdr(PDELAY_RESP, who, 1, seq);
                if !sim.step(Ev::RecvEvent(p, frame(&h, &body, &[]), t + (1000 << 32))) {
                    break;
                }
            }
        }
    }
    'outer: for round in 0..rounds {
        if round > 0 {
            match r.below(5) {
                0 => {
                    kinds.insert("quality");
                    if !sim.step(Ev::SetClockQuality((
                        *r.pick(&[6u8, 127, 128, 248]),
                        *r.pick(&[0x20u8, 0x21]),
                        *r.pick(&[1u16, 2]),
                    ))) {
                        break;
                    }
                }
                1 => {
                    kinds.insert("gmchange");
                    let g = r.below(3) as usize;
                    gms[g].prio1 = *r.pick(&[127u8, 128]);
                    gms[g].class = *r.pick(&[6u8, 127, 128, 248]);
                }
                2 => {
                    kinds.insert("steps");
                    let k = r.below(nm as u64) as usize;
                    ms[k].steps = *r.pick(&[0u16, 1, 2, 3, 254]);
                }
                3 => {
                    kinds.insert("slaveonly");
                    if !sim.step(Ev::SetSlaveOnly(r.chance(1, 2))) {
                        break;
                    }
                }
                _ => {}
            }
        }
        // presentation order of the announces varies
        let mut order: Vec<(usize, usize)> = Vec::new();
        for (k, m) in ms.iter().enumerate() {
            for p in &m.ports {
                order.push((k, *p));
                order.push((k, *p));
            }
        }
        for i in (1..order.len()).rev() {
            let j = r.below(i as u64 + 1) as usize;
            order.swap(i, j);
        }
        for (k, p) in order {
            let m = &mut ms[k];
            m.seq = m.seq.wrapping_add(1);
            let mut a = gms[m.gm].clone();
            a.steps = m.steps;
            let mut h = w.hdr(ANNOUNCE, m.clock, m.port, m.seq);
            h.flags = [0, m.flags];
            if !sim.step(Ev::RecvGeneral(p, frame(&h, &announce_body(&a), &[]))) {
                break 'outer;
            }
        }
        if !sim.step(Ev::Bmca) {
            break;
        }
        w.observe(&sim);
    }
    let class = format!(
        "c05:{}:np{}:nm{}:r{}:{}:{}",
        if sim.panicked { "panic" } else { "ok" },
        np,
        nm,
        rounds,
        kinds.iter().cloned().collect::<Vec<_>>().join("+"),
        sim.states.iter().map(|s| s.to_string()).collect::<Vec<_>>().join("")
    );
    (class, sim)
}

// ---------------------------------------------------------------------------
// C07: insertions of traffic that must have no effect

/// A frame that the property says must be ignored by port `p` in the current state of `sim`.
pub fn ignorable_frame(r: &mut Rng, sim: &Sim, w: &mut World, p: usize) -> (Ev, &'static str) {
    let own = sim.icfg.clock_identity;
    let t = w.now + r.below(1000) as u128;
    let parent = sim.parent;
    let stranger = (0x6600_0000_0000_0000u64 + r.below(3), 1u16);
    let mut kind;
    let ev = loop {
        let slave = sim.states.get(p).copied() == Some(9);
        let roll = if slave && r.chance(3, 5) { 6 + r.below(6) } else { r.below(12) };
        match roll {
            0 => {
                kind = "domain";
                let mut f = w.announce_frame(0, &[]);
                w.masters[0].seq = w.masters[0].seq.wrapping_sub(1); // do not disturb the base sequence
                f[4] = f[4].wrapping_add(1 + r.below(200) as u8);
                break Ev::RecvGeneral(p, f);
            }
            1 => {
                kind = "sdo";
                let mut h = w.hdr(SYNC, parent.0, parent.1, r.next() as u16);
                h.sdo_id = (h.sdo_id + 1 + r.below(100) as u16) & 0xfff;
                let (s, n) = wire_ts(t);
                break Ev::RecvEvent(p, frame(&h, &ts10(s, n), &[]), t);
            }
            2 => {
                kind = "version";
                let mut h = w.hdr(ANNOUNCE, parent.0, parent.1, r.next() as u16);
                h.version = *r.pick(&[0x11u8, 0x13, 0x10, 0x01, 0x2f]);
                let a = w.masters[0].ann.clone();
                break Ev::RecvGeneral(p, frame(&h, &announce_body(&a), &[]));
            }
            3 => {
                kind = "malformed";
                let h = w.hdr(*r.pick(&[ANNOUNCE, SYNC, FOLLOW_UP, DELAY_RESP]), parent.0, parent.1, 3);
                let mut f = frame(&h, &[0; 30], &[]);
                match r.below(4) {
                    0 => f.truncate(r.below(34) as usize),
                    1 => f[0] = (f[0] & 0xf0) | *r.pick(&[4u8, 5, 6, 7, 14, 15]),
                    2 => {
                        f[2] = 0;
                        f[3] = r.below(34) as u8;
                    }
                    _ => f.truncate(34 + r.below(9) as usize),
                }
                break Ev::RecvGeneral(p, f);
            }
            4 => {
                // Announce from an identity outside the acceptable master list
                if let Some(l) = &sim.cfgs[p].acceptable {
                    // a stranger, or (the multiport rule must not be reachable for an unacceptable
                    // sender either) a lower-numbered port of the clock itself
                    let (bad, bad_port) = if p >= 1 && !l.contains(&own) && r.chance(1, 2) {
                        (own, 1 + r.below(p as u64) as u16)
                    } else {
                        (0x6100_0000_0000_0000u64, 1u16)
                    };
                    if !l.contains(&bad) {
                        kind = "unacceptable";
                        let h = w.hdr(ANNOUNCE, bad, bad_port, r.next() as u16);
                        let mut a = w.masters[0].ann.clone();
                        a.prio1 = 1;
                        break Ev::RecvGeneral(p, frame(&h, &announce_body(&a), &[]));
                    }
                }
            }
            5 => {
                kind = "own-identity";
                let h = w.hdr(ANNOUNCE, own, (p + 1) as u16, r.next() as u16);
                let mut a = w.masters[0].ann.clone();
                a.prio1 = 1;
                break Ev::RecvGeneral(p, frame(&h, &announce_body(&a), &[]));
            }
            6 | 7 => {
                kind = "sync-not-parent";
                let mut h = w.hdr(SYNC, stranger.0, stranger.1, r.next() as u16);
                h.flags[0] = if r.chance(1, 2) { 2 } else { 0 };
                h.correction = corr(r);
                let (s, n) = wire_ts(t);
                break Ev::RecvEvent(p, frame(&h, &ts10(s, n), &[]), t);
            }
            8 => {
                kind = "fup-not-parent";
                let seq = w.masters[0].sync_seq;
                let h = w.hdr(FOLLOW_UP, stranger.0, stranger.1, seq);
                let (s, n) = wire_ts(t);
                break Ev::RecvGeneral(p, frame(&h, &ts10(s, n), &[]));
            }
            9 => {
                kind = "dresp-not-parent";
                let (seq, _) = w.last_delay_req[p].clone().unwrap_or((0, vec![]));
                let h = w.hdr(DELAY_RESP, stranger.0, stranger.1, seq);
                let (s, n) = wire_ts(t);
                let mut body = ts10(s, n);
                body.extend_from_slice(&pid10(own, (p + 1) as u16));
                break Ev::RecvGeneral(p, frame(&h, &body, &[]));
            }
            _ => {
                kind = "dresp-other-requester";
                let (seq, _) = w.last_delay_req[p].clone().unwrap_or((0, vec![]));
                let h = w.hdr(DELAY_RESP, parent.0, parent.1, seq);
                let (s, n) = wire_ts(t);
                let mut body = ts10(s, n);
                let req = if r.chance(1, 2) { (own, (p + 2) as u16) } else { (0x4200_0000_0000_0001, (p + 1) as u16) };
                body.extend_from_slice(&pid10(req.0, req.1));
                break Ev::RecvGeneral(p, frame(&h, &body, &[]));
            }
        }
    };
    (ev, kind)
}

pub fn gen_c07(r: &mut Rng) -> (String, String) {
    // base history from one of the scenario generators
    let (_, base) = match r.below(20) {
        0..=2 => gen_mix(r),
        3..=10 => gen_c09(r),
        11..=14 => gen_c11(r),
        15..=17 => gen_c14(r),
        _ => gen_c10(r, false),
    };
    let mut sim2 = Sim::new(base.icfg.clone(), base.cfgs.clone());
    let mut w = World::new(r, &sim2, 2);
    let mut positions: Vec<usize> = Vec::new();
    let mut kinds = std::collections::BTreeSet::new();
    let mut states = std::collections::BTreeSet::new();
    let evs = base.evlog.clone();
    let rate = 1 + r.below(4);
    for ev in evs {
        // insert 0..2 ignorable frames before this event
        while r.below(5) < rate && positions.len() < 40 {
            let p = r.below(sim2.nports() as u64) as usize;
            let (ins, kind) = ignorable_frame(r, &sim2, &mut w, p);
            kinds.insert(kind);
            states.insert(format!("{}{}", kind, sim2.states.get(p).copied().unwrap_or(0)));
            positions.push(sim2.events.len());
            if !sim2.step(ins) {
                break;
            }
            w.observe(&sim2);
            if r.chance(1, 2) {
                break;
            }
        }
        if !sim2.step(ev) {
            break;
        }
        w.observe(&sim2);
    }
    let class = format!(
        "c07:{}:{}:{}",
        if sim2.panicked || base.panicked { "panic" } else { "ok" },
        positions.len().min(9),
        states.iter().cloned().collect::<Vec<_>>().join("+")
    );
    let term = format!(
        "(mkC07 {} {} [{}])",
        base.case_term(),
        sim2.case_term(),
        positions.iter().map(|x| format!("{}%nat", x)).collect::<Vec<_>>().join("; ")
    );
    (class, term)
}

// ---------------------------------------------------------------------------
// C08: roles — mixed walk biased towards role changes on multi-port instances

pub fn gen_c08(r: &mut Rng) -> (String, Sim) {
    let mut icfg = rand_inst_cfg(r);
    icfg.slave_only = r.chance(1, 4);
    let np = 1 + r.below(3) as usize;
    let cfgs: Vec<PortCfg> = (0..np)
        .map(|_| {
            let mut c = rand_port_cfg(r);
            c.master_only = r.chance(1, 4);
            c
        })
        .collect();
    let mut sim = Sim::new(icfg, cfgs);
    let nm = 1 + r.below(3) as usize;
    let mut w = World::new(r, &sim, nm);
    for (k, m) in w.masters.iter_mut().enumerate() {
        m.ann.prio1 = *r.pick(&[10u8, 128, 250]);
        if k == 0 {
            m.ann.steps = r.below(3) as u16;
        }
    }
    let n = 15 + r.below(45);
    for _ in 0..n {
        let p = r.below(np as u64) as usize;
        let ev = match r.below(20) {
            0..=5 => {
                // two announces in a row from one master so that it qualifies; sometimes two
                // ports of the instance sit on the same segment and hear the very same frames
                let m = r.below(nm as u64) as usize;
                let q = if np >= 2 && r.chance(1, 3) { Some((p + 1) % np) } else { None };
                let f = w.announce_frame(m, &[]);
                if let Some(q) = q {
                    if !sim.step(Ev::RecvGeneral(q, f.clone())) {
                        break;
                    }
                }
                if !sim.step(Ev::RecvGeneral(p, f)) {
                    break;
                }
                w.observe(&sim);
                let f = w.announce_frame(m, &[]);
                if let Some(q) = q {
                    if !sim.step(Ev::RecvGeneral(q, f.clone())) {
                        break;
                    }
                }
                Ev::RecvGeneral(p, f)
            }
            6..=9 => Ev::Bmca,
            10 => Ev::SetSlaveOnly(r.chance(1, 2)),
            11 => Ev::AnnounceReceiptTimer(p),
            12 => Ev::SyncTimer(p),
            13 => Ev::AnnounceTimer(p),
            14 => Ev::DelayReqTimer(p),
            _ => mix_event(r, &sim, &mut w),
        };
        if !sim.step(ev) {
            break;
        }
        w.observe(&sim);
    }
    let class = format!(
        "c08:np{}:{}:{}{}:{}",
        np,
        if sim.panicked { "panic" } else { "ok" },
        if sim.icfg.slave_only { "so" } else { "" },
        if sim.cfgs.iter().any(|c| c.master_only) { "mo" } else { "" },
        w.visited.iter().cloned().collect::<Vec<_>>().join("")
    );
    (class, sim)
}

// ---------------------------------------------------------------------------
// C15: TLV forwarding and path trace on boundary clocks

pub fn gen_c15(r: &mut Rng) -> (String, Sim) {
    let mut icfg = rand_inst_cfg(r);
    icfg.slave_only = false;
    icfg.quality.0 = 248;
    icfg.prio1 = 128;
    icfg.path_trace = r.chance(2, 3);
    let np = 2 + r.below(2) as usize;
    let cfgs: Vec<PortCfg> = (0..np)
        .map(|_| {
            let mut c = rand_port_cfg(r);
            c.acceptable = None;
            c.master_only = false;
            c
        })
        .collect();
    let mut sim = Sim::new(icfg, cfgs);
    let mut w = World::new(r, &sim, 2);
    let own = sim.icfg.clock_identity;
    w.masters[0].ann.prio1 = 10;
    w.masters[0].ann.steps = r.below(3) as u16;
    w.masters[1].ann.prio1 = 200; // announces too, but never parent
    let mut kinds = std::collections::BTreeSet::new();
    // port 0 becomes slave of master 0, the others master
    for _ in 0..2 {
        let f = w.announce_frame(0, &[]);
        sim.step(Ev::RecvGeneral(0, f));
    }
    for p in 1..np {
        sim.step(Ev::AnnounceReceiptTimer(p));
    }
    sim.step(Ev::Bmca);
    w.observe(&sim);
    let path_room = |n: usize| 960usize.saturating_sub(4 + 8 * (n + 1));
    let mut last_path_len = 0usize;
    let n = 8 + r.below(25);
    for _ in 0..n {
        let ev = match r.below(12) {
            0..=5 => {
                // announce from the parent (mostly) or the other master with TLVs
                let m = if r.chance(5, 6) { 0 } else { 1 };
                let mut suffix = Vec::new();
                if r.chance(2, 3) {
                    // path trace TLV
                    let plen = match r.below(8) {
                        0 => 0,
                        1 => 118 + r.below(4) as usize,
                        2 => 126 + r.below(5) as usize,
                        3 => 200,
                        _ => r.below(6) as usize,
                    };
                    let mut v = Vec::new();
                    for j in 0..plen {
                        let id: u64 = if r.chance(1, 40) { own } else { 0x7100_0000_0000_0000 + j as u64 };
                        v.extend_from_slice(&id.to_be_bytes());
                    }
                    if m == 0 {
                        last_path_len = plen;
                    }
                    suffix.extend_from_slice(&tlv(8, &v));
                    kinds.insert("path");
                }
                let room = if sim.icfg.path_trace { path_room(last_path_len) } else { 960 };
                for _ in 0..r.below(4) {
                    let ty = *r.pick(&[9u16, 0x4000, 0x4001, 0x4abc, 0x7f10, 0x7fff, 3, 0x8001, 1, 0x2004]);
                    let len: usize = match r.below(9) {
                        0 => 0,
                        1 => room.saturating_sub(4),     // exactly fits
                        2 => room.saturating_sub(2),     // two too many
                        3 => room.saturating_sub(6),     // fits with 2 spare
                        4 => 2 * r.below(40) as usize + 900,
                        5 => 1100,
                        _ => 2 * r.below(30) as usize,
                    } & !1usize;
                    kinds.insert(match len {
                        0 => "empty",
                        l if l + 4 > 960 => "oversize",
                        l if l > 800 => "near-room",
                        _ => "small",
                    });
                    suffix.extend_from_slice(&tlv(ty, &r.bytes(len)));
                    if suffix.len() > 1900 {
                        break;
                    }
                }
                if 64 + suffix.len() > 2048 {
                    suffix.truncate(0);
                }
                let f = w.announce_frame(m, &suffix);
                Ev::RecvGeneral(0, f)
            }
            6..=9 => Ev::AnnounceTimer(1 + r.below(np as u64 - 1) as usize),
            10 => Ev::Bmca,
            _ => match r.below(3) {
                0 => Ev::AnnounceTimer(0),
                1 => {
                    // the other master takes over: parent changes
                    w.masters[1].ann.prio1 = 5;
                    kinds.insert("takeover");
                    let f = w.announce_frame(1, &[]);
                    Ev::RecvGeneral(0, f)
                }
                _ => {
                    // the clock itself becomes the best one: grandmaster take-over, the path
                    // learned from the former parent has to be forgotten
                    kinds.insert("gm");
                    if !sim.step(Ev::SetClockQuality((6, 0x20, 1))) {
                        break;
                    }
                    Ev::Bmca
                }
            },
        };
        if !sim.step(ev) {
            break;
        }
        w.observe(&sim);
    }
    let fwd = sim.results.iter().map(|x| x.matches("AForwardTLV").count()).sum::<usize>();
    let class = format!(
        "c15:{}:pt{}:f{}:{}:{}",
        if sim.panicked { "panic" } else { "ok" },
        sim.icfg.path_trace as u8,
        fwd.min(9),
        kinds.iter().cloned().collect::<Vec<_>>().join("+"),
        w.visited.iter().cloned().collect::<Vec<_>>().join("")
    );
    (class, sim)
}

// ---------------------------------------------------------------------------
// C12: a host that obeys the timer actions, in simulated time

pub struct Host {
    pub now: u128, // ns
    pub timers: Vec<[Option<u128>; 5]>,
    pub next_bmca: u128,
    pub bmca_ns: u128,
}

impl Host {
    pub fn new(sim: &Sim) -> Host {
        let log = sim.cfgs.iter().map(|c| c.log_announce).min().unwrap_or(0);
        let bmca_ns = if log >= 0 { NS << log } else { NS >> (-log) };
        let mut h = Host {
            now: 0,
            timers: vec![[None; 5]; sim.nports()],
            next_bmca: bmca_ns,
            bmca_ns,
        };
        for (p, k, ns) in &sim.init_resets {
            h.timers[*p][*k as usize] = Some(*ns);
        }
        h
    }
    pub fn apply(&mut self, sim: &Sim) {
        for (p, k, ns) in &sim.last_resets {
            self.timers[*p][*k as usize] = Some(self.now + *ns);
        }
    }
    /// execute an event, keeping the timer bookkeeping in step
    pub fn exec(&mut self, sim: &mut Sim, ev: Ev) -> bool {
        match &ev {
            Ev::AnnounceTimer(p) => self.timers[*p][0] = None,
            Ev::SyncTimer(p) => self.timers[*p][1] = None,
            Ev::DelayReqTimer(p) => self.timers[*p][2] = None,
            Ev::AnnounceReceiptTimer(p) => self.timers[*p][3] = None,
            Ev::FilterUpdateTimer(p) => self.timers[*p][4] = None,
            _ => {}
        }
        let ok = sim.step(ev);
        self.apply(sim);
        ok
    }
    pub fn tick_to(&mut self, sim: &mut Sim, t: u128) -> bool {
        if t > self.now {
            let dt = (t - self.now) as u64;
            self.now = t;
            return sim.step(Ev::Tick(dt));
        }
        true
    }
    /// the earliest due thing: (time, Some((port, kind))) or BMCA
    pub fn next_due(&self) -> (u128, Option<(usize, usize)>) {
        let mut best = (self.next_bmca, None);
        for (p, ts) in self.timers.iter().enumerate() {
            for (k, t) in ts.iter().enumerate() {
                if let Some(t) = t {
                    if *t < best.0 {
                        best = (*t, Some((p, k)));
                    }
                }
            }
        }
        best
    }
    pub fn bits(&self) -> u128 {
        (1_700_000_000u128 * NS + self.now) << 32
    }
    /// run the obedient host until `until`; event sends get their timestamp right away
    pub fn run(&mut self, r: &mut Rng, sim: &mut Sim, w: &mut World, until: u128, lose_ts: bool, mut each: impl FnMut(&mut Host, &mut Rng, &mut Sim, &mut World) -> bool) -> bool {
        let mut guard = 0;
        while guard < 1500 {
            guard += 1;
            if !each(self, r, sim, w) {
                return false;
            }
            let (t, what) = self.next_due();
            if t > until {
                return self.tick_to(sim, until);
            }
            if !self.tick_to(sim, t) {
                return false;
            }
            let ok = match what {
                None => {
                    self.next_bmca = self.now + self.bmca_ns;
                    self.exec(sim, Ev::Bmca)
                }
                Some((p, 0)) => self.exec(sim, Ev::AnnounceTimer(p)),
                Some((p, 1)) => self.exec(sim, Ev::SyncTimer(p)),
                Some((p, 2)) => self.exec(sim, Ev::DelayReqTimer(p)),
                Some((p, 3)) => self.exec(sim, Ev::AnnounceReceiptTimer(p)),
                Some((p, _)) => self.exec(sim, Ev::FilterUpdateTimer(p)),
            };
            if !ok {
                return false;
            }
            w.observe(sim);
            // transmit timestamps
            for p in 0..sim.nports() {
                while !sim.pending[p].is_empty() {
                    if lose_ts && r.chance(1, 10) {
                        sim.pending[p].remove(0); // lost transmit timestamp
                        continue;
                    }
                    let b = self.bits();
                    if !self.exec(sim, Ev::SendTimestamp(p, 0, b)) {
                        return false;
                    }
                    w.observe(sim);
                }
            }
        }
        true
    }
}

pub fn gen_c12(r: &mut Rng) -> (String, Sim) {
    // random prefix (host calls in any order, no time passing)
    let mut icfg = rand_inst_cfg(r);
    icfg.slave_only = r.chance(1, 8);
    let np = 1 + r.below(2) as usize;
    let cfgs: Vec<PortCfg> = (0..np)
        .map(|_| {
            let mut c = rand_port_cfg(r);
            c.log_announce = r.range(-1, 1) as i8;
            c.log_sync = r.range(-1, 0) as i8;
            c.log_delay = r.range(-1, 1) as i8;
            c.receipt_timeout = r.range(2, 3) as u8;
            c
        })
        .collect();
    let mut sim = Sim::new(icfg, cfgs);
    let mut w = World::new(r, &sim, 2);
    w.masters[0].ann.prio1 = 10;
    w.masters[0].ann.steps = 1;
    w.masters[0].ann.gm = w.masters[0].clock;
    let mut host = Host::new(&sim);
    let prefix = r.below(25);
    for _ in 0..prefix {
        let ev = if np == 2 && r.chance(1, 6) {
            // the second port hears the first port of its own clock: multiport rule, the
            // block has to lapse after one announce interval of silence
            let own = sim.icfg.clock_identity;
            let h = w.hdr(ANNOUNCE, own, 1, r.below(50) as u16);
            let a = w.masters[0].ann.clone();
            Ev::RecvGeneral(1, frame(&h, &announce_body(&a), &[]))
        } else if r.chance(1, 3) {
            // help reaching slave / faulty states
            match r.below(3) {
                0 => {
                    let f = w.announce_frame(0, &[]);
                    Ev::RecvGeneral(0, f)
                }
                1 => Ev::Bmca,
                _ => Ev::DelayReqTimer(0),
            }
        } else {
            mix_event(r, &sim, &mut w)
        };
        if !host.exec(&mut sim, ev) {
            break;
        }
        w.observe(&sim);
    }
    // directed scenario for the recovery from a peer delay fault (1 case in 8)
    if r.chance(1, 8) {
        return gen_c12_recovery(r);
    }
    let mode = r.below(3); // 0 = silence, 1 = steady better master, 2 = master then silence
    let longest = sim
        .cfgs
        .iter()
        .map(|c| (2 * c.receipt_timeout as u128 + 12) * if c.log_announce >= 0 { NS << c.log_announce } else { NS >> (-c.log_announce) })
        .max()
        .unwrap();
    let horizon = longest + 4 * host.bmca_ns + r.below(3) as u128 * NS;
    let lose = r.chance(1, 4);
    let mut next_ann: u128 = 0;
    let mut next_sync: u128 = 0;
    let ann_ns = NS; // the foreign master announces once per second
    let steady_until = match mode {
        2 => host.now + (4 + r.below(6) as u128) * NS,
        1 => host.now + horizon,
        _ => host.now,
    };
    let until = if mode == 2 { steady_until + horizon } else { host.now + horizon };
    let ok = host.run(r, &mut sim, &mut w, until, lose, |h, r, sim, w| {
        if mode == 0 || h.now > steady_until {
            return true;
        }
        // the steady master: announce and sync (two-step) on port 0, answers delay requests
        if h.now >= next_ann {
            next_ann = h.now + ann_ns;
            let f = w.announce_frame(0, &[]);
            if !h.exec(sim, Ev::RecvGeneral(0, f)) {
                return false;
            }
        }
        if h.now >= next_sync {
            next_sync = h.now + ann_ns / 2;
            let t2 = h.bits();
            let (s, f) = sync_frames(r, w, 0, true, t2);
            if !h.exec(sim, Ev::RecvEvent(0, s, t2)) {
                return false;
            }
            if !h.exec(sim, Ev::RecvGeneral(0, f)) {
                return false;
            }
        }
        if let Some((seq, _)) = w.last_delay_req[0].take() {
            let ms = &w.masters[0];
            let h2 = w.hdr(DELAY_RESP, ms.clock, ms.port, seq);
            let (s, n) = wire_ts(h.bits());
            let mut body = ts10(s, n);
            body.extend_from_slice(&pid10(sim.icfg.clock_identity, 1));
            if !h.exec(sim, Ev::RecvGeneral(0, frame(&h2, &body, &[]))) {
                return false;
            }
        }
        true
    });
    let _ = ok;
    let class = format!(
        "c12:{}:mode{}:np{}:{}{}:{}:{}",
        if sim.panicked { "panic" } else { "ok" },
        mode,
        np,
        if sim.icfg.slave_only { "so" } else { "" },
        if lose { "lose" } else { "" },
        sim.states.iter().map(|s| s.to_string()).collect::<Vec<_>>().join(""),
        w.visited.iter().cloned().collect::<Vec<_>>().join("")
    );
    (class, sim)
}

/// P2P port: master by receipt timeout, two responders => faulty, clean exchange => listening, then silence.
pub fn gen_c12_recovery(r: &mut Rng) -> (String, Sim) {
    let mut icfg = rand_inst_cfg(r);
    icfg.slave_only = false;
    let mut c = rand_port_cfg(r);
    c.p2p = true;
    c.log_announce = 0;
    c.log_sync = 0;
    c.log_delay = 0;
    c.receipt_timeout = 2;
    c.master_only = false;
    let mut sim = Sim::new(icfg, vec![c]);
    let mut w = World::new(r, &sim, 1);
    let own = sim.icfg.clock_identity;
    let mut host = Host::new(&sim);
    let via_timer = r.chance(2, 3);
    let mut ok = true;
    if via_timer {
        // let the receipt timer expire: the port becomes master and the timer is gone
        let until = host.now + 5 * NS;
        ok = host.run(r, &mut sim, &mut w, until, false, |_, _, _, _| true);
    }
    let resp = |w: &World, who: u64, seq: u16, t: u128, own: u64| -> Ev {
        let (s, n) = wire_ts(t);
        let mut body = ts10(s, n);
        body.extend_from_slice(&pid10(own, 1));
        let h = w.hdr(PDELAY_RESP, who, 1, seq); // one-step responder
        Ev::RecvEvent(0, frame(&h, &body, &[]), t + (1000 << 32))
    };
    // pdelay request, timestamp, two different responders
    ok = ok && host.exec(&mut sim, Ev::DelayReqTimer(0));
    w.observe(&sim);
    if !sim.pending[0].is_empty() {
        let b = host.bits();
        let k = sim.pending[0].len() - 1;
        ok = ok && host.exec(&mut sim, Ev::SendTimestamp(0, k, b));
    }
    let seq = w.last_pdelay_req[0].unwrap_or(0);
    let b = host.bits();
    ok = ok && host.exec(&mut sim, resp(&w, 0x4400_0000_0000_0000, seq, b, own));
    ok = ok && host.exec(&mut sim, resp(&w, 0x4500_0000_0000_0000, seq, b, own));
    w.observe(&sim);
    // let the remaining master timers die while faulty
    let until = host.now + 3 * NS;
    ok = ok && host.run(r, &mut sim, &mut w, until, false, |_, _, _, _| true);
    // clean exchange: the delay request timer keeps running in every state
    let seq2 = w.last_pdelay_req[0].unwrap_or(0);
    let b = host.bits();
    ok = ok && host.exec(&mut sim, resp(&w, 0x4400_0000_0000_0000, seq2, b, own));
    w.observe(&sim);
    // silence
    let until = host.now + 30 * NS;
    let _ = ok && host.run(r, &mut sim, &mut w, until, false, |_, _, _, _| true);
    let class = format!(
        "c12:{}:recovery:{}:{}:{}",
        if sim.panicked { "panic" } else { "ok" },
        if via_timer { "was-master" } else { "was-listening" },
        sim.states.iter().map(|s| s.to_string()).collect::<Vec<_>>().join(""),
        w.visited.iter().cloned().collect::<Vec<_>>().join("")
    );
    (class, sim)
}

// ---------------------------------------------------------------------------
// C03: every scenario generator, with frames and timestamps mutated towards extremes

thread_local! {
    static MUTATE: std::cell::Cell<Option<u64>> = std::cell::Cell::new(None);
}

/// Called by `Sim::new` callers: the scenario generators construct their own Sim,
/// so the mutation stream is switched on through a thread-local for the next Sim.
pub fn arm_mutator(seed: Option<u64>) {
    MUTATE.with(|m| m.set(seed));
}
pub fn take_mutator() -> Option<Rng> {
    MUTATE.with(|m| m.get()).map(|s| Rng::new(s, 77))
}

pub fn gen_c03(r: &mut Rng) -> (String, Sim) {
    arm_mutator(Some(r.next()));
    let which = r.below(9);
    let (class, sim) = match which {
        0 | 1 => gen_mix(r),
        2 => gen_c09(r),
        3 => gen_c10(r, false),
        4 => gen_c11(r),
        5 => gen_c14(r),
        6 => gen_c15(r),
        7 => gen_c06(r),
        _ => gen_c08(r),
    };
    arm_mutator(None);
    (format!("c03:{}", class), sim)
}


/// Long unobserved warm-up followed by a short observed tail: one host call
/// repeated ~65530 times so that the 16-bit sequence id of the generator it
/// drives wraps inside the observed tail.  Case type `wcase` (Port/WarmCases.v).
pub fn gen_warm(index: u64, r: &mut Rng, only_kind: Option<u64>) -> (String, String) {
    let kind = only_kind.unwrap_or(index % 4);
    let mut icfg = rand_inst_cfg(r);
    let mut cfg = rand_port_cfg(r);
    cfg.acceptable = None;
    cfg.master_only = false;
    let mut world: Option<World> = None;
    let (mut sim, rep, name) = match kind {
        0 | 1 => {
            icfg.slave_only = false;
            let mut sim = Sim::new(icfg, vec![cfg]);
            sim.step(Ev::AnnounceReceiptTimer(0));
            if kind == 0 {
                (sim, Ev::SyncTimer(0), "sync")
            } else {
                (sim, Ev::AnnounceTimer(0), "announce")
            }
        }
        2 => {
            let (sim, w) = slave_setup(r, false);
            world = Some(w);
            (sim, Ev::DelayReqTimer(0), "delay_req")
        }
        _ => {
            cfg.p2p = true;
            let sim = Sim::new(icfg, vec![cfg]);
            (sim, Ev::DelayReqTimer(0), "pdelay_req")
        }
    };
    let pre_n = sim.events.len();
    // the end-to-end slave case wraps right at the start of the tail
    let scripted = kind == 2 && r.chance(2, 3);
    let count = if scripted {
        65535 // the two scripted requests are 65535 and 0
    } else if kind == 2 {
        65533 + r.below(3) as usize
    } else {
        65520 + r.below(14) as usize
    };
    let mut alive = true;
    for _ in 0..count {
        if !sim.step(rep.clone()) {
            alive = false;
            break;
        }
        for q in sim.pending.iter_mut() {
            if q.len() > 4 {
                q.drain(..q.len() - 2);
            }
        }
    }
    let warm_end = sim.events.len();
    let warm_ok = alive;
    let tail = 24 + r.below(8);
    let mut stash: Vec<Ev> = Vec::new();
    let mut kinds = std::collections::BTreeSet::new();
    if world.is_some() && alive && scripted {
        // scripted start: two further requests, then the transmit timestamp of the OLDER
        // one arrives late, then the newer one's
        for step in 0..5 {
            if !alive {
                break;
            }
            let n = sim.pending[0].len();
            let ts = world.as_mut().unwrap().tick(r);
            let ev = match step {
                0 | 1 => rep.clone(),
                2 if n >= 2 => Ev::SendTimestamp(0, n - 2, ts),
                3 if n >= 1 => Ev::SendTimestamp(0, n - 1, ts),
                4 => {
                    // the parent answers the newest request
                    let w = world.as_mut().unwrap();
                    let (seq, _) = w.last_delay_req[0].clone().unwrap_or((0, vec![]));
                    let (clock, port) = (w.masters[0].clock, w.masters[0].port);
                    let mut h = w.hdr(DELAY_RESP, clock, port, seq);
                    h.correction = corr(r);
                    let (sec, nano) = wire_ts(ts);
                    let mut body = ts10(sec, nano);
                    body.extend_from_slice(&pid10(sim.icfg.clock_identity, 1));
                    Ev::RecvGeneral(0, frame(&h, &body, &[]))
                }
                _ => rep.clone(),
            };
            alive = sim.step(ev);
            world.as_mut().unwrap().observe(&sim);
        }
    }
    for k in 0..tail {
        if !alive {
            break;
        }
        if let Some(w) = world.as_mut() {
            // end-to-end slave: the full exchange mix (late / double transmit timestamps of
            // any pending request, Delay_Resp for the current or a neighbouring id, ...)
            // while the Delay_Req sequence id wraps; the timer fires often enough to wrap
            w.observe(&sim);
            let ev = if k % 3 == 0 { rep.clone() } else { c09_event(r, &sim, w, &mut stash, &mut kinds) };
            alive = sim.step(ev);
            continue;
        }
        if k % 3 == 2 && !sim.pending[0].is_empty() {
            let last = sim.pending[0].len() - 1;
            let ts = (r.below(1 << 40) as u128) * (1u128 << 32) + r.below(1 << 32) as u128;
            alive = sim.step(Ev::SendTimestamp(0, last, ts));
        } else {
            alive = sim.step(rep.clone());
        }
    }
    let rep_coq = if warm_end > pre_n { sim.events[pre_n].clone() } else { "EvTick 0".into() };
    let trace = if !warm_ok {
        "None".to_string()
    } else {
        format!("(Some [{}])", sim.results[warm_end..].join("; "))
    };
    let post = if !warm_ok { String::new() } else { sim.events[warm_end..].join("; ") };
    let term = format!(
        "(mkW {} [{}] ({}) {} [{}] {} {})",
        sim.icfg.coq_setup(&sim.cfgs),
        sim.events[..pre_n].join("; "),
        rep_coq,
        count,
        post,
        crate::coq_bool(!cfg!(debug_assertions)),
        trace
    );
    (format!("warm:{}:{}", name, if sim.panicked { "panic" } else { "ok" }), term)
}
