//! Independent byte-level builder for PTP frames used as harness inputs.

#[derive(Clone, Debug)]
pub struct Hdr {
    pub sdo_id: u16,
    pub msg_type: u8,
    pub version: u8, // full byte: minor << 4 | major
    pub length_override: Option<u16>,
    pub domain: u8,
    pub flags: [u8; 2],
    pub correction: i64,
    pub src_clock: u64,
    pub src_port: u16,
    pub seq: u16,
    pub control: u8,
    pub log_interval: i8,
}

impl Hdr {
    pub fn new(msg_type: u8, src_clock: u64, src_port: u16, seq: u16) -> Hdr {
        Hdr {
            sdo_id: 0,
            msg_type,
            version: 0x12,
            length_override: None,
            domain: 0,
            flags: [0, 0],
            correction: 0,
            src_clock,
            src_port,
            seq,
            control: 5,
            log_interval: 0,
        }
    }
}

pub fn ts10(secs: u64, nanos: u32) -> Vec<u8> {
    let mut v = secs.to_be_bytes()[2..8].to_vec();
    v.extend_from_slice(&nanos.to_be_bytes());
    v
}

pub fn pid10(clock: u64, port: u16) -> Vec<u8> {
    let mut v = clock.to_be_bytes().to_vec();
    v.extend_from_slice(&port.to_be_bytes());
    v
}

pub fn frame(h: &Hdr, body: &[u8], suffix: &[u8]) -> Vec<u8> {
    let total = 34 + body.len() + suffix.len();
    let mut f = Vec::with_capacity(total);
    f.push((((h.sdo_id >> 8) as u8) << 4) | (h.msg_type & 0x0f));
    f.push(h.version);
    f.extend_from_slice(&h.length_override.unwrap_or(total as u16).to_be_bytes());
    f.push(h.domain);
    f.push(h.sdo_id as u8);
    f.extend_from_slice(&h.flags);
    f.extend_from_slice(&h.correction.to_be_bytes());
    f.extend_from_slice(&[0, 0, 0, 0]);
    f.extend_from_slice(&pid10(h.src_clock, h.src_port));
    f.extend_from_slice(&h.seq.to_be_bytes());
    f.push(h.control);
    f.push(h.log_interval as u8);
    f.extend_from_slice(body);
    f.extend_from_slice(suffix);
    f
}

#[derive(Clone, Debug)]
pub struct Ann {
    pub utc_offset: i16,
    pub prio1: u8,
    pub class: u8,
    pub accuracy: u8,
    pub variance: u16,
    pub prio2: u8,
    pub gm: u64,
    pub steps: u16,
    pub time_source: u8,
}

pub fn announce_body(a: &Ann) -> Vec<u8> {
    let mut b = ts10(0, 0);
    b.extend_from_slice(&a.utc_offset.to_be_bytes());
    b.push(0);
    b.push(a.prio1);
    b.push(a.class);
    b.push(a.accuracy);
    b.extend_from_slice(&a.variance.to_be_bytes());
    b.push(a.prio2);
    b.extend_from_slice(&a.gm.to_be_bytes());
    b.extend_from_slice(&a.steps.to_be_bytes());
    b.push(a.time_source);
    b
}

pub fn tlv(ty: u16, value: &[u8]) -> Vec<u8> {
    let mut v = ty.to_be_bytes().to_vec();
    v.extend_from_slice(&(value.len() as u16).to_be_bytes());
    v.extend_from_slice(value);
    v
}

pub const SYNC: u8 = 0;
pub const DELAY_REQ: u8 = 1;
pub const PDELAY_REQ: u8 = 2;
pub const PDELAY_RESP: u8 = 3;
pub const FOLLOW_UP: u8 = 8;
pub const DELAY_RESP: u8 = 9;
pub const PDELAY_RESP_FOLLOW_UP: u8 = 10;
pub const ANNOUNCE: u8 = 11;
pub const SIGNALING: u8 = 12;
pub const MANAGEMENT: u8 = 13;
