//! Shared helpers for the correspondence harness binaries.
//!
//! Every binary prints one case per line on stdout:
//!     <class>\t<coq term>
//! where <coq term> is a pair (input, observed implementation output) in the
//! concrete syntax of the Coq model, and <class> is a short tag used to count
//! distinct non-trivial cases.  Case number `i` of seed `s` is a pure function
//! of (s, i), so a replay regenerates it from the current implementation.

use std::panic::{self, AssertUnwindSafe};

pub mod frames;
pub mod gens;
pub mod net;
pub mod port;

#[derive(Clone)]
pub struct Rng(pub u64);

impl Rng {
    pub fn new(seed: u64, index: u64) -> Self {
        // hash (seed, index) into an unrelated starting state: splitmix64 streams whose
        // states differ by a multiple of the increment are shifted copies of each other
        fn mix(mut z: u64) -> u64 {
            z = (z ^ (z >> 30)).wrapping_mul(0xBF58_476D_1CE4_E5B9);
            z = (z ^ (z >> 27)).wrapping_mul(0x94D0_49BB_1331_11EB);
            z ^ (z >> 31)
        }
        let s = mix(mix(seed.wrapping_add(0x9E37_79B9_7F4A_7C15)) ^ mix(index.wrapping_mul(0xD6E8_FEB8_6659_FD93).wrapping_add(1)));
        let mut r = Rng(s);
        r.next();
        r
    }
    pub fn next(&mut self) -> u64 {
        // splitmix64
        self.0 = self.0.wrapping_add(0x9E37_79B9_7F4A_7C15);
        let mut z = self.0;
        z = (z ^ (z >> 30)).wrapping_mul(0xBF58_476D_1CE4_E5B9);
        z = (z ^ (z >> 27)).wrapping_mul(0x94D0_49BB_1331_11EB);
        z ^ (z >> 31)
    }
    pub fn below(&mut self, n: u64) -> u64 {
        if n == 0 {
            0
        } else {
            self.next() % n
        }
    }
    pub fn range(&mut self, lo: i64, hi: i64) -> i64 {
        lo + self.below((hi - lo + 1) as u64) as i64
    }
    pub fn chance(&mut self, num: u64, den: u64) -> bool {
        self.below(den) < num
    }
    pub fn u128(&mut self) -> u128 {
        ((self.next() as u128) << 64) | self.next() as u128
    }
    pub fn pick<'a, T>(&mut self, xs: &'a [T]) -> &'a T {
        &xs[self.below(xs.len() as u64) as usize]
    }
    pub fn bytes(&mut self, n: usize) -> Vec<u8> {
        (0..n).map(|_| self.next() as u8).collect()
    }
}

/// Coq syntax for an integer in Z_scope.
pub fn z<T: Into<i128>>(v: T) -> String {
    let v: i128 = v.into();
    if v < 0 {
        format!("({})", v)
    } else {
        format!("{}", v)
    }
}
pub fn zu(v: u128) -> String {
    format!("{}", v)
}
/// Literals for cases files that open `uint63_scope` (coq/Base/Lit.v):
/// small numbers are primitive-integer literals (coerced to Z), negative
/// numbers `(zn k)`, numbers >= 2^63 `(zb [limbs base 2^62, little endian])`.
pub fn nu(v: u128) -> String {
    if v < (1u128 << 63) {
        format!("{}", v)
    } else {
        let mut limbs = Vec::new();
        let mut x = v;
        while x > 0 {
            limbs.push(format!("{}", x & ((1u128 << 62) - 1)));
            x >>= 62;
        }
        format!("(zb [{}])", limbs.join("; "))
    }
}
pub fn n<T: Into<i128>>(v: T) -> String {
    let v: i128 = v.into();
    if v < 0 {
        format!("(zn {})", nu(v.unsigned_abs()))
    } else {
        nu(v as u128)
    }
}
/// list of unsigned numbers as `list Z`
pub fn nlist(xs: &[u128]) -> String {
    if xs.iter().all(|x| *x < (1u128 << 63)) {
        format!("(zl [{}])", xs.iter().map(|x| x.to_string()).collect::<Vec<_>>().join("; "))
    } else {
        format!("[{}]", xs.iter().map(|x| format!("(zi {})", nu(*x))).collect::<Vec<_>>().join("; "))
    }
}
/// byte string: `(bs len [7 bytes per literal])`
pub fn nbytes(b: &[u8]) -> String {
    let mut lits = Vec::with_capacity(b.len() / 7 + 1);
    for ch in b.chunks(7) {
        let mut v: u64 = 0;
        for i in 0..7 {
            v = (v << 8) | (*ch.get(i).unwrap_or(&0) as u64);
        }
        lits.push(v.to_string());
    }
    format!("(bs {} [{}])", b.len(), lits.join("; "))
}

pub fn zlist<I: IntoIterator<Item = String>>(xs: I) -> String {
    let v: Vec<String> = xs.into_iter().collect();
    format!("[{}]", v.join("; "))
}
pub fn bytes_coq(b: &[u8]) -> String {
    zlist(b.iter().map(|x| format!("{}", x)))
}
pub fn coq_bool(b: bool) -> &'static str {
    if b {
        "true"
    } else {
        "false"
    }
}
pub fn coq_opt<T>(o: Option<T>, f: impl Fn(T) -> String) -> String {
    match o {
        Some(x) => format!("(Some {})", f(x)),
        None => "None".to_string(),
    }
}

/// Run `f`, mapping a panic to `None`.
pub fn catch<T>(f: impl FnOnce() -> T) -> Option<T> {
    panic::catch_unwind(AssertUnwindSafe(f)).ok()
}

pub fn silence_panics() {
    panic::set_hook(Box::new(|_| {}));
}

pub struct Args {
    pub seed: u64,
    pub count: u64,
    pub start: u64,
    pub only: Option<u64>,
    pub extra: Vec<String>,
}

pub fn parse_args() -> Args {
    let mut a = Args {
        seed: 0,
        count: 100,
        start: 0,
        only: None,
        extra: vec![],
    };
    let mut it = std::env::args().skip(1);
    while let Some(x) = it.next() {
        match x.as_str() {
            "--seed" => a.seed = it.next().unwrap().parse().unwrap(),
            "--count" => a.count = it.next().unwrap().parse().unwrap(),
            "--start" => a.start = it.next().unwrap().parse().unwrap(),
            "--only" => a.only = Some(it.next().unwrap().parse().unwrap()),
            _ => a.extra.push(x),
        }
    }
    a
}

/// Drive a per-index case generator: prints `index\tclass\tterm` lines.
pub fn drive(mut gen: impl FnMut(u64, &mut Rng) -> (String, String)) {
    silence_panics();
    let a = parse_args();
    let (lo, hi) = match a.only {
        Some(i) => (i, i + 1),
        None => (a.start, a.start + a.count),
    };
    use std::io::Write;
    let out = std::io::stdout();
    let mut out = std::io::BufWriter::new(out.lock());
    for i in lo..hi {
        let mut r = Rng::new(a.seed, i);
        let (class, term) = gen(i, &mut r);
        writeln!(out, "{}\t{}\t{}", i, class, term).unwrap();
    }
}
