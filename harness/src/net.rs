//! Networks of real PtpInstances (C01): synchronous rounds of one announce
//! interval; Announce frames travel one hop per round; every node runs the BMCA
//! once per round; announce receipt timers are obeyed in simulated time.

use crate::gens::{default_tp, rand_draws, Host, NS};
use crate::port::*;
use crate::Rng;

#[derive(Clone, Debug)]
pub struct NodeCfg {
    pub clock: u64,
    pub prio1: u8,
    pub class: u8,
    pub prio2: u8,
    pub slave_only: bool,
    pub nports: usize,
}

pub struct Net {
    pub sims: Vec<Sim>,
    pub hosts: Vec<Host>,
    /// segments: sets of (node, port)
    pub segments: Vec<Vec<(usize, usize)>>,
    /// endpoint currently cut off its segment
    pub cut: Vec<(usize, usize)>,
    pub silent: Vec<usize>,
    /// frames in flight: (segment, from endpoint, bytes)
    inflight: Vec<(usize, (usize, usize), Vec<u8>)>,
}

impl Net {
    pub fn new(r: &mut Rng, nodes: &[NodeCfg], segments: Vec<Vec<(usize, usize)>>) -> Net {
        let mut sims = Vec::new();
        let mut hosts = Vec::new();
        for n in nodes {
            let icfg = InstCfg {
                clock_identity: n.clock,
                prio1: n.prio1,
                prio2: n.prio2,
                domain: 0,
                sdo_id: 0,
                slave_only: n.slave_only,
                path_trace: false,
                quality: (n.class, 0xfe, 0xffff),
                tp: default_tp(),
            };
            let cfgs: Vec<PortCfg> = (0..n.nports)
                .map(|_| PortCfg {
                    acceptable: None,
                    p2p: false,
                    log_delay: 0,
                    log_announce: 0,
                    receipt_timeout: 3,
                    log_sync: 0,
                    master_only: false,
                    asymmetry: 0,
                    minor: 1,
                    rng: rand_draws(r, 64),
                })
                .collect();
            let sim = Sim::new(icfg, cfgs);
            hosts.push(Host::new(&sim));
            sims.push(sim);
        }
        Net {
            sims,
            hosts,
            segments,
            cut: vec![],
            silent: vec![],
            inflight: vec![],
        }
    }

    fn segment_of(&self, node: usize, port: usize) -> Option<usize> {
        self.segments.iter().position(|s| s.contains(&(node, port)))
    }

    pub fn round(&mut self) -> bool {
        let n = self.sims.len();
        // 1. time passes
        for i in 0..n {
            let t = self.hosts[i].now + NS;
            if !self.hosts[i].tick_to(&mut self.sims[i], t) {
                return false;
            }
        }
        // 2. deliver the frames of the previous round
        let frames = std::mem::take(&mut self.inflight);
        for (seg, from, bytes) in frames {
            if self.cut.contains(&from) || self.silent.contains(&from.0) {
                continue;
            }
            let eps = self.segments[seg].clone();
            for (node, port) in eps {
                if (node, port) == from || self.cut.contains(&(node, port)) || self.silent.contains(&node) {
                    continue;
                }
                if !self.hosts[node].exec(&mut self.sims[node], Ev::RecvGeneral(port, bytes.clone())) {
                    return false;
                }
            }
        }
        // 3. due announce-receipt and announce timers
        for i in 0..n {
            if self.silent.contains(&i) {
                continue;
            }
            for p in 0..self.sims[i].nports() {
                for k in [3usize, 0] {
                    if let Some(t) = self.hosts[i].timers[p][k] {
                        if t <= self.hosts[i].now {
                            let ev = if k == 3 { Ev::AnnounceReceiptTimer(p) } else { Ev::AnnounceTimer(p) };
                            if !self.hosts[i].exec(&mut self.sims[i], ev) {
                                return false;
                            }
                            let frames = self.sims[i].last_frames.clone();
                            for (fp, is_event, bytes) in frames {
                                if !is_event && bytes.len() >= 34 && bytes[0] & 0xf == 0xb {
                                    if let Some(seg) = self.segment_of(i, fp) {
                                        self.inflight.push((seg, (i, fp), bytes));
                                    }
                                }
                            }
                        }
                    }
                }
            }
        }
        // 4. BMCA everywhere
        for i in 0..n {
            if self.silent.contains(&i) {
                continue;
            }
            if !self.hosts[i].exec(&mut self.sims[i], Ev::Bmca) {
                return false;
            }
        }
        true
    }

    pub fn term(&self) -> String {
        format!(
            "(mkNet [{}] [{}] [{}] [{}])",
            self.segments
                .iter()
                .map(|s| format!(
                    "[{}]",
                    s.iter().map(|(a, b)| format!("({}%nat, {}%nat)", a, b)).collect::<Vec<_>>().join("; ")
                ))
                .collect::<Vec<_>>()
                .join("; "),
            self.sims.iter().map(|s| s.case_term()).collect::<Vec<_>>().join("; "),
            self.cut.iter().map(|(a, b)| format!("({}%nat, {}%nat)", a, b)).collect::<Vec<_>>().join("; "),
            self.silent.iter().map(|a| format!("{}%nat", a)).collect::<Vec<_>>().join("; ")
        )
    }
}

/// the named topology families: (number of ports per node, segments)
pub fn topology(which: u64) -> (Vec<usize>, Vec<Vec<(usize, usize)>>, &'static str) {
    match which {
        0 => (vec![1, 1], vec![vec![(0, 0), (1, 0)]], "pair"),
        1 => (vec![1, 2, 1], vec![vec![(0, 0), (1, 0)], vec![(1, 1), (2, 0)]], "line3"),
        2 => (
            vec![2, 2, 2],
            vec![vec![(0, 0), (1, 1)], vec![(1, 0), (2, 1)], vec![(2, 0), (0, 1)]],
            "ring3",
        ),
        3 => (vec![1, 1, 1], vec![vec![(0, 0), (1, 0), (2, 0)]], "shared3"),
        4 => (
            vec![3, 1, 1, 1],
            vec![vec![(0, 0), (1, 0)], vec![(0, 1), (2, 0)], vec![(0, 2), (3, 0)]],
            "star4",
        ),
        5 => (vec![2, 1], vec![vec![(0, 0), (0, 1), (1, 0)]], "double-attach"),
        6 => (
            vec![1, 2, 2, 1],
            vec![vec![(0, 0), (1, 0)], vec![(1, 1), (2, 0)], vec![(2, 1), (3, 0)]],
            "line4",
        ),
        _ => (
            vec![2, 2, 2, 2],
            vec![
                vec![(0, 0), (1, 1)],
                vec![(1, 0), (2, 1)],
                vec![(2, 0), (3, 1)],
                vec![(3, 0), (0, 1)],
            ],
            "ring4",
        ),
    }
}

pub fn gen_c01(r: &mut Rng) -> (String, String) {
    let (ports, segments, name) = topology(r.below(8));
    let n = ports.len();
    // a ranking: distinct priority1 / class / priority2 / identity patterns
    let mut order: Vec<usize> = (0..n).collect();
    for i in (1..n).rev() {
        let j = r.below(i as u64 + 1) as usize;
        order.swap(i, j);
    }
    let rank_by = r.below(4); // which attribute decides
    let low_class_node = if r.chance(1, 3) { Some(order[0]) } else { None }; // the best node may be class < 128
    let slave_only_node = if n >= 3 && r.chance(1, 3) { Some(order[n - 1]) } else { None };
    let nodes: Vec<NodeCfg> = (0..n)
        .map(|i| {
            let rank = order.iter().position(|x| *x == i).unwrap() as u8;
            NodeCfg {
                clock: 0x0100_0000_0000_0000 * (if rank_by == 3 { rank as u64 + 1 } else { (i as u64 * 7 + 3) % 11 + 1 }) + i as u64,
                prio1: if rank_by == 0 { 100 + rank } else { 128 },
                class: if Some(i) == low_class_node { 6 } else if rank_by == 1 { 200 + rank } else { 248 },
                prio2: if rank_by == 2 { 100 + rank } else { 128 },
                slave_only: Some(i) == slave_only_node,
                nports: ports[i],
            }
        })
        .collect();
    let mut net = Net::new(r, &nodes, segments);
    let settle = 14 + 6 * n as u64;
    let mut ok = true;
    for _ in 0..settle {
        ok = ok && net.round();
    }
    // single fault script applied to the converged network
    let fault = r.below(5);
    let mut fault_name = "none";
    match fault {
        1 => {
            let seg = r.below(net.segments.len() as u64) as usize;
            let ep = net.segments[seg][r.below(net.segments[seg].len() as u64) as usize];
            net.cut.push(ep);
            fault_name = "cut";
        }
        2 => {
            net.silent.push(r.below(n as u64) as usize);
            fault_name = "silence";
        }
        3 => {
            let i = r.below(n as u64) as usize;
            let q = (*r.pick(&[6u8, 100, 250]), 0xfe, 0xffff);
            ok = ok && net.hosts[i].exec(&mut net.sims[i], Ev::SetClockQuality(q));
            fault_name = "quality";
        }
        4 => {
            // cut and restore
            let seg = r.below(net.segments.len() as u64) as usize;
            let ep = net.segments[seg][0];
            net.cut.push(ep);
            for _ in 0..settle {
                ok = ok && net.round();
            }
            net.cut.clear();
            fault_name = "cut-restore";
        }
        _ => {}
    }
    if fault != 0 {
        for _ in 0..settle {
            ok = ok && net.round();
        }
    }
    let _ = ok;
    let states: Vec<String> = net
        .sims
        .iter()
        .map(|s| s.states.iter().map(|x| x.to_string()).collect::<Vec<_>>().join(""))
        .collect();
    let class = format!(
        "c01:{}:rank{}:{}{}:{}:{}",
        name,
        rank_by,
        if low_class_node.is_some() { "low" } else { "" },
        if slave_only_node.is_some() { "so" } else { "" },
        fault_name,
        states.join("-")
    );
    (class, net.term())
}
