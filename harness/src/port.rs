//! Port-level simulation harness: real `PtpInstance` / `Port`s behind a
//! recording clock, a recording filter, a scripted RNG and a logging
//! instance-state lock.  Everything observable is printed in the concrete
//! syntax of the Coq model (coq/Port/PortTypes.v).

use std::cell::{Cell, RefCell};
use std::collections::VecDeque;

use fixed::types::{I96F32, U96F32};
use rand::RngCore;
use statime::config::{
    ClockAccuracy, ClockIdentity, ClockQuality, DelayMechanism, InstanceConfig, LeapIndicator,
    PortConfig, PtpMinorVersion, SdoId, TimePropertiesDS, TimeSource,
};
use statime::filters::{Filter, FilterEstimate, FilterUpdate};
use statime::port::{
    ForwardedTLV, ForwardedTLVProvider, InBmca, Measurement, Port, PortAction, PortActionIterator,
    Running, TimestampContext,
};
use statime::time::{Duration, Interval, Time};
use statime::{Clock, PtpInstance, PtpInstanceState, PtpInstanceStateMutex};
use statime_linux::tlvforwarder::TlvForwarder;

use crate::{catch, coq_bool, n, nbytes, nlist, nu};

thread_local! {
    static LOG: RefCell<Vec<(i64, String)>> = RefCell::new(Vec::new());
    static LOCK_DEPTH: Cell<i64> = Cell::new(0);
    static LOG_LOCKS: Cell<bool> = Cell::new(false);
}

fn log(tag: i64, s: String) {
    LOG.with(|l| l.borrow_mut().push((tag, s)));
}
fn take_log() -> Vec<(i64, String)> {
    LOG.with(|l| std::mem::take(&mut *l.borrow_mut()))
}

// ---------------------------------------------------------------------------
// instance-state lock that records every acquisition and its nesting depth

pub struct LogMutex {
    inner: RefCell<PtpInstanceState>,
}

impl PtpInstanceStateMutex for LogMutex {
    fn new(state: PtpInstanceState) -> Self {
        LogMutex {
            inner: RefCell::new(state),
        }
    }
    fn with_ref<R, F: FnOnce(&PtpInstanceState) -> R>(&self, f: F) -> R {
        let d = LOCK_DEPTH.with(|c| c.get());
        if LOG_LOCKS.with(|c| c.get()) {
            log(-1, format!("OLock false {}", d));
        }
        LOCK_DEPTH.with(|c| c.set(d + 1));
        let g = self.inner.borrow();
        let r = f(&g);
        drop(g);
        LOCK_DEPTH.with(|c| c.set(d));
        r
    }
    fn with_mut<R, F: FnOnce(&mut PtpInstanceState) -> R>(&self, f: F) -> R {
        let d = LOCK_DEPTH.with(|c| c.get());
        if LOG_LOCKS.with(|c| c.get()) {
            log(-1, format!("OLock true {}", d));
        }
        LOCK_DEPTH.with(|c| c.set(d + 1));
        let mut g = self.inner.borrow_mut();
        let r = f(&mut g);
        drop(g);
        LOCK_DEPTH.with(|c| c.set(d));
        r
    }
}

// ---------------------------------------------------------------------------
// recording clock / filter, scripted rng

pub struct RecClock {
    pub idx: i64,
}

impl Clock for RecClock {
    type Error = ();
    fn now(&self) -> Time {
        Time::from_secs(0)
    }
    fn step_clock(&mut self, _offset: Duration) -> Result<Time, ()> {
        log(self.idx, "OClockOther".into());
        Ok(Time::from_secs(0))
    }
    fn set_frequency(&mut self, _ppm: f64) -> Result<Time, ()> {
        log(self.idx, "OClockOther".into());
        Ok(Time::from_secs(0))
    }
    fn set_properties(&mut self, tp: &TimePropertiesDS) -> Result<(), ()> {
        log(self.idx, format!("OClockSetProps {}", tp_coq(tp)));
        Ok(())
    }
}

pub struct RecFilter {
    idx: i64,
}

fn od(d: Option<Duration>) -> String {
    match d {
        Some(d) => format!("(sz {})", n(d.nanos().to_bits())),
        None => "None".into(),
    }
}

impl Filter for RecFilter {
    type Config = i64;
    fn new(config: i64) -> Self {
        RecFilter { idx: config }
    }
    fn measurement<C: Clock>(&mut self, m: Measurement, _clock: &mut C) -> FilterUpdate {
        log(
            self.idx,
            format!(
                "OFilterMeas (mkMeas {} {} {} {} {} {})",
                nu(m.event_time.nanos().to_bits()),
                od(m.offset),
                od(m.delay),
                od(m.peer_delay),
                od(m.raw_sync_offset),
                od(m.raw_delay_offset)
            ),
        );
        FilterUpdate {
            next_update: None,
            mean_delay: m.delay.or(m.peer_delay),
        }
    }
    fn update<C: Clock>(&mut self, _clock: &mut C) -> FilterUpdate {
        log(self.idx, "OFilterUpdate".into());
        FilterUpdate::default()
    }
    fn demobilize<C: Clock>(self, _clock: &mut C) {
        log(self.idx, "OFilterDemobilize".into());
    }
    fn current_estimates(&self) -> FilterEstimate {
        FilterEstimate {
            offset_from_master: Duration::ZERO,
            mean_delay: Duration::ZERO,
        }
    }
}

/// Scripted `RngCore`: the n-th u64 is `draws[n] << 12`, so that
/// `Open01` yields (2k+1)/2^53 for the 52-bit integer k = draws[n].
pub struct ScriptRng {
    draws: Vec<u64>,
    pos: usize,
}

impl RngCore for ScriptRng {
    fn next_u32(&mut self) -> u32 {
        (self.next_u64() >> 32) as u32
    }
    fn next_u64(&mut self) -> u64 {
        let k = self.draws.get(self.pos).copied().unwrap_or(0);
        self.pos += 1;
        k << 12
    }
    fn fill_bytes(&mut self, dest: &mut [u8]) {
        for b in dest.iter_mut() {
            *b = self.next_u64() as u8;
        }
    }
    fn try_fill_bytes(&mut self, dest: &mut [u8]) -> Result<(), rand::Error> {
        self.fill_bytes(dest);
        Ok(())
    }
}

// ---------------------------------------------------------------------------
// configuration mirrors

#[derive(Clone, Debug)]
pub struct PortCfg {
    pub acceptable: Option<Vec<u64>>,
    pub p2p: bool,
    pub log_delay: i8,
    pub log_announce: i8,
    pub receipt_timeout: u8,
    pub log_sync: i8,
    pub master_only: bool,
    pub asymmetry: i128,
    pub minor: u8,
    pub rng: Vec<u64>,
}

#[derive(Clone, Debug)]
pub struct Tp {
    pub utc: Option<i16>,
    pub leap: u8,
    pub time_traceable: bool,
    pub freq_traceable: bool,
    pub ptp_timescale: bool,
    pub time_source: u8,
}

#[derive(Clone, Debug)]
pub struct InstCfg {
    pub clock_identity: u64,
    pub prio1: u8,
    pub prio2: u8,
    pub domain: u8,
    pub sdo_id: u16,
    pub slave_only: bool,
    pub path_trace: bool,
    pub quality: (u8, u8, u16),
    pub tp: Tp,
}

pub fn accuracy_from_byte(b: u8) -> ClockAccuracy {
    use ClockAccuracy::*;
    const T: [ClockAccuracy; 27] = [
        PS1, PS2_5, PS10, PS25, PS100, PS250, NS1, NS2_5, NS10, NS25, NS100, NS250, US1, US2_5,
        US10, US25, US100, US250, MS1, MS2_5, MS10, MS25, MS100, MS250, S1, S10, SGT10,
    ];
    match b {
        0x17..=0x31 => T[(b - 0x17) as usize],
        0x80..=0xfd => ProfileSpecific(b - 0x80),
        0xfe => Unknown,
        _ => Reserved,
    }
}

pub fn time_source_from_byte(b: u8) -> TimeSource {
    match b {
        0x10 => TimeSource::AtomicClock,
        0x20 => TimeSource::Gnss,
        0x30 => TimeSource::TerrestrialRadio,
        0x39 => TimeSource::SerialTimeCode,
        0x40 => TimeSource::Ptp,
        0x50 => TimeSource::Ntp,
        0x60 => TimeSource::HandSet,
        0x90 => TimeSource::Other,
        0xa0 => TimeSource::InternalOscillator,
        0xf0..=0xfe => TimeSource::ProfileSpecific(b - 0xf0),
        0xff => TimeSource::Reserved,
        v => TimeSource::Unknown(v),
    }
}

pub fn quality(q: (u8, u8, u16)) -> ClockQuality {
    ClockQuality {
        clock_class: q.0,
        clock_accuracy: accuracy_from_byte(q.1),
        offset_scaled_log_variance: q.2,
    }
}

pub fn cid(v: u64) -> ClockIdentity {
    ClockIdentity(v.to_be_bytes())
}
fn cid_z(c: &ClockIdentity) -> String {
    nu(u64::from_be_bytes(c.0) as u128)
}
fn pi_coq(p: &statime::config::ClockIdentity, port: u16) -> String {
    format!("(mkPI {} {})", cid_z(p), port)
}

fn cq_coq(q: &ClockQuality) -> String {
    format!(
        "(mkCQ {} {} {})",
        q.clock_class,
        q.clock_accuracy.to_primitive(),
        q.offset_scaled_log_variance
    )
}

fn tp_coq(tp: &TimePropertiesDS) -> String {
    format!(
        "(mkTP {} {} {} {} {} {})",
        match tp.current_utc_offset {
            Some(v) => format!("(sz {})", n(v)),
            None => "None".into(),
        },
        match tp.leap_indicator {
            LeapIndicator::NoLeap => 0,
            LeapIndicator::Leap61 => 1,
            LeapIndicator::Leap59 => 2,
        },
        coq_bool(tp.time_traceable),
        coq_bool(tp.frequency_traceable),
        coq_bool(tp.ptp_timescale),
        tp.time_source.to_primitive()
    )
}

impl Tp {
    pub fn to_ds(&self) -> TimePropertiesDS {
        TimePropertiesDS {
            current_utc_offset: self.utc,
            leap_indicator: match self.leap {
                1 => LeapIndicator::Leap61,
                2 => LeapIndicator::Leap59,
                _ => LeapIndicator::NoLeap,
            },
            time_traceable: self.time_traceable,
            frequency_traceable: self.freq_traceable,
            ptp_timescale: self.ptp_timescale,
            time_source: time_source_from_byte(self.time_source),
        }
    }
}

impl PortCfg {
    pub fn coq(&self) -> String {
        format!(
            "(mkPC {} ({} {}) {} {} {} {} {} {}, {})",
            match &self.acceptable {
                None => "None".to_string(),
                Some(l) => format!(
                    "(Some {})",
                    nlist(&l.iter().map(|x| *x as u128).collect::<Vec<_>>())
                ),
            },
            if self.p2p { "P2P" } else { "E2E" },
            n(self.log_delay),
            n(self.log_announce),
            self.receipt_timeout,
            n(self.log_sync),
            coq_bool(self.master_only),
            n(self.asymmetry),
            self.minor,
            nlist(&self.rng.iter().map(|x| *x as u128).collect::<Vec<_>>())
        )
    }
}

impl InstCfg {
    pub fn coq_setup(&self, ports: &[PortCfg]) -> String {
        format!(
            "(mkSetup (mkIC {} {} {} {} {} {} {} (mkCQ {} {} {})) {} [{}])",
            nu(self.clock_identity as u128),
            self.prio1,
            self.prio2,
            self.domain,
            self.sdo_id,
            coq_bool(self.slave_only),
            coq_bool(self.path_trace),
            self.quality.0,
            accuracy_from_byte(self.quality.1).to_primitive(),
            self.quality.2,
            tp_coq(&self.tp.to_ds()),
            ports.iter().map(|p| p.coq()).collect::<Vec<_>>().join("; ")
        )
    }
}

// ---------------------------------------------------------------------------
// the simulation

type Acc = Option<Vec<ClockIdentity>>;
type P<L> = Port<'static, L, Acc, ScriptRng, RecClock, RecFilter, LogMutex>;

enum Slot {
    Running(P<Running>),
    Empty,
}

pub struct Pending {
    pub ctx: TimestampContext,
    pub coq: String,
    pub frame: Vec<u8>,
}

pub struct Fwd {
    pub tlv: ForwardedTLV<'static>,
    pub coq: String,
}

pub struct Sim {
    instance: &'static PtpInstance<RecFilter, LogMutex>,
    ports: Vec<Slot>,
    pub cfgs: Vec<PortCfg>,
    pub icfg: InstCfg,
    /// timestamp contexts handed out and not yet returned, per port
    pub pending: Vec<Vec<Pending>>,
    /// forwarded TLVs waiting per port: specification of the daemon's per-port
    /// `TlvForwarder` (tokio broadcast receiver of capacity 128 + one peeked
    /// element), kept in step with the real forwarders below.  The queue shown to
    /// the model is `peeks[p]` followed by `queues[p]`.
    pub queues: Vec<VecDeque<Fwd>>,
    pub peeks: Vec<Option<Fwd>>,
    /// the real forwarders (statime-linux), one duplicate per port as in main.rs
    fwd: Vec<TlvForwarder>,
    /// frames emitted by the last call: (port, is_event, bytes)
    pub last_frames: Vec<(usize, bool, Vec<u8>)>,
    /// timer resets requested by the last call: (port, kind 0=announce 1=sync 2=delay-request 3=announce-receipt 4=filter-update, ns)
    pub last_resets: Vec<(usize, u8, u128)>,
    /// timer resets requested when the ports were created
    pub init_resets: Vec<(usize, u8, u128)>,
    /// printable events executed so far and their results
    pub events: Vec<String>,
    pub results: Vec<String>,
    pub init: Option<String>,
    pub panicked: bool,
    pub states: Vec<u8>,
    pub auto_forward: bool,
    /// every host call made so far (for replays with insertions)
    pub evlog: Vec<Ev>,
    /// when set, received frames and timestamps are mutated towards extreme values (C03)
    pub mutator: Option<crate::Rng>,
    /// parent port identity (clock, port) after the last call
    pub parent: (u64, u16),
}

/// The provider handed to `handle_announce_timer`: the daemon's real
/// `TlvForwarder`.  Beside it the specification queue is advanced (FIFO; the head
/// is kept while it does not fit), so that the queue printed for the model in the
/// next announce event is what a faithful forwarder would still hold.
struct FwdProvider<'a> {
    real: &'a mut TlvForwarder,
    peek: &'a mut Option<Fwd>,
    ring: &'a mut VecDeque<Fwd>,
}

impl ForwardedTLVProvider for FwdProvider<'_> {
    fn next_if_smaller(&mut self, max_size: usize) -> Option<ForwardedTLV<'_>> {
        if self.peek.is_none() {
            *self.peek = self.ring.pop_front();
        }
        match self.peek.take() {
            Some(f) if f.tlv.size() <= max_size => {}
            Some(f) => *self.peek = Some(f),
            None => {}
        }
        self.real.next_if_smaller(max_size)
    }
}

fn tlv_type_code(name: &str) -> u16 {
    let (base, arg) = match name.find('(') {
        Some(i) => (&name[..i], name[i + 1..name.len() - 1].trim().parse::<u16>().ok()),
        None => (name, None),
    };
    match base {
        "Reserved" | "Legacy" | "Experimental" => arg.unwrap(),
        "Management" => 1,
        "ManagementErrorStatus" => 2,
        "OrganizationExtension" => 3,
        "RequestUnicastTransmission" => 4,
        "GrantUnicastTransmission" => 5,
        "CancelUnicastTransmission" => 6,
        "AcknowledgeCancelUnicastTransmission" => 7,
        "PathTrace" => 8,
        "AlternateTimeOffsetIndicator" => 9,
        "OrganizationExtensionPropagate" => 0x4000,
        "EnhancedAccuracyMetrics" => 0x4001,
        "OrganizationExtensionDoNotPropagate" => 0x8000,
        "L1Sync" => 0x8001,
        "PortCommunicationAvailability" => 0x8002,
        "ProtocolAddress" => 0x8003,
        "SlaveRxSyncTimingData" => 0x8004,
        "SlaveRxSyncComputedData" => 0x8005,
        "SlaveTxEventTimestamps" => 0x8006,
        "CumulativeRateRatio" => 0x8007,
        "Pad" => 0x8008,
        "Authentication" => 0x8009,
        other => panic!("unknown tlv type name {other}"),
    }
}

fn between<'a>(s: &'a str, a: &str, b: &str) -> &'a str {
    let i = s.find(a).expect("marker") + a.len();
    let j = s[i..].find(b).expect("marker2") + i;
    &s[i..j]
}

/// Coq term of a forwarded TLV, read off its `Debug` rendering (the fields
/// are crate-private).
fn fwd_coq(t: &ForwardedTLV<'_>) -> String {
    let d = format!("{:?}", t);
    let ty = between(&d, "tlv_type: ", ", value: ");
    let val = between(&d, ", value: [", "] }, sender_identity");
    let cidb = between(&d, "ClockIdentity([", "])");
    let port = between(&d, "port_number: ", " }");
    let cid_bytes: Vec<u8> = cidb.split(',').map(|x| x.trim().parse().unwrap()).collect();
    let mut c = [0u8; 8];
    c.copy_from_slice(&cid_bytes);
    let vals: Vec<u8> = if val.trim().is_empty() {
        vec![]
    } else {
        val.split(',').map(|x| x.trim().parse().unwrap()).collect()
    };
    format!(
        "(mkTlv {} {}) (mkPI {} {})",
        tlv_type_code(ty.trim()),
        nbytes(&vals),
        nu(u64::from_be_bytes(c) as u128),
        port.trim()
    )
}

fn ctx_coq(c: &TimestampContext) -> String {
    let d = format!("{:?}", c);
    // TimestampContext { inner: Sync { id: 5 } }
    let id = between(&d, "id: ", if d.contains("requestor_identity") { "," } else { " }" });
    if d.contains("PDelayResp") {
        let cidb = between(&d, "ClockIdentity([", "])");
        let port = between(&d, "port_number: ", " }");
        let cid_bytes: Vec<u8> = cidb.split(',').map(|x| x.trim().parse().unwrap()).collect();
        let mut cc = [0u8; 8];
        cc.copy_from_slice(&cid_bytes);
        format!(
            "(CtxPDelayResp {} (mkPI {} {}))",
            id.trim(),
            nu(u64::from_be_bytes(cc) as u128),
            port.trim()
        )
    } else if d.contains("PDelayReq") {
        format!("(CtxPDelayReq {})", id.trim())
    } else if d.contains("DelayReq") {
        format!("(CtxDelayReq {})", id.trim())
    } else {
        format!("(CtxSync {})", id.trim())
    }
}

pub fn time_bits(bits: u128) -> Time {
    Time::from_fixed_nanos(U96F32::from_bits(bits))
}
pub fn dur_bits(bits: i128) -> Duration {
    Duration::from_fixed_nanos(I96F32::from_bits(bits))
}

pub fn bytes_list(b: &[u8]) -> String {
    nbytes(b)
}

/// What the generator wants the host to do next.
#[derive(Clone, Debug)]
pub enum Ev {
    RecvEvent(usize, Vec<u8>, u128),
    RecvGeneral(usize, Vec<u8>),
    /// return the pending context number `k` of port `p` with this timestamp
    SendTimestamp(usize, usize, u128),
    AnnounceTimer(usize),
    SyncTimer(usize),
    DelayReqTimer(usize),
    AnnounceReceiptTimer(usize),
    FilterUpdateTimer(usize),
    Bmca,
    SetClockQuality((u8, u8, u16)),
    SetSlaveOnly(bool),
    /// host-side passage of time (no call into the library)
    Tick(u64),
}

impl Sim {
    pub fn new(icfg: InstCfg, cfgs: Vec<PortCfg>) -> Sim {
        take_log();
        LOCK_DEPTH.with(|c| c.set(0));
        LOG_LOCKS.with(|c| c.set(false));
        let n = cfgs.len();
        let mut sim = Sim {
            instance: Box::leak(Box::new(PtpInstance::new(
                InstanceConfig {
                    clock_identity: cid(icfg.clock_identity),
                    priority_1: icfg.prio1,
                    priority_2: icfg.prio2,
                    domain_number: icfg.domain,
                    sdo_id: SdoId::try_from(icfg.sdo_id).unwrap(),
                    slave_only: icfg.slave_only,
                    path_trace: icfg.path_trace,
                    clock_quality: quality(icfg.quality),
                },
                icfg.tp.to_ds(),
            ))),
            ports: Vec::new(),
            cfgs: cfgs.clone(),
            icfg,
            pending: (0..n).map(|_| Vec::new()).collect(),
            queues: (0..n).map(|_| VecDeque::new()).collect(),
            peeks: (0..n).map(|_| None).collect(),
            fwd: {
                let root = TlvForwarder::new();
                (0..n).map(|_| root.duplicate()).collect()
            },
            last_frames: Vec::new(),
            last_resets: Vec::new(),
            init_resets: Vec::new(),
            events: Vec::new(),
            results: Vec::new(),
            init: None,
            panicked: false,
            states: vec![4; n],
            auto_forward: true,
            evlog: Vec::new(),
            mutator: crate::gens::take_mutator(),
            parent: (0, 0),
        };
        let instance = sim.instance;
        let res = catch(|| {
            let mut ports = Vec::new();
            let mut out: Vec<(i64, String)> = Vec::new();
            for (i, c) in cfgs.iter().enumerate() {
                let pc = PortConfig {
                    acceptable_master_list: c.acceptable.as_ref().map(|l| l.iter().map(|x| cid(*x)).collect::<Vec<_>>()),
                    delay_mechanism: if c.p2p {
                        DelayMechanism::P2P {
                            interval: Interval::from_log_2(c.log_delay),
                        }
                    } else {
                        DelayMechanism::E2E {
                            interval: Interval::from_log_2(c.log_delay),
                        }
                    },
                    announce_interval: Interval::from_log_2(c.log_announce),
                    announce_receipt_timeout: c.receipt_timeout,
                    sync_interval: Interval::from_log_2(c.log_sync),
                    master_only: c.master_only,
                    delay_asymmetry: dur_bits(c.asymmetry),
                    minor_ptp_version: if c.minor == 0 {
                        PtpMinorVersion::Zero
                    } else {
                        PtpMinorVersion::One
                    },
                };
                let port: P<InBmca> = instance.add_port(
                    pc,
                    i as i64,
                    RecClock { idx: i as i64 },
                    ScriptRng {
                        draws: c.rng.clone(),
                        pos: 0,
                    },
                );
                let (port, actions) = port.end_bmca();
                let mut dummy_p = Vec::new();
                let mut dummy_f = Vec::new();
                let mut dummy_q = Vec::new();
                print_actions(i, actions, &mut out, &mut dummy_p, &mut dummy_f, &mut dummy_q);
                ports.push(Slot::Running(port));
            }
            (ports, out)
        });
        take_log();
        match res {
            Some((ports, out)) => {
                for (tag, text) in &out {
                    if let Some(rest) = text.strip_prefix("AResetAnnounceReceiptTimer ") {
                        sim.init_resets.push((*tag as usize, 3, rest.trim().parse::<u128>().unwrap()));
                    }
                }
                sim.ports = ports;
                sim.init = Some(format!("(Some {})", tobs_list(&out)));
            }
            None => {
                sim.init = Some("None".into());
                sim.panicked = true;
            }
        }
        sim
    }

    pub fn nports(&self) -> usize {
        self.cfgs.len()
    }

    fn snapshot(&mut self) -> String {
        LOG_LOCKS.with(|c| c.set(false));
        let mut states = Vec::new();
        let mut mds = Vec::new();
        let mut roles: Vec<String> = Vec::new();
        for s in &self.ports {
            if let Slot::Running(p) = s {
                let ds = p.port_ds();
                states.push(ds.port_state as u8);
                roles.push(format!("({}, {})", coq_bool(p.is_steering()), coq_bool(p.is_master())));
                mds.push(match ds.delay_mechanism {
                    statime::observability::port::DelayMechanism::P2P { mean_link_delay, .. } => {
                        format!("(sz {})", n(mean_link_delay.0.to_bits()))
                    }
                    _ => "None".to_string(),
                });
            }
        }
        self.states = states.clone();
        let d = self.instance.default_ds();
        let c = self.instance.current_ds(None);
        let p = self.instance.parent_ds();
        self.parent = (
            u64::from_be_bytes(p.parent_port_identity.clock_identity.0),
            p.parent_port_identity.port_number,
        );
        let t = self.instance.time_properties_ds();
        let pt = self.instance.path_trace_ds();
        format!(
            "(mkSnap (zl [{}]) (mkDS (mkDD {} {} {} {} {} {} {} {}) {} (mkPD {} {} {} {} {}) {} {} {}) [{}] [{}])",
            states.iter().map(|x| x.to_string()).collect::<Vec<_>>().join("; "),
            cid_z(&d.clock_identity),
            d.number_ports,
            cq_coq(&d.clock_quality),
            d.priority_1,
            d.priority_2,
            d.domain_number,
            coq_bool(d.slave_only),
            u16::from(d.sdo_id),
            c.steps_removed,
            pi_coq(&p.parent_port_identity.clock_identity, p.parent_port_identity.port_number),
            cid_z(&p.grandmaster_identity),
            cq_coq(&p.grandmaster_clock_quality),
            p.grandmaster_priority_1,
            p.grandmaster_priority_2,
            nlist(&pt.list.iter().map(|c| u64::from_be_bytes(c.0) as u128).collect::<Vec<_>>()),
            coq_bool(pt.enable),
            tp_coq(&t),
            mds.join("; "),
            roles.join("; ")
        )
    }

    /// Execute one host call; returns false when the implementation panicked.
    pub fn step(&mut self, ev: Ev) -> bool {
        if self.panicked {
            return false;
        }
        let ev = match self.mutator.as_mut() {
            Some(r) => mutate_event(r, ev),
            None => ev,
        };
        self.last_frames.clear();
        take_log();
        LOCK_DEPTH.with(|c| c.set(0));
        let mut out: Vec<(i64, String)> = Vec::new();
        let mut new_pending: Vec<(usize, Pending)> = Vec::new();
        let mut new_fwd: Vec<(usize, Fwd)> = Vec::new();
        let mut frames: Vec<(usize, bool, Vec<u8>)> = Vec::new();
        let mut resets: Vec<(usize, u8, u128)> = Vec::new();

        // printable form of the event (needs sim state for contexts and queues)
        let ev_coq = match &ev {
            Ev::RecvEvent(p, f, t) => format!("EvRecvEvent {}%nat {} {}", p, bytes_list(f), nu(*t)),
            Ev::RecvGeneral(p, f) => format!("EvRecvGeneral {}%nat {}", p, bytes_list(f)),
            Ev::SendTimestamp(p, k, t) => {
                if *p >= self.pending.len() || *k >= self.pending[*p].len() {
                    return true; // nothing to return: not an event
                }
                format!("EvSendTimestamp {}%nat {} {}", p, self.pending[*p][*k].coq, nu(*t))
            }
            Ev::AnnounceTimer(p) => format!(
                "EvAnnounceTimer {}%nat [{}]",
                p,
                self.queues
                    .get(*p)
                    .map(|q| self.peeks[*p]
                        .iter()
                        .chain(q.iter())
                        .map(|f| format!("mkFwd {}", f.coq))
                        .collect::<Vec<_>>()
                        .join("; "))
                    .unwrap_or_default()
            ),
            Ev::SyncTimer(p) => format!("EvSyncTimer {}%nat", p),
            Ev::DelayReqTimer(p) => format!("EvDelayReqTimer {}%nat", p),
            Ev::AnnounceReceiptTimer(p) => format!("EvAnnounceReceiptTimer {}%nat", p),
            Ev::FilterUpdateTimer(p) => format!("EvFilterUpdateTimer {}%nat", p),
            Ev::Bmca => "EvBmca".to_string(),
            Ev::SetClockQuality(q) => format!(
                "EvSetClockQuality (mkCQ {} {} {})",
                q.0,
                accuracy_from_byte(q.1).to_primitive(),
                q.2
            ),
            Ev::SetSlaveOnly(b) => format!("EvSetSlaveOnly {}", coq_bool(*b)),
            Ev::Tick(ns) => format!("EvTick {}", ns),
        };
        self.events.push(ev_coq);
        self.evlog.push(ev.clone());

        LOG_LOCKS.with(|c| c.set(true));
        let instance = self.instance;
        let ok = {
            let ports = &mut self.ports;
            let pending = &mut self.pending;
            let queues = &mut self.queues;
            let peeks = &mut self.peeks;
            let fwds = &mut self.fwd;
            let out_ref = &mut out;
            let np = &mut new_pending;
            let nf = &mut new_fwd;
            let fr = &mut frames;
            catch(move || {
                macro_rules! on {
                    ($i:expr, |$p:ident| $call:expr) => {{
                        let idx: usize = $i;
                        if let Some(Slot::Running($p)) = ports.get_mut(idx) {
                            let a = $call;
                            flush_side(out_ref);
                            print_actions(idx, a, out_ref, np, nf, fr);
                        }
                    }};
                }
                match ev {
                    Ev::RecvEvent(i, frame, t) => on!(i, |p| p.handle_event_receive(&frame, time_bits(t))),
                    Ev::RecvGeneral(i, frame) => on!(i, |p| p.handle_general_receive(&frame)),
                    Ev::SendTimestamp(i, k, t) => {
                        let pend = pending[i].remove(k);
                        on!(i, |p| p.handle_send_timestamp(pend.ctx, time_bits(t)))
                    }
                    Ev::AnnounceTimer(i) => {
                        if i < queues.len() {
                            let mut prov = FwdProvider {
                                real: &mut fwds[i],
                                peek: &mut peeks[i],
                                ring: &mut queues[i],
                            };
                            on!(i, |p| p.handle_announce_timer(&mut prov))
                        }
                    }
                    Ev::SyncTimer(i) => on!(i, |p| p.handle_sync_timer()),
                    Ev::DelayReqTimer(i) => on!(i, |p| p.handle_delay_request_timer()),
                    Ev::AnnounceReceiptTimer(i) => on!(i, |p| p.handle_announce_receipt_timer()),
                    Ev::FilterUpdateTimer(i) => on!(i, |p| p.handle_filter_update_timer()),
                    Ev::Bmca => {
                        let taken: Vec<Slot> = ports.drain(..).collect();
                        let mut inb: Vec<P<InBmca>> = taken
                            .into_iter()
                            .map(|s| match s {
                                Slot::Running(p) => p.start_bmca(),
                                Slot::Empty => unreachable!(),
                            })
                            .collect();
                        {
                            let mut refs: Vec<&mut P<InBmca>> = inb.iter_mut().collect();
                            instance.bmca(&mut refs);
                        }
                        flush_side(out_ref);
                        for (i, p) in inb.into_iter().enumerate() {
                            let (p, a) = p.end_bmca();
                            print_actions(i, a, out_ref, np, nf, fr);
                            ports.push(Slot::Running(p));
                        }
                    }
                    Ev::SetClockQuality(q) => {
                        instance.set_clock_quality(quality(q));
                        flush_side(out_ref);
                    }
                    Ev::SetSlaveOnly(b) => {
                        instance.set_slave_only(b);
                        flush_side(out_ref);
                    }
                    Ev::Tick(_) => {}
                }
            })
            .is_some()
        };
        LOG_LOCKS.with(|c| c.set(false));
        if !ok || self.ports.len() != self.cfgs.len() {
            self.panicked = true;
            self.results.push("SRPanic".into());
            return false;
        }
        for (i, p) in new_pending {
            self.pending[i].push(p);
        }
        for (i, f) in new_fwd {
            if self.auto_forward {
                // main.rs: every ForwardTLV action goes to the shared broadcast channel,
                // i.e. to the receiver of every port (the forwarding port included)
                self.fwd[i].forward(f.tlv.clone());
                for j in 0..self.queues.len() {
                    self.queues[j].push_back(Fwd {
                        tlv: f.tlv.clone(),
                        coq: f.coq.clone(),
                    });
                    // a receiver that lags more than the channel capacity loses the oldest
                    if self.queues[j].len() > 128 {
                        self.queues[j].pop_front();
                    }
                }
            }
        }
        for (tag, text) in &out {
            let kinds = [
                ("AResetAnnounceTimer ", 0u8),
                ("AResetSyncTimer ", 1),
                ("AResetDelayRequestTimer ", 2),
                ("AResetAnnounceReceiptTimer ", 3),
                ("AResetFilterUpdateTimer ", 4),
            ];
            for (prefix, k) in kinds {
                if let Some(rest) = text.strip_prefix(prefix) {
                    resets.push((*tag as usize, k, rest.trim().parse::<u128>().unwrap()));
                }
            }
        }
        self.last_frames = frames;
        self.last_resets = resets;
        let snap = self.snapshot();
        self.results.push(format!("SROk {} {}", tobs_list(&out), snap));
        true
    }

    pub fn is_state(&self, p: usize, code: u8) -> bool {
        self.states.get(p).copied() == Some(code)
    }

    /// The case as a Coq term of type `pcase`.
    pub fn case_term(&self) -> String {
        format!(
            "(mkCase {} [{}] {} {} [{}])",
            self.icfg.coq_setup(&self.cfgs),
            self.events.join("; "),
            coq_bool(!cfg!(debug_assertions)),
            self.init.clone().unwrap_or("None".into()),
            self.results.join("; ")
        )
    }
}

fn tobs_list(o: &[(i64, String)]) -> String {
    format!(
        "[{}]",
        o.iter()
            .map(|(t, s)| format!("(tg {} ({}))", n(*t), s))
            .collect::<Vec<_>>()
            .join("; ")
    )
}

fn flush_side(out: &mut Vec<(i64, String)>) {
    out.extend(take_log());
}

fn print_actions(
    i: usize,
    actions: PortActionIterator<'_>,
    out: &mut Vec<(i64, String)>,
    np: &mut Vec<(usize, Pending)>,
    nf: &mut Vec<(usize, Fwd)>,
    fr: &mut Vec<(usize, bool, Vec<u8>)>,
) {
    for a in actions {
        let s = match a {
            PortAction::SendEvent {
                context,
                data,
                link_local,
            } => {
                let c = ctx_coq(&context);
                let s = format!("ASendEvent {} {} {}", c, bytes_list(data), coq_bool(link_local));
                fr.push((i, true, data.to_vec()));
                np.push((
                    i,
                    Pending {
                        ctx: context,
                        coq: c,
                        frame: data.to_vec(),
                    },
                ));
                s
            }
            PortAction::SendGeneral { data, link_local } => {
                fr.push((i, false, data.to_vec()));
                format!("ASendGeneral {} {}", bytes_list(data), coq_bool(link_local))
            }
            PortAction::ResetAnnounceTimer { duration } => {
                format!("AResetAnnounceTimer {}", duration.as_nanos())
            }
            PortAction::ResetSyncTimer { duration } => format!("AResetSyncTimer {}", duration.as_nanos()),
            PortAction::ResetDelayRequestTimer { duration } => {
                format!("AResetDelayRequestTimer {}", duration.as_nanos())
            }
            PortAction::ResetAnnounceReceiptTimer { duration } => {
                format!("AResetAnnounceReceiptTimer {}", duration.as_nanos())
            }
            PortAction::ResetFilterUpdateTimer { duration } => {
                format!("AResetFilterUpdateTimer {}", duration.as_nanos())
            }
            PortAction::ForwardTLV { tlv } => {
                let c = fwd_coq(&tlv);
                let s = format!("AForwardTLV {}", c);
                nf.push((
                    i,
                    Fwd {
                        tlv: tlv.into_owned(),
                        coq: c,
                    },
                ));
                s
            }
        };
        out.push((i as i64, s));
    }
}



const TS_EXTREMES: [u128; 6] = [
    0,
    1,
    ((1u128 << 63) << 32) - 1,
    ((1u128 << 63) - 1) << 32,
    (999_999_999u128 << 32) | 0xffff_ffff,
    ((1u128 << 48) * 1_000_000_000u128) << 32,
];

pub fn mutate_frame(r: &mut crate::Rng, f: &mut Vec<u8>) {
    match r.below(10) {
        0 => {
            if f.len() >= 16 {
                let c: i64 = *r.pick(&[i64::MAX, i64::MIN, -1, i64::MAX - 65535, (1i64 << 62), -(1i64 << 62), 1 << 63 - 1]);
                f[8..16].copy_from_slice(&c.to_be_bytes());
            }
        }
        1 => {
            if f.len() >= 4 {
                let l = f.len() as i64;
                let v = *r.pick(&[33i64, 34, l - 1, l, l + 1, 2048, 65535, 0]);
                f[2..4].copy_from_slice(&(v as u16).to_be_bytes());
            }
        }
        2 => {
            let n = *r.pick(&[0usize, 1, 2, 33, 34, 43, 44, 53, 54, 63, 64]);
            f.truncate(n.min(f.len()));
        }
        3 => {
            // pad with a well-formed TLV up to a boundary length
            let target = *r.pick(&[1022usize, 1024, 1026, 2046, 2048]);
            if f.len() + 4 <= target && f.len() >= 34 {
                let vlen = target - f.len() - 4;
                let ty: u16 = *r.pick(&[0x4000u16, 8, 3, 0x7f00]);
                f.extend_from_slice(&ty.to_be_bytes());
                f.extend_from_slice(&(vlen as u16).to_be_bytes());
                f.extend(r.bytes(vlen));
                let l = f.len() as u16;
                f[2..4].copy_from_slice(&l.to_be_bytes());
            }
        }
        4 => {
            // random garbage up to the largest buffer
            let target = *r.pick(&[100usize, 1024, 2048]);
            while f.len() < target {
                f.push(r.next() as u8);
            }
        }
        5 => {
            if f.len() >= 64 && f[0] & 0xf == 0xb {
                let v: u16 = *r.pick(&[254u16, 255, 256, 65535]);
                f[61..63].copy_from_slice(&v.to_be_bytes());
            }
        }
        6 => {
            if f.len() >= 44 {
                let s: u64 = *r.pick(&[0u64, (1 << 48) - 1, 1 << 47]);
                f[34..40].copy_from_slice(&s.to_be_bytes()[2..8]);
                let n: u32 = *r.pick(&[0u32, 999_999_999, 0xffff_ffff]);
                f[40..44].copy_from_slice(&n.to_be_bytes());
            }
        }
        7 => {
            if f.len() > 34 {
                let i = 34 + r.below((f.len() - 34) as u64) as usize;
                f[i] = r.next() as u8;
            }
        }
        _ => {}
    }
}

pub fn mutate_event(r: &mut crate::Rng, ev: Ev) -> Ev {
    match ev {
        Ev::RecvEvent(p, mut f, t) => {
            if r.chance(1, 3) {
                mutate_frame(r, &mut f);
            }
            let t = if r.chance(1, 6) { *r.pick(&TS_EXTREMES) } else { t };
            Ev::RecvEvent(p, f, t)
        }
        Ev::RecvGeneral(p, mut f) => {
            if r.chance(1, 3) {
                mutate_frame(r, &mut f);
            }
            Ev::RecvGeneral(p, f)
        }
        Ev::SendTimestamp(p, k, t) => {
            let t = if r.chance(1, 5) { *r.pick(&TS_EXTREMES) } else { t };
            Ev::SendTimestamp(p, k, t)
        }
        e => e,
    }
}
