#!/usr/bin/env python3
"""Runs every port-level oracle on every generator (false-alarm hunt)."""
import sys, os
sys.path.insert(0, os.path.join(os.path.dirname(os.path.dirname(os.path.abspath(__file__))), "lib"))
import vlib
seed = int(sys.argv[1]) if len(sys.argv) > 1 else 11
count = int(sys.argv[2]) if len(sys.argv) > 2 else 150
gens = sys.argv[3].split(",") if len(sys.argv) > 3 else ["mix", "c05", "c06", "c09", "c10", "c11", "c14"]
mods = sys.argv[4].split(",") if len(sys.argv) > 4 else ["C05", "C06", "C09", "C10", "C11", "C14"]
vlib.cargo_build("debug", ["port"])
for g in gens:
    rc, out = vlib.run_bin("debug", "port", ["--gen", g, "--seed", seed, "--count", count])
    cases = vlib.parse_case_lines(out)
    for m in mods:
        mm, bad, err = vlib.eval_cases("X", "Port.Oracle" + m, cases, shard=40, prelude="Local Open Scope uint63_scope.", tag="%s_%s" % (g, m))
        print(g, m, "err" if err else ("mismatch=%d rejects=%s" % (len(mm), [c[0] for c, k in bad][:10])), flush=True)
