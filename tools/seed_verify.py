#!/usr/bin/env python3
"""Confirms a seeded defect in a scratch worktree and runs the property's check against it.
usage: seed_verify.py <out dir> <seed id> <property> "<demo command>" [extra properties to run]"""
import os, subprocess, sys, json, shutil, time
src, sid, prop, demo_cmd = sys.argv[1:5]
extra = sys.argv[5:]
W = "/tmp/seedv"
def sh(cmd, cwd=None, timeout=3000):
    r = subprocess.run(cmd, shell=True, cwd=cwd, stdout=subprocess.PIPE, stderr=subprocess.STDOUT, text=True, timeout=timeout,
                       env=dict(os.environ, CARGO_NET_OFFLINE="true", CARGO_TARGET_DIR="/tmp/seedv-target"))
    return r.returncode, r.stdout
if not os.path.isdir(W):
    rc, out = sh("git -C /repo worktree add -q --detach %s HEAD" % W)
    assert rc == 0, out
def clean():
    sh("git checkout -q -- . && git clean -fdq", cwd=W)
clean()
meta = {"seed": sid, "property": prop, "source": src, "demo_cmd": demo_cmd}
def apply(f):
    rc, out = sh("git apply %s" % os.path.join(src, f), cwd=W)
    assert rc == 0, "apply %s: %s" % (f, out)
def suite():
    rc, out = sh("cargo test --workspace --offline 2>&1 | grep -E '^test result'", cwd=W)
    p = sum(int(l.split()[3]) for l in out.splitlines() if l.startswith("test result"))
    f = sum(int(l.split()[5]) for l in out.splitlines() if l.startswith("test result"))
    return p, f
demo_files = [f for f in os.listdir(src) if f == "demo.diff"]
assert demo_files, "no demo.diff in " + src
# 1. demo on the clean tree
apply("demo.diff")
rc, out = sh(demo_cmd, cwd=W)
meta["demo_clean_exit"] = rc
meta["demo_clean_tail"] = out[-300:]
# 2. demo with the defect
apply("patch.diff")
rc2, out2 = sh(demo_cmd, cwd=W)
meta["demo_patched_exit"] = rc2
meta["demo_patched_tail"] = out2[-500:]
# 3. suite with the defect only
clean()
apply("patch.diff")
meta["suite_with_patch"] = suite()
clean()
confirmed = meta["demo_clean_exit"] == 0 and meta["demo_patched_exit"] != 0 and meta["suite_with_patch"][1] == 0 and meta["suite_with_patch"][0] >= 89
meta["confirmed"] = confirmed
print(sid, "confirmed" if confirmed else "NOT CONFIRMED", meta["demo_clean_exit"], meta["demo_patched_exit"], meta["suite_with_patch"], flush=True)
# 4. the checks
if confirmed:
    rc, out = sh("python3 /verif/tools/seedtest.py %s %s" % (src, " ".join([prop] + extra)), timeout=6000)
    print(out, flush=True)
    try:
        meta["checks"] = json.load(open(os.path.join(src, "check_results.json")))
    except Exception as ex:
        meta["checks"] = {"error": str(ex), "out": out[-500:]}
    dst = os.path.join("/verif/seeded", sid)
    os.makedirs(dst, exist_ok=True)
    for f in ("patch.diff", "demo.diff", "README.md"):
        if os.path.exists(os.path.join(src, f)):
            shutil.copy(os.path.join(src, f), dst)
    meta["what_we_ran"] = ["scratch worktree /tmp/seedv: git apply demo.diff; %s (clean: exit %d; with patch.diff: exit %d)" % (demo_cmd, meta["demo_clean_exit"], meta["demo_patched_exit"]),
                           "cargo test --workspace --offline with patch.diff only: %d passed, %d failed" % tuple(meta["suite_with_patch"]),
                           "git -C /repo apply patch.diff; ./check %s --tier quick; git -C /repo checkout -- ." % " / ".join([prop] + extra)]
    json.dump(meta, open(os.path.join(dst, "meta.json"), "w"), indent=1)
