#!/usr/bin/env python3
"""Regenerates MANIFEST.json from the META dictionaries of checks/cNN.py and tools/not_applicable.json."""
import importlib, json, os, sys
ROOT = os.path.dirname(os.path.dirname(os.path.abspath(__file__)))
sys.path.insert(0, os.path.join(ROOT, "lib")); sys.path.insert(0, ROOT)
checks = []
CLAIMED = set(open(os.path.join(ROOT, 'tools', 'claimed.txt')).read().split())
claimed = set()
for f in sorted(os.listdir(os.path.join(ROOT, "checks"))):
    if not (f.startswith("c") and f.endswith(".py") and f[1:-3].isdigit()):
        continue
    if f[:-3].upper() not in CLAIMED:
        continue
    m = importlib.import_module("checks." + f[:-3])
    M = m.META
    pid = M["property_id"]
    claimed.add(pid)
    checks.append({
        "property_id": pid,
        "quick_cmd": "./check %s --tier quick" % pid,
        "thorough_cmd": "./check %s --tier thorough" % pid,
        "evidence_file": "evidence/%s.json" % pid,
        "replay_cmd_template": "./check %s --replay {path}" % pid,
        "engine": "coq-model+correspondence",
        "level_claimed": {"category": M["category"], "text": M["text"], "design_ref": M["design_ref"]},
        "level_note": M["level_note"],
        "technique": M["technique"],
    })
props = [json.loads(l)["id"] for l in open(os.path.join(ROOT, "properties.jsonl"))]
na_reasons = json.load(open(os.path.join(ROOT, "tools", "not_applicable.json")))
na = [{"property_id": p, "reason": na_reasons.get(p, "no check has been built for this property yet (work in progress); it is not claimed")}
      for p in props if p not in claimed]
man = {
    "version": 1,
    "setup_cmd": "./setup.sh",
    "hooks": {
        "guard": "--cfg statime_verif",
        "enable": "RUSTFLAGS=\"--cfg statime_verif\" (set by lib/vlib.py for every harness build); hook: statime::verif (statime/src/lib.rs), entry points to the crate-private TimeInterval/WireTimestamp conversions used by the C16 harness",
        "baseline_off_cmd": "cd /repo && cargo test --workspace --no-fail-fast --offline",
        "source_commits": ["3126fc3"],
        "add_only": True,
    },
    "engines": [{
        "name": "coq-model+correspondence",
        "path": "coq/ harness/ lib/vlib.py check",
        "serves_properties": sorted(claimed),
        "kind_free_text": "hand-written Gallina model with theorems (Coq 8.16.1, full .vo build, Print Assumptions allow-list) + table-level translators into coq/Generated + differential correspondence of the model against the Rust implementation, with the executable property oracle evaluated in Coq on implementation traces",
    }],
    "checks": checks,
    "not_applicable": na,
    "notes": "See DESIGN.md. ./check Cxx [--tier quick|thorough] [--replay file].",
}
json.dump(man, open(os.path.join(ROOT, "MANIFEST.json"), "w"), indent=1)
print("MANIFEST.json: %d checks, %d not claimed" % (len(checks), len(na)))
