#!/usr/bin/env python3
"""Runs checks against a seeded defect:  seedtest.py <seed dir> <property id> [more ids...]
Applies <seed dir>/patch.diff to /repo, runs ./check for each property (quick), reverts."""
import os, subprocess, sys, json, time
seed = sys.argv[1]
props = sys.argv[2:]
patch = os.path.join(seed, "patch.diff")
def sh(cmd, **kw):
    return subprocess.run(cmd, shell=True, stdout=subprocess.PIPE, stderr=subprocess.STDOUT, text=True, **kw)
st = sh("git -C /repo status --porcelain")
assert st.stdout.strip() == "", "repo not clean: " + st.stdout
r = sh("git -C /repo apply %s" % patch)
assert r.returncode == 0, r.stdout
results = {}
try:
    for p in props:
        t0 = time.time()
        r = sh("cd /verif && VERIF_SEED=%s ./check %s --tier quick" % (os.environ.get("VERIF_SEED", "1"), p), timeout=3000)
        lines = [l for l in r.stdout.splitlines() if l.startswith(("VIOLATION", "KNOWN-FINDING", "OK ", "BROKEN"))]
        results[p] = {"exit": r.returncode, "lines": [l[:400] for l in lines][:12], "wall_s": round(time.time() - t0, 1)}
        print(p, "exit", r.returncode, "|", " || ".join(l[:200] for l in lines[:4]), flush=True)
finally:
    sh("git -C /repo checkout -- .")
    st = sh("git -C /repo status --porcelain")
    assert st.stdout.strip() == "", "repo not clean after revert: " + st.stdout
json.dump(results, open(os.path.join(seed, "check_results.json"), "w"), indent=1)
mp = os.path.join(seed, "meta.json")
if os.path.exists(mp):
    m = json.load(open(mp))
    m.setdefault("checks", {}).update(results)
    m["checks_rerun_at_verif_commit"] = sh("git -C /verif rev-parse --short HEAD").stdout.strip()
    json.dump(m, open(mp, "w"), indent=1)
