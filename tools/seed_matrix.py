#!/usr/bin/env python3
"""Prints the catch matrix of /verif/seeded as a markdown table (for DESIGN.md)."""
import json, glob, os, re
rows = []
for d in sorted(glob.glob(os.path.join(os.path.dirname(__file__), "..", "seeded", "*", ""))):
    m = json.load(open(os.path.join(d, "meta.json")))
    name = os.path.basename(d.rstrip("/"))
    files = sorted(set(re.findall(r"^\+\+\+ b/(\S+)", open(os.path.join(d, "patch.diff")).read(), re.M)))
    res = []
    for k, v in sorted(m.get("checks", {}).items()):
        lines = " ".join(v["lines"])
        if "harness build" in lines:
            tag = "(not run)"
        elif "VIOLATION" in lines:
            concrete = any(("VIOLATION" in l and "no-failing-input-found" not in l) for l in v["lines"])
            tag = "**caught**, replay input" if concrete else "caught (obligation/correspondence broken, no failing input found)"
        else:
            tag = "MISSED"
        res.append("%s: %s" % (k, tag))
    needs = m.get("needs", "")
    rows.append("| %s | %s | %s | %s |" % (name, m.get("property"), ", ".join(f.replace("statime/src/", "").replace("statime-linux/src/", "linux/") for f in files), "; ".join(res)))
print("| seed | property | files changed | quick checks run against it |")
print("|---|---|---|---|")
print("\n".join(rows))
