#!/usr/bin/env python3
"""Debug helper: run N generated port cases, report disagreements with the first differing event."""
import sys, os, re
sys.path.insert(0, os.path.join(os.path.dirname(os.path.dirname(os.path.abspath(__file__))), "lib"))
import vlib
gen, seed, count = sys.argv[1], int(sys.argv[2]), int(sys.argv[3])
profile = sys.argv[4] if len(sys.argv) > 4 else "debug"
module = os.environ.get("MODULE", "Port.CasesMix")
vlib.cargo_build(profile, ["port"])
rc, out = vlib.run_bin(profile, "port", ["--gen", gen, "--seed", seed, "--count", count])
cases = vlib.parse_case_lines(out)
print("cases", len(cases), "rc", rc)
if rc != 0: print(out[-2000:])
mm, bad, err = vlib.eval_cases("DBG", module, cases, shard=40, prelude="Local Open Scope uint63_scope.")
if err: print(err); sys.exit(1)
print("mismatches:", [c[0] for c in mm])
print("oracle rejects:", [(c[0], kf) for c, kf in bad])
for c in mm[:int(os.environ.get("SHOW", "1"))]:
    text = """From SV Require Import Port.PortCases.
Local Open Scope uint63_scope.
Definition c : pcase := %s.
Local Close Scope uint63_scope.
Local Open Scope Z_scope.
Definition k := first_diff 0 (model_trace c) (pc_trace c).
Definition cmp (a b : option step_result) :=
  match a, b with
  | Some (SROk o s), Some (SROk o' s') =>
      (list_eqb tobs_eqb o o', list_eqb Z.eqb (sn_states s) (sn_states s'), ds_eqb (sn_ds s) (sn_ds s'),
       list_eqb opt_z_eqb (sn_mean_delays s) (sn_mean_delays s'))
  | _, _ => (false, false, false, false)
  end.
Definition obs_of (a : option step_result) := match a with Some (SROk o s) => Some (o, sn_states s, sn_mean_delays s) | _ => None end.
Eval vm_compute in (k, length (model_trace c), length (pc_trace c)).
Eval vm_compute in (nth_error (pc_events c) (Z.to_nat k)).
Eval vm_compute in (cmp (nth_error (model_trace c) (Z.to_nat k)) (nth_error (pc_trace c) (Z.to_nat k))).
Eval vm_compute in (obs_of (nth_error (model_trace c) (Z.to_nat k))).
Eval vm_compute in (obs_of (nth_error (pc_trace c) (Z.to_nat k))).
Eval vm_compute in (model_init c, pc_init c).
""" % c[2]
    rc, out = vlib.coq_eval("dbg_case", text, workdir=os.path.join(vlib.WORK, "DBG"))
    print("---- case", c[0], c[1])
    print(out[:6000])
