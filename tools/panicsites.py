#!/usr/bin/env python3
import sys, os, re, collections
sys.path.insert(0, os.path.join(os.path.dirname(os.path.dirname(os.path.abspath(__file__))), "lib"))
import vlib
gen, seed, count = sys.argv[1], int(sys.argv[2]), int(sys.argv[3])
rc, out = vlib.run_bin("debug", "port", ["--gen", gen, "--seed", seed, "--count", count])
cases = [c for c in vlib.parse_case_lines(out) if ":panic" in c[1]]
text = """From SV Require Import Port.PortCases.
Fixpoint site (i : instance) (es : list event) : Z * Z :=
  match es with [] => (-1, -1) | e :: es' => match step i e with Ok (i', _) => site i' es' | Panic s => (Z.of_nat s, match e with EvRecvEvent _ _ _ => 1 | EvRecvGeneral _ _ => 2 | EvSendTimestamp _ _ _ => 3 | EvAnnounceTimer _ _ => 4 | EvBmca => 5 | _ => 6 end) end end.
Definition site_of (c : pcase) := match init (pc_setup c) with Ok (i, _) => site i (pc_events c) | Panic s => (Z.of_nat s, 0) end.
Eval vm_compute in (map site_of [
%s
]).
""" % ";\n".join(c[2] for c in cases[:150])
rc, out = vlib.coq_eval("sites", text, workdir=os.path.join(vlib.WORK, "DBG"))
pairs = re.findall(r"\((-?\d+), (-?\d+)\)", out)
print(collections.Counter(pairs))
