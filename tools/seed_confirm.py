#!/usr/bin/env python3
"""Confirms a seeded defect in a scratch worktree of its own (steps 1-3 of seed_verify.py, without touching /repo),
so that several confirmations can run side by side.
usage: seed_confirm.py <out dir> <seed id> <property> "<demo command>" <worker no>
The demo command may contain {W} (the worktree).  Writes <out dir>/confirm.json."""
import os, subprocess, sys, json
src, sid, prop, demo_cmd, k = sys.argv[1:6]
W = "/tmp/seedv%s" % k
T = "/tmp/seedv-target%s" % k
def sh(cmd, cwd=None, timeout=3000, target=True):
    env = dict(os.environ, CARGO_NET_OFFLINE="true")
    if target:
        env["CARGO_TARGET_DIR"] = T
    r = subprocess.run(cmd, shell=True, cwd=cwd, stdout=subprocess.PIPE, stderr=subprocess.STDOUT, text=True, timeout=timeout, env=env)
    return r.returncode, r.stdout
if not os.path.isdir(W):
    rc, out = sh("git -C /repo worktree add -q --detach %s HEAD" % W)
    assert rc == 0, out
def clean():
    sh("git checkout -q -- . && git clean -fdq -e target", cwd=W)
clean()
meta = {"seed": sid, "property": prop, "source": src, "demo_cmd": demo_cmd}
def apply(f):
    rc, out = sh("git apply %s" % os.path.join(src, f), cwd=W)
    assert rc == 0, "apply %s: %s" % (f, out)
def suite():
    rc, out = sh("cargo test --workspace --offline -j4 2>&1 | grep -E '^test result'", cwd=W)
    p = sum(int(l.split()[3]) for l in out.splitlines() if l.startswith("test result"))
    f = sum(int(l.split()[5]) for l in out.splitlines() if l.startswith("test result"))
    return p, f
has_demo_diff = os.path.exists(os.path.join(src, "demo.diff"))
own_target = "{W}" in demo_cmd           # script demos build into the worktree's own target directory
cmd = demo_cmd.replace("{W}", W)
if has_demo_diff:
    apply("demo.diff")
rc, out = sh(cmd, cwd=W, target=not own_target)
meta["demo_clean_exit"] = rc
meta["demo_clean_tail"] = out[-300:]
apply("patch.diff")
rc2, out2 = sh(cmd, cwd=W, target=not own_target)
meta["demo_patched_exit"] = rc2
meta["demo_patched_tail"] = out2[-500:]
clean()
apply("patch.diff")
meta["suite_with_patch"] = suite()
clean()
meta["confirmed"] = rc == 0 and rc2 != 0 and meta["suite_with_patch"][1] == 0 and meta["suite_with_patch"][0] >= 89
json.dump(meta, open(os.path.join(src, "confirm.json"), "w"), indent=1)
print(sid, "confirmed" if meta["confirmed"] else "NOT CONFIRMED", rc, rc2, meta["suite_with_patch"], flush=True)
