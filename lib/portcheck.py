"""Factory for the port-level property checks (shared model, harness binary `port`)."""
from vlib import Spec, standard_check

PORT_TRUSTED = [
    "Coq 8.16.1 kernel, coqc, vm_compute (no native_compute)",
    "hand-written Gallina model coq/Port/*.v, coq/Wire/WireImpl.v, coq/Time/TimeModel.v of statime's port state machine, BMCA, codec and time arithmetic (modelled; validated on every run by the correspondence of complete observable traces)",
    "harness/src/port.rs (recording Clock/Filter, scripted RngCore, logging PtpInstanceStateMutex, all through public API), harness/src/gens.rs (generators), harness/src/frames.rs (independent frame builder)",
    "timer durations are compared with a tolerance of 2 ns (the implementation computes them in f64, the model as exact rationals)",
]
PORT_ASSUMPTIONS = [
    "the host passes every port to PtpInstance::bmca and returns each TimestampContext at most once (enforced by the Rust type system for the latter)",
    "the Filter is the harness's recording filter (mean_delay := delay, else peer_delay); the Clock never fails",
    "log message intervals in [-7, 7] so that 2^n s is exactly representable and timers fit core::time::Duration",
]


def make(prop, module, gens, prop_file=None, allowed=(), rule="", extra_trusted=(), extra_assumptions=(), shard=40, trivial=()):
    class S(Spec):
        pass
    S.prop = prop
    S.prop_file = prop_file or ("Properties/%s.v" % prop)
    S.case_module = module
    S.model_targets = [module.replace(".", "/") + ".vo"]
    S.module_overrides = {}
    S.shard_overrides = {}
    for g in sorted(set(g for (g, _, _, _) in gens if g.startswith("warm"))):
        # long unobserved warm-up cases have their own case type (Port/WarmCases.v)
        S.model_targets.append("Port/Warm%s.vo" % prop)
        S.module_overrides["--gen " + g] = "Port.Warm%s" % prop
        S.shard_overrides["--gen " + g] = 1
    S.bins = [("port", profile, nq, nt, ["--gen", g]) for (g, profile, nq, nt) in gens]
    S.allowed_axioms = set(allowed)
    S.trusted_base = PORT_TRUSTED + list(extra_trusted)
    S.assumptions = PORT_ASSUMPTIONS + list(extra_assumptions)
    S.rule = rule
    S.shard = shard
    S.case_prelude = "Local Open Scope uint63_scope."
    S.trivial_classes = tuple(trivial)
    return S
