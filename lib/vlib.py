"""Shared machinery for the statime Coq verification checks.

Every property check is a small module checks/cNN.py that fills in a `Spec`
and calls `standard_check`.  The flow (DESIGN.md section 2.3):

  1. translators regenerate coq/Generated/*.v from /repo's working tree
  2. `make` the model/case files and the property file (full .vo build)
  3. Print Assumptions of every theorem of Properties/Cxx.v, compared with
     the property's allow-list; grep for Admitted/Axiom/... over coq/
  4. cargo build of harness/ against /repo (debug and release)
  5. harness binaries print cases (input + observed implementation output);
     sharded cases files are evaluated by coqc (vm_compute): the model must
     agree with the implementation and the property oracle ok_Cxx must accept
     the IMPLEMENTATION's output
  6. violation protocol, evidence file
"""
import fcntl
import json
import os
import re
import subprocess
import sys
import time
from concurrent.futures import ThreadPoolExecutor

ROOT = os.path.dirname(os.path.dirname(os.path.abspath(__file__)))
COQ = os.path.join(ROOT, "coq")
CACHE = os.path.join(ROOT, ".cache")
TARGET = os.path.join(CACHE, "target")
WORK = os.path.join(CACHE, "work")
HARNESS = os.path.join(ROOT, "harness")
EVID = os.path.join(ROOT, "evidence")
REPLAY = os.path.join(EVID, "replay")
REPO = "/repo"
GUARD_CFG = "statime_verif"

FORBIDDEN = r"\b(Admitted|admit|Axiom|Axioms|Parameter|Parameters|Conjecture|Conjectures|Hypothesis|Hypotheses|Variable|Variables|Admit Obligations|Unset Guard Checking|bypass_check|Unset Positivity Checking|Unset Universe Checking|type-in-type|impredicative-set)\b"

FLOAT_AXIOMS = {
    "Prim2SF_valid", "SF2Prim_Prim2SF", "Prim2SF_SF2Prim", "opp_spec", "abs_spec",
    "eqb_spec", "ltb_spec", "leb_spec", "compare_spec", "classify_spec", "mul_spec",
    "add_spec", "sub_spec", "div_spec", "sqrt_spec", "of_uint63_spec",
    "normfr_mantissa_spec", "frshiftexp_spec", "ldshiftexp_spec", "next_up_spec",
    "next_down_spec", "Leibniz.eqb_equal", "of_int63_spec",
}


# coqc parses and evaluates large generated case files recursively: give the children
# (they inherit the limit) as much stack as the hard limit allows
try:
    import resource as _resource
    _soft, _hard = _resource.getrlimit(_resource.RLIMIT_STACK)
    if _soft != _hard:
        _resource.setrlimit(_resource.RLIMIT_STACK, (_hard, _hard))
except Exception:
    pass


def log(*a):
    print(*a, flush=True)


def sh(cmd, cwd=None, timeout=3600, env=None, stdin=None):
    e = dict(os.environ)
    e["CARGO_NET_OFFLINE"] = "true"
    if env:
        e.update(env)
    try:
        p = subprocess.run(cmd, cwd=cwd, env=e, shell=isinstance(cmd, str),
                           stdout=subprocess.PIPE, stderr=subprocess.STDOUT,
                           timeout=timeout, input=stdin)
        return p.returncode, p.stdout.decode("utf-8", "replace")
    except subprocess.TimeoutExpired as ex:
        out = ex.stdout.decode("utf-8", "replace") if ex.stdout else ""
        return 124, out + "\n[timeout after %ss]" % timeout


class BuildLock:
    def __enter__(self):
        os.makedirs(CACHE, exist_ok=True)
        self.f = open(os.path.join(CACHE, "build.lock"), "w")
        fcntl.flock(self.f, fcntl.LOCK_EX)
        return self

    def __exit__(self, *a):
        fcntl.flock(self.f, fcntl.LOCK_UN)
        self.f.close()


# --------------------------------------------------------------------------
# Coq side

def coq_sources():
    res = []
    for d, _, fs in os.walk(COQ):
        for f in fs:
            if f.endswith(".v"):
                res.append(os.path.relpath(os.path.join(d, f), COQ))
    return sorted(res)


def write_if_changed(path, text):
    try:
        if open(path).read() == text:
            return False
    except FileNotFoundError:
        pass
    os.makedirs(os.path.dirname(path), exist_ok=True)
    with open(path, "w") as f:
        f.write(text)
    return True


def regen_coqproject():
    text = "-Q . SV\n-arg -w -arg -notation-overridden,-deprecated-hint-without-locality,-deprecated-instance-without-locality\n" + "\n".join(coq_sources()) + "\n"
    changed = write_if_changed(os.path.join(COQ, "_CoqProject"), text)
    if changed or not os.path.exists(os.path.join(COQ, "Makefile")):
        rc, out = sh("coq_makefile -f _CoqProject -o Makefile", cwd=COQ)
        if rc != 0:
            raise RuntimeError("coq_makefile failed:\n" + out)


def coq_make(targets, timeout=3000):
    """Build the given .vo targets (paths relative to coq/). Returns (ok, log)."""
    regen_coqproject()
    rc, out = sh(["make", "-j16"] + list(targets), cwd=COQ, timeout=timeout)
    return rc == 0, out


def coq_eval(name, text, timeout=1800, workdir=None):
    """Compile a scratch file that imports the development; returns (rc, output)."""
    wd = workdir or WORK
    os.makedirs(wd, exist_ok=True)
    path = os.path.join(wd, name + ".v")
    with open(path, "w") as f:
        f.write(text)
    rc, out = sh(["coqc", "-noglob", "-w", "-notation-overridden", "-Q", COQ, "SV", path], cwd=wd, timeout=timeout)
    return rc, out


def dep_cone(vfile):
    """Transitive SV dependencies (relative .v paths) of a .v file of the project."""
    seen, todo = set(), [vfile]
    pat = re.compile(r"From\s+SV\s+Require\s+(?:Import\s+|Export\s+)?([^.]*(?:\.[A-Za-z_][\w.]*)*)\s*\.\s", re.S)
    while todo:
        f = todo.pop()
        if f in seen:
            continue
        seen.add(f)
        try:
            src = open(os.path.join(COQ, f)).read()
        except FileNotFoundError:
            continue
        for m in re.finditer(r"From\s+SV\s+Require\s+(?:Import\s+|Export\s+)?(.*?)\.\s", src, re.S):
            for mod in m.group(1).split():
                p = mod.replace(".", "/") + ".v"
                if os.path.exists(os.path.join(COQ, p)):
                    todo.append(p)
    return sorted(seen)


def strip_comments(src):
    out, depth, i = [], 0, 0
    while i < len(src):
        if src.startswith("(*", i):
            depth += 1
            i += 2
        elif src.startswith("*)", i) and depth > 0:
            depth -= 1
            i += 2
        else:
            if depth == 0:
                out.append(src[i])
            i += 1
    return "".join(out)


def count_qed(files):
    n = 0
    for f in files:
        src = strip_comments(open(os.path.join(COQ, f)).read())
        n += len(re.findall(r"\b(Qed|Defined)\s*\.", src))
    return n


def forbidden_scan():
    """Returns list of 'file:line: text' for forbidden vernacular in coq/ (comments stripped)."""
    hits = []
    for f in coq_sources():
        src = strip_comments(open(os.path.join(COQ, f)).read())
        # Section-local Variable/Hypothesis/Context are allowed: they are discharged.
        insec = 0
        for ln, line in enumerate(src.split("\n"), 1):
            if re.match(r"\s*Section\b", line):
                insec += 1
            if re.match(r"\s*End\b", line) and insec > 0:
                insec -= 1
            for m in re.finditer(FORBIDDEN, line):
                w = m.group(1)
                if w in ("Variable", "Variables", "Hypothesis", "Hypotheses") and insec > 0:
                    continue
                hits.append("%s:%d: %s" % (f, ln, line.strip()))
    return hits


def theorem_names(vfile):
    src = strip_comments(open(os.path.join(COQ, vfile)).read())
    return re.findall(r"^\s*(?:Theorem|Lemma|Corollary|Example)\s+([A-Za-z_][\w']*)", src, re.M)


def print_assumptions(prop_module, names):
    """Returns dict name -> list of axiom names ([] = closed)."""
    body = "From SV Require Import %s.\n" % prop_module
    for n in names:
        body += 'Goal True. idtac "@@BEGIN %s". Abort.\nPrint Assumptions %s.\n' % (n, n)
    body += 'Goal True. idtac "@@END". Abort.\n'
    rc, out = coq_eval("assumptions_" + prop_module.replace(".", "_"), body)
    if rc != 0:
        return None, out
    res = {}
    parts = re.split(r"@@BEGIN (\S+)", out)
    for i in range(1, len(parts), 2):
        name, txt = parts[i], parts[i + 1].split("@@END")[0]
        if "Closed under the global context" in txt:
            res[name] = []
        else:
            ax = [a for a in re.findall(r"^([A-Za-z_][\w.']*)\s*:", txt, re.M) if a != "Axioms"]
            # continuation lines of types are indented, axiom names start at col 0
            res[name] = sorted(set(ax))
    return res, out


# --------------------------------------------------------------------------
# Rust side

def cargo_build(profile, bins=None, timeout=3000):
    os.makedirs(CACHE, exist_ok=True)
    lock_src = os.path.join(REPO, "Cargo.lock")
    lock_dst = os.path.join(HARNESS, "Cargo.lock")
    if not os.path.exists(lock_dst):
        sh(["cp", lock_src, lock_dst])
    cmd = ["cargo", "build", "--offline", "--quiet"]
    if profile == "release":
        cmd.append("--release")
    for b in bins or []:
        cmd += ["--bin", b]
    env = {"CARGO_TARGET_DIR": TARGET, "RUSTFLAGS": "--cfg %s" % GUARD_CFG}
    rc, out = sh(cmd, cwd=HARNESS, timeout=timeout, env=env)
    if rc != 0 and "Cargo.lock" in out:
        sh(["cp", lock_src, lock_dst])
        rc, out = sh(cmd, cwd=HARNESS, timeout=timeout, env=env)
    return rc == 0, out


def bin_path(profile, name):
    return os.path.join(TARGET, "release" if profile == "release" else "debug", name)


def run_bin(profile, name, args, timeout=1800, env=None):
    rc, out = sh([bin_path(profile, name)] + [str(a) for a in args], timeout=timeout, env=env)
    return rc, out


# --------------------------------------------------------------------------
# Cases evaluation

def parse_cases_result(out):
    flat = re.sub(r"\s+", " ", out).replace("%Z", "").replace("%N", "")
    flat = flat.replace("( ", "(").replace(" )", ")").replace("[ ", "[").replace(" ]", "]")
    m = re.search(r"= \((\d+), ?\[([^\]]*)\], ?\[([^\]]*)\]\)", flat)
    if not m:
        return None
    total = int(m.group(1))
    mm = [int(x) for x in re.findall(r"-?\d+", m.group(2))]
    bad = [(int(a), int(b)) for a, b in re.findall(r"\(\s*(-?\d+)\s*,\s*(-?\d+)\s*\)", m.group(3))]
    if m.group(3).count("(") != len(bad):
        return None
    return total, mm, bad


def eval_shard(args):
    workdir, name, module, terms, timeout, prelude = args
    text = "From SV Require Import %s.\nSet Printing Width 1000000.\n%s\nDefinition cases : list case := [\n%s\n].\nEval vm_compute in (run_cases cases).\n" % (
        module, prelude, ";\n".join(terms))
    rc, out = coq_eval(name, text, timeout=timeout, workdir=workdir)
    if rc != 0:
        return None, out
    r = parse_cases_result(out)
    if r is None:
        return None, out
    return r, out


def eval_cases(prop, module, cases, shard=250, timeout=1800, tag="s", prelude=""):
    """cases: list of (index, class, term).  Returns (mismatch idx, bad [(idx,kf)], error text or None)."""
    wd = os.path.join(WORK, prop)
    os.makedirs(wd, exist_ok=True)
    jobs = []
    for k in range(0, len(cases), shard):
        chunk = cases[k:k + shard]
        jobs.append((wd, "%s_%s_%d" % (prop, tag, k // shard), module, [c[2] for c in chunk], timeout, prelude))
    mm, bad = [], []
    with ThreadPoolExecutor(max_workers=16) as ex:
        results = list(ex.map(eval_shard, jobs))
    for j, (r, out) in enumerate(results):
        if r is None:      # transient failures (e.g. a dependency being recompiled): retry once, alone
            r, out = eval_shard(jobs[j])
            results[j] = (r, out)
        if r is None:
            return None, None, "coqc failed on shard %d:\n%s" % (j, out[-3000:])
        total, m, b = r
        chunk = cases[j * shard:(j + 1) * shard]
        if total != len(chunk):
            return None, None, "shard %d: evaluated %d of %d cases" % (j, total, len(chunk))
        mm += [chunk[i] for i in m]
        bad += [(chunk[i], kf) for i, kf in b]
    return mm, bad, None


def parse_case_lines(out):
    cases = []
    for line in out.split("\n"):
        parts = line.split("\t")
        if len(parts) == 3 and parts[0].isdigit():
            cases.append((int(parts[0]), parts[1], parts[2]))
    return cases


# --------------------------------------------------------------------------
# Known findings

def known_findings(prop):
    """Returns {kf_id: text} for `known:` entries of this property."""
    res = {}
    try:
        for line in open(os.path.join(ROOT, "known_findings.txt")):
            line = line.strip()
            m = re.match(r"known:\s+property=(\S+)\s+kf=(\d+)\s+(.*)", line)
            if m and m.group(1) == prop:
                res[int(m.group(2))] = m.group(3)
    except FileNotFoundError:
        pass
    return res


# --------------------------------------------------------------------------
# Spec and the standard flow

class Spec:
    prop = ""
    prop_file = ""            # Properties/Cxx.v
    case_module = ""          # SV module with `case` and `run_cases`
    model_targets = []        # .vo needed for the case evaluation
    bins = []                 # [(bin, profile, quick_count, thorough_count, extra_args)]
    allowed_axioms = set()
    trusted_base = []
    assumptions = []
    rule = ""
    trivial_classes = ()      # class prefixes counted as trivial
    translators = []          # callables run before the Coq build
    shard = 250
    extra = None              # optional callable(ctx) for additional checks -> list of problems
    case_prelude = ""         # vernacular inserted before the cases definition (e.g. scope opening)
    level = "proof"


class Ctx:
    def __init__(self, spec, tier, seed):
        self.spec, self.tier, self.seed = spec, tier, seed
        self.t0 = time.time()
        self.problems = []      # broken obligations / ties (strings)
        self.violations = []    # (replay_path, text)
        self.known_lines = []
        self.cov = {}
        self.samples = []


def write_replay(prop, name, obj):
    os.makedirs(REPLAY, exist_ok=True)
    path = os.path.join(REPLAY, "%s-%s.json" % (prop, name))
    with open(path, "w") as f:
        json.dump(obj, f, indent=1)
    return os.path.relpath(path, ROOT)


def write_evidence(ctx, extra_cov=None):
    spec = ctx.spec
    cov = dict(ctx.cov)
    if extra_cov:
        cov.update(extra_cov)
    cov.setdefault("samples", ctx.samples[:8] or ["(no cases generated)"])
    ev = {
        "property_id": spec.prop,
        "tier": ctx.tier,
        "seed": ctx.seed,
        "level": spec.level,
        "coverage": cov,
        "assumptions": list(spec.assumptions),
        "wall_s": round(time.time() - ctx.t0, 2),
        "violations": len(ctx.violations),
    }
    os.makedirs(EVID, exist_ok=True)
    with open(os.path.join(EVID, spec.prop + ".json"), "w") as f:
        json.dump(ev, f, indent=1)


def generate_cases(ctx, scale=1):
    """Runs every harness binary of the spec; returns list of (bin, profile, cases) or raises."""
    spec = ctx.spec
    res = []
    for (b, profile, nq, nt, extra) in spec.bins:
        n = (nq if ctx.tier == "quick" else nt) * scale
        rc, out = run_bin(profile, b, ["--seed", ctx.seed, "--count", n] + list(extra))
        if rc != 0:
            raise RuntimeError("harness %s (%s) exited %d:\n%s" % (b, profile, rc, out[-2000:]))
        res.append((b, profile, parse_case_lines(out), list(extra)))
    return res


def standard_check(spec, tier, seed, replay=None):
    ctx = Ctx(spec, tier, seed)
    prop = spec.prop
    kfs = known_findings(prop)

    with BuildLock():
        # 1. translators
        for tr in spec.translators:
            try:
                tr()
            except Exception as ex:  # broken tie
                ctx.problems.append("translator %s failed: %s" % (getattr(tr, "__name__", tr), ex))
        # 2. Coq build: model first (must work for the oracle), then proofs
        ok_model, out_model = coq_make([t for t in spec.model_targets])
        if not ok_model:
            ctx.problems.append("model does not compile: " + tail_err(out_model))
        prop_vo = spec.prop_file[:-2] + ".vo"
        if tier == "thorough":
            # rebuild the cone of the property from scratch
            for f in dep_cone(spec.prop_file):
                for ext in (".vo", ".vok", ".vos", ".glob"):
                    try:
                        os.remove(os.path.join(COQ, f[:-2] + ext))
                    except FileNotFoundError:
                        pass
        ok_proof, out_proof = coq_make([prop_vo])
        if not ok_proof:
            ctx.problems.append("proof obligations of %s do not check: %s" % (spec.prop_file, tail_err(out_proof)))
        # 4. harness
        profiles = sorted(set(p for (_, p, _, _, _) in spec.bins))
        bins = sorted(set(b for (b, _, _, _, _) in spec.bins))
        for p in profiles:
            okb, outb = cargo_build(p, bins)
            if not okb:
                ctx.problems.append("harness build (%s) failed: %s" % (p, outb[-1500:]))
                write_fail(ctx, "harness-build", "The correspondence harness no longer builds against /repo (%s):\n%s" % (p, outb[-4000:]))
                return finish(ctx)

    cone = dep_cone(spec.prop_file)
    obligations = count_qed(cone)
    names = theorem_names(spec.prop_file)
    assum = {}
    if ok_proof:
        assum, raw = print_assumptions(spec.prop_file[:-2].replace("/", "."), names)
        if assum is None:
            ctx.problems.append("Print Assumptions failed: " + raw[-800:])
            assum = {}
        for n, axs in assum.items():
            extra = [a for a in axs if a.split(".")[-1] not in spec.allowed_axioms and a not in spec.allowed_axioms]
            if extra:
                ctx.problems.append("theorem %s depends on axioms outside the allow-list: %s" % (n, ", ".join(extra)))
        if tier == "thorough":
            rc, out = sh(["coqchk", "-silent", "-o", "-Q", ".", "SV", "SV." + spec.prop_file[:-2].replace("/", ".")], cwd=COQ, timeout=3000)
            ctx.cov["coqchk"] = "exit %d: %s" % (rc, re.sub(r"\s+", " ", out[-600:]))
            if rc != 0:
                ctx.problems.append("coqchk failed: " + out[-800:])
    hits = forbidden_scan()
    if hits:
        ctx.problems.append("forbidden vernacular in coq/: " + "; ".join(hits[:5]))

    ctx.cov.update({
        "obligations": obligations,
        "discharged": obligations if (ok_proof and ok_model) else 0,
        "checker_cmd": "cd coq && coq_makefile -f _CoqProject -o Makefile && make -j16 %s  (coqc 8.16.1, full .vo)" % prop_vo,
        "trusted_base": list(spec.trusted_base),
        "theorems": {n: (assum.get(n) if assum.get(n) else "closed under the global context") for n in names},
        "proof_files": cone,
    })

    # 5. correspondence + oracle on implementation traces
    if replay:
        return do_replay(ctx, replay)
    if not ok_model:
        write_fail(ctx, "model-broken", "The Coq model/case files do not compile, so neither the theorems nor the oracle can be evaluated.\n" + out_model[-4000:])
        return finish(ctx)
    scale = 10 if ctx.problems else 1
    try:
        gen = generate_cases(ctx, scale)
    except RuntimeError as ex:
        ctx.problems.append(str(ex))
        write_fail(ctx, "harness-run", str(ex))
        return finish(ctx)
    evals, classes, mism_all = 0, {}, []
    for (b, profile, cases, extra) in gen:
        evals += len(cases)
        for c in cases:
            classes.setdefault(c[1], c)
        module = getattr(spec, "module_overrides", {}).get(" ".join(extra), spec.case_module)
        shard = getattr(spec, "shard_overrides", {}).get(" ".join(extra), spec.shard)
        mm, bad, err = eval_cases(prop, module, cases, shard=shard, tag="_".join([b, profile] + [x.strip("-") for x in extra]), prelude=spec.case_prelude)
        if err:
            ctx.problems.append("case evaluation failed for %s/%s: %s" % (b, profile, err))
            continue
        for (c, kf) in bad:
            if kf != 0 and kf in kfs:
                line = "KNOWN-FINDING: property=%s kf=%d %s" % (prop, kf, kfs[kf])
                if line not in ctx.known_lines:
                    ctx.known_lines.append(line)
                continue
            if len(ctx.violations) < 5:
                path = write_replay(prop, "%s-%s-%d" % ("_".join([b] + [x.strip("-") for x in extra]), profile, c[0]), {
                    "property": prop, "bin": b, "profile": profile, "seed": ctx.seed, "index": c[0], "args": extra,
                    "class": c[1], "case": c[2],
                    "what": "the implementation's observed output (second component of the case) is rejected by the property oracle ok_%s evaluated in Coq" % prop,
                    "how_to_replay": "./check %s --replay <this file>" % prop})
                ctx.violations.append((path, ""))
        for c in mm:
            mism_all.append((b, profile, c, extra))
    nontrivial = [k for k in classes if not any(k.startswith(t) for t in spec.trivial_classes)]
    ctx.samples = [classes[k][2][:400] for k in sorted(classes)[:6]]
    ctx.cov.update({
        "evaluations": evals,
        "distinct_nontrivial": len(nontrivial),
        "rule": spec.rule,
        "traces_validated_against_impl": evals - len(mism_all),
        "class_histogram": class_hist(gen),
        "model_impl_disagreements": len(mism_all),
    })
    if mism_all:
        b, profile, c, extra = mism_all[0]
        ctx.problems.append("correspondence: model and implementation disagree on %d case(s), first: %s/%s #%d %s" % (
            len(mism_all), b, profile, c[0], c[2][:300]))
    if ctx.problems and not ctx.violations:
        detail = {"property": prop, "broken": ctx.problems,
                  "searched": "%d implementation traces (10x quick batch) evaluated by ok_%s in Coq; none rejected" % (evals, prop)}
        if mism_all:
            b, profile, c, extra = mism_all[0]
            detail["first_disagreement"] = {"bin": b, "profile": profile, "args": extra, "seed": ctx.seed, "index": c[0], "case": c[2][:20000]}
        path = write_replay(prop, "broken", detail)
        ctx.violations.append((path, "no-failing-input-found"))
    return finish(ctx)


def class_hist(gen):
    h = {}
    for g in gen:
        for c in g[2]:
            k = c[1].split(":")[0]
            h[k] = h.get(k, 0) + 1
    return h


def tail_err(out):
    m = re.search(r"(File \"[^\"]+\", line \d+.*)", out, re.S)
    t = m.group(1) if m else out[-1200:]
    return re.sub(r"\s+", " ", t)[:1200]


def write_fail(ctx, name, text):
    path = write_replay(ctx.spec.prop, name, {"property": ctx.spec.prop, "broken": ctx.problems, "detail": text})
    ctx.violations.append((path, "no-failing-input-found"))


def do_replay(ctx, replay):
    spec = ctx.spec
    obj = json.load(open(replay if os.path.isabs(replay) else os.path.join(ROOT, replay)))
    if "index" not in obj:
        log("replay file names a broken obligation, not an input:")
        log(json.dumps(obj, indent=1)[:3000])
        return 1
    rc, out = run_bin(obj["profile"], obj["bin"], ["--seed", obj["seed"], "--only", obj["index"]] + list(obj.get("args", [])))
    cases = parse_case_lines(out)
    log("regenerated case from the current implementation:")
    for c in cases:
        log("  ", c[2])
    module = getattr(spec, "module_overrides", {}).get(" ".join(obj.get("args", [])), spec.case_module)
    mm, bad, err = eval_cases(spec.prop, module, cases, tag="replay", prelude=spec.case_prelude)
    if err:
        log(err)
        return 2
    log("model/implementation disagreement: %s" % ("yes" if mm else "no"))
    log("property oracle rejects implementation output: %s" % ("yes" if bad else "no"))
    kfs = known_findings(spec.prop)
    unknown = [(c, kf) for (c, kf) in bad if not (kf != 0 and kf in kfs)]
    for (c, kf) in bad:
        if kf != 0 and kf in kfs:
            log("KNOWN-FINDING: property=%s kf=%d %s" % (spec.prop, kf, kfs[kf]))
    if unknown or mm:
        log("VIOLATION property=%s replay=%s" % (spec.prop, replay))
        return 1
    return 0


def finish(ctx, extra_cov=None):
    spec = ctx.spec
    write_evidence(ctx, extra_cov)
    for l in ctx.known_lines:
        log(l)
    for p in ctx.problems:
        log("BROKEN: " + p[:1500])
    for (path, suffix) in ctx.violations:
        log(("VIOLATION property=%s replay=%s %s" % (spec.prop, path, suffix)).rstrip())
    if ctx.violations:
        return 1
    log("OK property=%s tier=%s obligations=%s evaluations=%s wall=%.1fs" % (
        spec.prop, ctx.tier, ctx.cov.get("obligations"), ctx.cov.get("evaluations"), time.time() - ctx.t0))
    return 0
