#!/usr/bin/env python3
"""Regenerates coq/Generated/Tables.v from the CURRENT source text of /repo.

Translated (regex level, no control flow):
  * enum MessageType discriminants and the arms of `TryFrom<u8> for MessageType`
  * ControlField::to_primitive and `From<MessageType> for ControlField`
  * ClockAccuracy / TimeSource / TlvType / ManagementAction  to_primitive and from_primitive
  * TlvType::announce_propagate (the `matches!` patterns)

Shape of the output (see coq/Wire/TableLemmas.v for the interpreter and the theorems):
  from-tables : list of (lo, hi, variant id, payload)   in source order (first match wins),
                payload = None for unit variants, Some k for `Variant(value - k)`
  to-tables   : list of (variant id, base, add_payload) meaning base (+ payload)
  variant ids are positions in the `to_primitive` match.

Fails loudly (exit 1 / exception) when a construct is no longer recognised, so that an
upstream change can never be silently dropped."""
import os
import re
import sys

ROOT = os.path.dirname(os.path.dirname(os.path.abspath(__file__)))
REPO = "/repo"
OUT = os.path.join(ROOT, "coq", "Generated", "Tables.v")


class Unrecognised(Exception):
    pass


def die(msg):
    raise Unrecognised("gen_tables: " + msg)


def read(p):
    return open(os.path.join(REPO, p)).read()


def strip_comments(t):
    t = re.sub(r"/\*.*?\*/", "", t, flags=re.S)
    return re.sub(r"//[^\n]*", "", t)


def block_after(text, start, what):
    """Text between the first '{' at/after `start` and its matching '}'."""
    i = text.find("{", start)
    if i < 0:
        die("no block for " + what)
    depth, j = 0, i
    while j < len(text):
        if text[j] == "{":
            depth += 1
        elif text[j] == "}":
            depth -= 1
            if depth == 0:
                return text[i + 1:j]
        j += 1
    die("unbalanced block for " + what)


def match_body(text, header_re, what):
    """Body of the first `match ... {` inside the item introduced by header_re."""
    m = re.search(header_re, text)
    if not m:
        die("%s not found" % what)
    fn_body = block_after(text, m.end() - 1 if text[m.end() - 1] == "{" else m.end(), what)
    mm = re.search(r"\bmatch\s+[\w.()]+\s*\{", fn_body)
    if not mm:
        die("no match expression in " + what)
    return block_after(fn_body, mm.end() - 1, what)


def arms(body, what):
    """Splits a match body into (pattern, expression) pairs."""
    res = []
    # arms end with ',' at depth 0
    depth, cur = 0, ""
    for ch in body:
        if ch in "([{":
            depth += 1
        elif ch in ")]}":
            depth -= 1
        if ch == "," and depth == 0:
            if cur.strip():
                res.append(cur.strip())
            cur = ""
        else:
            cur += ch
    if cur.strip():
        res.append(cur.strip())
    out = []
    for a in res:
        if "=>" not in a:
            die("arm without => in %s: %r" % (what, a))
        p, e = a.split("=>", 1)
        out.append((" ".join(p.split()), " ".join(e.split())))
    if not out:
        die("no arms in " + what)
    return out


def num(s, what):
    s = s.strip().replace("_", "")
    if not re.fullmatch(r"0x[0-9a-fA-F]+|[0-9]+", s):
        die("not a number in %s: %r" % (what, s))
    return int(s, 0)


def to_table(path, typ, what):
    """to_primitive: returns (names, {name: (base, add_payload)})"""
    text = strip_comments(read(path))
    im = re.search(r"impl\s+%s\s*\{" % typ, text)
    if not im:
        die("impl %s not found in %s" % (typ, path))
    body = match_body(text[im.start():], r"fn\s+to_primitive\s*\(\s*self\s*\)\s*->\s*u(?:8|16)\s*\{", what)
    names, tab = [], {}
    for p, e in arms(body, what):
        m = re.fullmatch(r"(?:Self|%s)::(\w+)(?:\((\w+)\))?" % typ, p)
        if not m:
            die("pattern not recognised in %s: %r" % (what, p))
        name, var = m.group(1), m.group(2)
        if var is None:
            val = (num(e, what), False)
        elif e == var:
            val = (0, True)
        else:
            mm = re.fullmatch(r"(0x[0-9a-fA-F]+|[0-9]+)\s*\+\s*(\w+)", e)
            if not mm or mm.group(2) != var:
                die("expression not recognised in %s: %r => %r" % (what, p, e))
            val = (num(mm.group(1), what), True)
        if name in tab:
            die("duplicate variant %s in %s" % (name, what))
        names.append(name)
        tab[name] = val
    return names, tab


def from_table(path, typ, width, names, what):
    """from_primitive: list of (lo, hi, variant name, payload offset or None) in source order"""
    text = strip_comments(read(path))
    im = re.search(r"impl\s+%s\s*\{" % typ, text)
    if not im:
        die("impl %s not found in %s" % (typ, path))
    sig = r"fn\s+from_primitive\s*\(\s*(\w+)\s*:\s*u%d\s*\)\s*->\s*Self\s*\{" % width
    m = re.search(sig, text[im.start():])
    if not m:
        die("%s not found" % what)
    arg = m.group(1)
    body = match_body(text[im.start():], sig, what)
    top = (1 << width) - 1
    rows = []
    for p, e in arms(body, what):
        binder = None
        ranges = []
        for alt in p.split("|"):
            alt = alt.strip()
            mm = re.fullmatch(r"(\w+)\s*\.\.=\s*(\w+(?:::\w+)?)", alt)
            if mm:
                hi = top if mm.group(2) in ("u8::MAX", "u16::MAX") else num(mm.group(2), what)
                ranges.append((num(mm.group(1), what), hi))
            elif re.fullmatch(r"0x[0-9a-fA-F_]+|[0-9][0-9_]*", alt):
                ranges.append((num(alt, what), num(alt, what)))
            elif re.fullmatch(r"[a-z_]\w*", alt) and len(p.split("|")) == 1:
                binder = None if alt == "_" else alt      # catch-all arm, with or without a binder
                ranges.append((0, top))
            else:
                die("pattern not recognised in %s: %r" % (what, p))
        mm = re.fullmatch(r"(?:Self|%s)::(\w+)(?:\((.*)\))?" % typ, e)
        if not mm:
            die("expression not recognised in %s: %r" % (what, e))
        name, pay = mm.group(1), mm.group(2)
        if name not in names:
            die("%s produces variant %s which to_primitive does not handle" % (what, name))
        var = binder or arg
        if pay is None:
            off = None
        elif pay.strip() == var:
            off = 0
        else:
            pm = re.fullmatch(r"(\w+)\s*-\s*(0x[0-9a-fA-F]+|[0-9]+)", pay.strip())
            if not pm or pm.group(1) != var:
                die("payload not recognised in %s: %r" % (what, e))
            off = num(pm.group(2), what)
        for lo, hi in ranges:
            rows.append((lo, hi, name, off))
    return rows


def coq_opt(o):
    return "None" if o is None else "(Some %d)" % o


def coq_bool(b):
    return "true" if b else "false"


def enum_tables(prefix, path, typ, width):
    names, to = to_table(path, typ, "%s::to_primitive (%s)" % (typ, path))
    frm = from_table(path, typ, width, names, "%s::from_primitive (%s)" % (typ, path))
    idx = {n: i for i, n in enumerate(names)}
    s = "(* %s: variant ids = %s *)\n" % (typ, ", ".join("%d %s" % (i, n) for i, n in enumerate(names)))
    s += "Definition %s_from : list (Z * Z * Z * option Z) :=\n  [ %s ].\n" % (
        prefix, ";\n    ".join("(%d, %d, %d (* %s *), %s)" % (lo, hi, idx[n], n, coq_opt(off)) for lo, hi, n, off in frm))
    s += "Definition %s_to : list (Z * Z * bool) :=\n  [ %s ].\n\n" % (
        prefix, ";\n    ".join("(%d (* %s *), %d, %s)" % (idx[n], n, to[n][0], coq_bool(to[n][1])) for n in names))
    return s


def message_type():
    path = "statime/src/datastructures/messages/mod.rs"
    text = strip_comments(read(path))
    m = re.search(r"pub\s+enum\s+MessageType\s*\{", text)
    if not m:
        die("enum MessageType not found")
    body = block_after(text, m.end() - 1, "enum MessageType")
    disc = []
    for item in body.split(","):
        item = item.strip()
        if not item:
            continue
        mm = re.fullmatch(r"(\w+)\s*=\s*(0x[0-9a-fA-F]+|[0-9]+)", item)
        if not mm:
            die("MessageType variant not recognised: %r" % item)
        disc.append((mm.group(1), num(mm.group(2), "MessageType")))
    tm = re.search(r"impl\s+TryFrom<u8>\s+for\s+MessageType\s*\{", text)
    if not tm:
        die("impl TryFrom<u8> for MessageType not found")
    body = match_body(text[tm.start():], r"fn\s+try_from\s*\(\s*value\s*:\s*u8\s*\)[^{]*\{", "MessageType::try_from")
    tf, saw_default = [], False
    for p, e in arms(body, "MessageType::try_from"):
        if p == "_":
            if e != "Err(EnumConversionError)":
                die("MessageType::try_from default arm not recognised: %r" % e)
            saw_default = True
            continue
        mm = re.fullmatch(r"Ok\((?:MessageType::)?(\w+)\)", e)
        if not mm or saw_default:
            die("MessageType::try_from arm not recognised: %r => %r" % (p, e))
        tf.append((num(p, "MessageType::try_from"), mm.group(1)))
    if not saw_default:
        die("MessageType::try_from has no default arm")
    s = "Definition message_type_discriminants : list (msg_type * Z) :=\n  [ %s ].\n" % "; ".join(
        "(MT%s, %d)" % (n, v) for n, v in disc)
    s += "Definition message_type_try_from : list (Z * msg_type) :=\n  [ %s ].\n\n" % "; ".join(
        "(%d, MT%s)" % (v, n) for v, n in tf)
    return s


def control_field():
    path = "statime/src/datastructures/messages/control_field.rs"
    names, to = to_table(path, "ControlField", "ControlField::to_primitive")
    for n in names:
        if to[n][1]:
            die("ControlField variant with payload")
    idx = {n: i for i, n in enumerate(names)}
    text = strip_comments(read(path))
    m = re.search(r"impl\s+From<MessageType>\s+for\s+ControlField\s*\{", text)
    if not m:
        die("impl From<MessageType> for ControlField not found")
    body = match_body(text[m.start():], r"fn\s+from\s*\(\s*message_type\s*:\s*MessageType\s*\)\s*->\s*Self\s*\{",
                      "ControlField::from")
    rows, default = [], None
    for p, e in arms(body, "ControlField::from"):
        em = re.fullmatch(r"ControlField::(\w+)", e)
        if not em or em.group(1) not in idx:
            die("ControlField::from expression not recognised: %r" % e)
        if p == "_":
            default = em.group(1)
            continue
        pm = re.fullmatch(r"MessageType::(\w+)", p)
        if not pm or default is not None:
            die("ControlField::from pattern not recognised: %r" % p)
        rows.append((pm.group(1), em.group(1)))
    if default is None:
        die("ControlField::from has no default arm")
    s = "(* ControlField: variant ids = %s *)\n" % ", ".join("%d %s" % (i, n) for i, n in enumerate(names))
    s += "Definition control_field_to : list (Z * Z) :=\n  [ %s ].\n" % "; ".join(
        "(%d, %d)" % (idx[n], to[n][0]) for n in names)
    s += "Definition control_field_from : list (msg_type * Z) :=\n  [ %s ].\n" % "; ".join(
        "(MT%s, %d (* %s *))" % (mt, idx[c], c) for mt, c in rows)
    s += "Definition control_field_from_default : Z := %d (* %s *).\n\n" % (idx[default], default)
    return s


def announce_propagate():
    path = "statime/src/datastructures/common/tlv.rs"
    text = strip_comments(read(path))
    m = re.search(r"fn\s+announce_propagate\s*\(\s*self\s*\)\s*->\s*bool\s*\{\s*matches!\(\s*self\.to_primitive\(\)\s*,([^)]*)\)\s*\}", text)
    if not m:
        die("TlvType::announce_propagate not recognised")
    rows = []
    for alt in m.group(1).split("|"):
        alt = alt.strip()
        mm = re.fullmatch(r"(\w+)\s*\.\.=\s*(\w+)", alt)
        if mm:
            rows.append((num(mm.group(1), "announce_propagate"), num(mm.group(2), "announce_propagate")))
        else:
            rows.append((num(alt, "announce_propagate"), num(alt, "announce_propagate")))
    return "Definition tlv_announce_propagate_ranges : list (Z * Z) :=\n  [ %s ].\n\n" % "; ".join(
        "(%d, %d)" % r for r in rows)


def generate():
    s = "(* GENERATED by translate/gen_tables.py from the source text of /repo. Do not edit. *)\n"
    s += "From SV Require Import Wire.Types.\n\n"
    s += message_type()
    s += control_field()
    s += enum_tables("clock_accuracy", "statime/src/datastructures/common/clock_accuracy.rs", "ClockAccuracy", 8)
    s += enum_tables("time_source", "statime/src/datastructures/common/time_source.rs", "TimeSource", 8)
    s += enum_tables("tlv_type", "statime/src/datastructures/common/tlv.rs", "TlvType", 16)
    s += enum_tables("management_action", "statime/src/datastructures/messages/management.rs", "ManagementAction", 8)
    s += announce_propagate()
    return s


def write_if_changed(path, text):
    try:
        if open(path).read() == text:
            return False
    except FileNotFoundError:
        pass
    os.makedirs(os.path.dirname(path), exist_ok=True)
    with open(path, "w") as f:
        f.write(text)
    return True


def main():
    """Callable used as a translator by checks/c04.py; raises on unrecognised source."""
    text = generate()
    changed = write_if_changed(OUT, text)
    return changed


if __name__ == "__main__":
    try:
        ch = main()
    except Unrecognised as ex:
        print(str(ex), file=sys.stderr)
        sys.exit(1)
    print("gen_tables: %s %s" % (os.path.relpath(OUT, ROOT), "rewritten" if ch else "unchanged"))
