#!/usr/bin/env python3
"""Inventory of potentially panicking expressions (and of instance-state lock
acquisitions) in the non-test code of statime/src, per function.

  gen_sites.py            regenerate coq/Generated/PanicSites.v from /repo's working tree
  gen_sites.py --bless    also rewrite coq/Port/SiteTable.v (the reviewed inventory)

A site is a token of one of the kinds below; per function the ordered list of
(kind, normalised text) is fingerprinted (CRC32).  The Coq side proves that the
inventory found in the source equals the reviewed one (Port/SiteTable.v), so a
source change that adds, removes or alters such an expression in any function
breaks a proof obligation of C03 / C17."""
import os, re, sys, zlib, json
ROOT = os.path.dirname(os.path.dirname(os.path.abspath(__file__)))
REPO = "/repo"
SRC = os.path.join(REPO, "statime", "src")

KINDS = [
    ("unwrap", r"\.unwrap\(\)|\.expect\("),
    ("assert", r"\b(?:debug_)?assert(?:_eq|_ne)?!"),
    ("unreachable", r"\b(?:unreachable|panic|todo|unimplemented)!"),
    ("index", r"[\w\)\]]\[[^\]\n]*\]"),
    ("slicefn", r"\.(?:split_at(?:_mut)?|copy_from_slice|chunks_exact|swap_remove|remove|insert)\("),
    ("push", r"\.push\(|\.collect\(\)|\.collect::<"),
    ("clamp", r"\.clamp\("),
    ("durfloat", r"\.mul_f64\(|from_secs_f64\(|from_secs_f32\("),
    ("tofixed", r"\.to_fixed(?:::<[^>]*>)?\(|\.az::<|\.to_num(?:::<[^>]*>)?\(|lossless_try_into|from_fixed_nanos\(|from_seconds\(|from_log_interval\(|from_interval\("),
    ("cast", r"\bas\s+(?:u8|u16|u32|u64|u128|usize|i8|i16|i32|i64|i128|isize)\b"),
    ("arith", r"(?<![=<>!&|+\-*/%^.])(?:\+=|-=|\*=|/=|<<=|<<|[+*/%]|(?<![\w\)\]]\s)(?<=[\w\)\]])\s*-)(?![=>])"),
    ("lock", r"\.with_ref\(|\.with_mut\("),
]

def strip_tests(text):
    m = re.search(r"#\[cfg\(test\)\]\s*mod\s+\w+\s*\{", text)
    return text[:m.start()] if m else text

def strip_comments_strings(text):
    text = re.sub(r"//[^\n]*", "", text)
    text = re.sub(r"/\*.*?\*/", "", text, flags=re.S)
    text = re.sub(r'"(?:\\.|[^"\\])*"', '""', text)
    return text

def functions(text):
    """yield (name, body) for every fn with a body; nested fns are part of their parent."""
    out = []
    for m in re.finditer(r"\bfn\s+(\w+)\s*(?:<[^{;]*?>)?\s*\(", text):
        i = m.end()
        # find the body brace (skip the signature)
        depth = 1
        while i < len(text) and depth:
            depth += text[i] == "("
            depth -= text[i] == ")"
            i += 1
        j = i
        while j < len(text) and text[j] not in "{;":
            j += 1
        if j >= len(text) or text[j] == ";":
            continue
        k = j + 1
        depth = 1
        while k < len(text) and depth:
            depth += text[k] == "{"
            depth -= text[k] == "}"
            k += 1
        out.append((m.group(1), m.start(), text[j:k]))
    # drop functions nested in an earlier function's body
    res, end = [], -1
    for name, start, body in out:
        if start < end:
            continue
        res.append((name, body))
        end = start + len(body)
    return res

def sites(body):
    found = []
    for kind, pat in KINDS:
        for m in re.finditer(pat, body):
            found.append((m.start(), kind, re.sub(r"\s+", " ", m.group(0)).strip()))
    found.sort()
    return [(k, t) for _, k, t in found]

def scan():
    inv = []
    for d, _, fs in sorted(os.walk(SRC)):
        for f in sorted(fs):
            if not f.endswith(".rs"):
                continue
            path = os.path.join(d, f)
            rel = os.path.relpath(path, REPO)
            text = strip_comments_strings(strip_tests(open(path).read()))
            seen = {}
            for name, body in functions(text):
                ss = sites(body)
                n = seen.get(name, 0)
                seen[name] = n + 1
                key = "%s::%s#%d" % (rel, name, n)
                fp = zlib.crc32(json.dumps(ss).encode())
                panics = [s for s in ss if s[0] != "lock"]
                locks = [s for s in ss if s[0] == "lock"]
                inv.append((key, len(panics), len(locks), fp, ss))
    return inv

def coq_list(inv, name, comment):
    lines = ["(** %s *)" % comment, "From Coq Require Import ZArith List.", "Import ListNotations.", "Open Scope Z_scope.", "",
             "(* (key hash, panic-capable sites, lock sites, fingerprint) *)",
             "Definition %s : list (Z * Z * Z * Z) := [" % name]
    rows = []
    for key, np, nl, fp, ss in inv:
        rows.append("  (%d, %d, %d, %d)  (* %s *)" % (zlib.crc32(key.encode()), np, nl, fp, key))
    lines.append(";\n".join(rows))
    lines.append("].")
    return "\n".join(lines) + "\n"

def write_if_changed(path, text):
    try:
        if open(path).read() == text:
            return
    except FileNotFoundError:
        pass
    os.makedirs(os.path.dirname(path), exist_ok=True)
    open(path, "w").write(text)

def main():
    inv = scan()
    if not inv:
        raise SystemExit("gen_sites: nothing found")
    write_if_changed(os.path.join(ROOT, "coq", "Generated", "PanicSites.v"),
                     coq_list(inv, "src_sites", "GENERATED by translate/gen_sites.py from /repo's working tree. Do not edit."))
    if "--bless" in sys.argv:
        write_if_changed(os.path.join(ROOT, "coq", "Port", "SiteTable.v"),
                         coq_list(inv, "reviewed_sites", "Reviewed inventory (translate/gen_sites.py --bless); see translate/site_review.md for the per-function discharge notes."))
        with open(os.path.join(ROOT, "translate", "site_inventory.json"), "w") as f:
            json.dump([{"fn": k, "panic_sites": np, "lock_sites": nl, "sites": ss} for k, np, nl, fp, ss in inv], f, indent=0)
    print("gen_sites: %d functions, %d panic-capable sites, %d lock sites" % (
        len(inv), sum(x[1] for x in inv), sum(x[2] for x in inv)))
    return 0

if __name__ == "__main__":
    sys.exit(main())
