#!/usr/bin/env python3
"""Translator: statime-linux/src/metrics/format.rs  ->  coq/Generated/MetricTable.v

Regenerated on every run of ./check C19.  Extracts, in serving order
(format_state and the per-data-set functions it calls):

  * every `format_metric(w, "name", "help", MetricType::T, unit, measurements)`
    call: name, help text, unit, type, the source expression(s) of the value
    (`value: <expr>` of the Measurement literals feeding the call), whether the
    value goes through `format_bool!`, the enclosing function and an enclosing
    `if let` condition (the metric is only served when it holds);
  * the `format_bool!` macro arms (what `true` / `false` are published as);
  * `Unit::as_str`, `MetricType::as_str`, the `statime_` name prefix;
  * the variant -> primitive tables of ClockAccuracy / TimeSource
    (statime/src/datastructures/common/*.rs: `to_primitive`) and the port state
    discriminants (observability/port.rs), which the formatter publishes.

The translator only transcribes; meaning is assigned by the hand-written
classification in coq/Obs/MetricSpec.v and checked by theorems there.
"""
import os
import re
import sys

REPO = os.environ.get("SV_REPO_OVERRIDE", "/repo")      # override: test hook for mutation experiments
FORMAT_RS = os.path.join(REPO, "statime-linux/src/metrics/format.rs")
CLOCK_ACC_RS = os.path.join(REPO, "statime/src/datastructures/common/clock_accuracy.rs")
TIME_SRC_RS = os.path.join(REPO, "statime/src/datastructures/common/time_source.rs")
PORT_RS = os.path.join(REPO, "statime/src/observability/port.rs")
OUT = os.path.join(os.path.dirname(os.path.dirname(os.path.abspath(__file__))), "coq", "Generated", "MetricTable.v")


class TranslateError(Exception):
    pass


def strip_comments(src):
    out, i, n = [], 0, len(src)
    while i < n:
        c = src[i]
        if src.startswith("//", i):
            while i < n and src[i] != "\n":
                i += 1
        elif src.startswith("/*", i):
            j = src.find("*/", i + 2)
            i = n if j < 0 else j + 2
        elif c == '"':
            j = i + 1
            while j < n and src[j] != '"':
                j += 2 if src[j] == "\\" else 1
            out.append(src[i:j + 1])
            i = j + 1
        elif c == "'" and i + 2 < n and (src[i + 2] == "'" or (src[i + 1] == "\\" and src.find("'", i + 2) - i <= 4)):
            j = src.find("'", i + 2 if src[i + 1] != "\\" else i + 3)
            out.append(src[i:j + 1])
            i = j + 1
        else:
            out.append(c)
            i += 1
    return "".join(out)


def match_close(src, i, open_c="(", close_c=")"):
    """src[i] == open_c; returns index of the matching close (string literals skipped)."""
    depth, n = 0, len(src)
    while i < n:
        c = src[i]
        if c == '"':
            i += 1
            while i < n and src[i] != '"':
                i += 2 if src[i] == "\\" else 1
        elif c == "'" and i + 2 < n and src[i + 2] == "'":
            i += 2
        elif c == "'" and i + 3 < n and src[i + 1] == "\\" and src[i + 3] == "'":
            i += 3
        elif c == open_c:
            depth += 1
        elif c == close_c:
            depth -= 1
            if depth == 0:
                return i
        i += 1
    raise TranslateError("unbalanced %s" % open_c)


def split_top(s, sep=","):
    parts, depth, cur, i, n = [], 0, [], 0, len(s)
    while i < n:
        c = s[i]
        if c == '"':
            j = i + 1
            while j < n and s[j] != '"':
                j += 2 if s[j] == "\\" else 1
            cur.append(s[i:j + 1])
            i = j + 1
            continue
        if c in "([{":
            depth += 1
        elif c in ")]}":
            depth -= 1
        if c == sep and depth == 0:
            parts.append("".join(cur))
            cur = []
        else:
            cur.append(c)
        i += 1
    if "".join(cur).strip():
        parts.append("".join(cur))
    return [p.strip() for p in parts]


def norm(s):
    s = re.sub(r"\s+", " ", s).strip()
    s = re.sub(r"\s+\.", ".", s)          # method chains broken over lines
    s = re.sub(r",\s*\}", " }", s)        # trailing comma of the last match arm
    return s


def rust_str(lit):
    lit = lit.strip()
    if not (lit.startswith('"') and lit.endswith('"')):
        raise TranslateError("expected a string literal, got %r" % lit[:60])
    body = lit[1:-1]
    out, i = [], 0
    while i < len(body):
        if body[i] == "\\":
            nxt = body[i + 1]
            if nxt == "\n":          # line continuation
                i += 2
                while i < len(body) and body[i] in " \t\n":
                    i += 1
                continue
            out.append({"n": "\n", "r": "\r", "t": "\t", "\\": "\\", '"': '"', "0": "\0"}.get(nxt, nxt))
            i += 2
        else:
            out.append(body[i])
            i += 1
    return "".join(out)


def coq_str(s):
    for ch in s:
        if ord(ch) < 32 or ord(ch) > 126:
            raise TranslateError("non-printable character in %r" % s)
    return '"' + s.replace('"', '""') + '"'


def functions(src):
    """name -> (body text, start offset) for every `fn name(...) ... { body }`."""
    res = {}
    for m in re.finditer(r"\bfn\s+([A-Za-z_]\w*)\s*(<[^>{]*>)?\s*\(", src):
        p = src.index("(", m.end() - 1)
        q = match_close(src, p)
        b = src.find("{", q)
        semi = src.find(";", q)
        if b < 0 or (0 <= semi < b):
            continue
        e = match_close(src, b, "{", "}")
        res[m.group(1)] = (src[b + 1:e], b + 1)
    return res


def value_exprs(text):
    """All `value: <expr>` initialisers (top-level expression up to `,` or `}`)."""
    vals = []
    for m in re.finditer(r"\bvalue\s*:", text):
        i, depth, n = m.end(), 0, len(text)
        j = i
        while j < n:
            c = text[j]
            if c == '"':
                j += 1
                while j < n and text[j] != '"':
                    j += 2 if text[j] == "\\" else 1
            elif c in "([{":
                depth += 1
            elif c in ")]}":
                if depth == 0:
                    break
                depth -= 1
            elif c == "," and depth == 0:
                break
            j += 1
        vals.append(norm(text[i:j]))
    return vals


def enclosing_condition(body, pos):
    """Header of the innermost block of `body` that is open at `pos` ('' at top level)."""
    stack, i = [], 0
    while i < pos:
        c = body[i]
        if c == '"':
            i += 1
            while i < pos and body[i] != '"':
                i += 2 if body[i] == "\\" else 1
        elif c == "{":
            k = i - 1
            while k >= 0 and body[k] not in ";{}":
                k -= 1
            stack.append(norm(body[k + 1:i]))
        elif c == "}":
            if stack:
                stack.pop()
        elif c == "(":                       # skip argument lists (closures, struct literals inside)
            try:
                e = match_close(body, i)
            except TranslateError:
                e = pos
            if e >= pos:
                return stack[-1] if stack else ""
            i = e
        i += 1
    return stack[-1] if stack else ""


def metric_calls(fn_name, body):
    rows, prev_end = [], 0
    for m in re.finditer(r"\bformat_metric\s*\(", body):
        p = m.end() - 1
        q = match_close(body, p)
        args = split_top(body[p + 1:q])
        if len(args) != 6:
            raise TranslateError("format_metric call in %s with %d arguments" % (fn_name, len(args)))
        name, help_, mtype, unit = rust_str(args[1]), rust_str(args[2]), norm(args[3]), norm(args[4])
        mt = re.fullmatch(r"MetricType::(\w+)", mtype)
        if not mt:
            raise TranslateError("metric type %r" % mtype)
        if unit == "None":
            u = None
        else:
            mu = re.fullmatch(r"Some\(\s*Unit::(\w+)\s*\)", unit)
            if not mu:
                raise TranslateError("unit %r" % unit)
            u = mu.group(1)
        srcs = value_exprs(body[prev_end:q])
        if not srcs:
            raise TranslateError("no `value:` expression feeds metric %s" % name)
        is_bool = [bool(re.match(r"format_bool!\s*\(", s)) for s in srcs]
        if any(is_bool) and not all(is_bool):
            raise TranslateError("metric %s mixes boolean and other values" % name)
        clean = []
        for s in srcs:
            mb = re.fullmatch(r"format_bool!\s*\((.*)\)", s)
            clean.append(norm(mb.group(1)) if mb else s)
        rows.append({"name": name, "help": help_, "type": mt.group(1), "unit": u, "src": clean,
                     "bool": all(is_bool), "group": fn_name, "cond": enclosing_condition(body, m.start())})
        prev_end = q
    return rows


def match_arms(body, head_re):
    m = re.search(head_re, body)
    if not m:
        raise TranslateError("no match expression %s" % head_re)
    b = body.index("{", m.end() - 1)
    e = match_close(body, b, "{", "}")
    arms = []
    for a in split_top(body[b + 1:e]):
        if "=>" in a:
            l, r = a.split("=>", 1)
            arms.append((norm(l), norm(r)))
    return arms


def int_lit(s):
    s = s.replace("_", "")
    return int(s, 16) if s.lower().startswith("0x") else int(s)


def generate():
    src = strip_comments(open(FORMAT_RS).read())
    fns = functions(src)
    if "format_state" not in fns or "format_metric" not in fns:
        raise TranslateError("format_state / format_metric not found")
    # serving order: walk format_state
    body, _ = fns["format_state"]
    events = []
    for m in re.finditer(r"\b(format_metric|format_\w+_ds)\s*\(", body):
        events.append((m.start(), m.group(1)))
    rows = []
    direct = metric_calls("format_state", body)
    di = 0
    for _, callee in events:
        if callee == "format_metric":
            rows.append(direct[di])
            di += 1
        else:
            if callee not in fns:
                raise TranslateError("format_state calls unknown %s" % callee)
            rows += metric_calls(callee, fns[callee][0])
    if not rows:
        raise TranslateError("no metrics found")
    tail = re.findall(r'w\.write_str\(\s*("(?:[^"\\]|\\.)*")\s*\)', body)
    trailer = rust_str(tail[-1]) if tail else ""

    # format_bool!
    mm = re.search(r"macro_rules!\s*format_bool\s*\{", src)
    if not mm:
        raise TranslateError("format_bool! not found")
    mb = src[mm.end() - 1:match_close(src, mm.end() - 1, "{", "}")]
    arms = dict(match_arms(mb, r"match\s+\$value\s*\{"))
    if set(arms) != {"true", "false"}:
        raise TranslateError("format_bool! arms %r" % arms)
    enc_true, enc_false = int_lit(arms["true"]), int_lit(arms["false"])

    # Unit / MetricType strings
    def as_str_table(type_name):
        m = re.search(r"impl\s+%s\s*\{" % type_name, src)
        if not m:
            raise TranslateError("impl %s not found" % type_name)
        ib = src[m.end() - 1:match_close(src, m.end() - 1, "{", "}")]
        t = []
        for l, r in match_arms(ib, r"match\s+self\s*\{"):
            ml = re.fullmatch(r"%s::(\w+)" % type_name, l)
            if not ml:
                raise TranslateError("arm %r of %s::as_str" % (l, type_name))
            t.append((ml.group(1), rust_str(r)))
        return t
    units = as_str_table("Unit")
    mtypes = as_str_table("MetricType")

    fm = fns["format_metric"][0]
    pm = re.search(r'format!\(\s*"(\w*)\{\}_\{\}"', fm)
    pm2 = re.search(r'format!\(\s*"(\w*)\{\}"', fm)
    if not pm or not pm2 or pm.group(1) != pm2.group(1):
        raise TranslateError("metric name prefix not recognised")
    prefix = pm.group(1)

    # enum primitive tables
    def primitive_table(path, type_name):
        s = strip_comments(open(path).read())
        f = functions(s)
        if "to_primitive" not in f:
            raise TranslateError("to_primitive not found in %s" % path)
        unit_rows, param_rows = [], []
        for l, r in match_arms(f["to_primitive"][0], r"match\s+self\s*\{"):
            ml = re.fullmatch(r"Self::(\w+)", l)
            mp = re.fullmatch(r"Self::(\w+)\((\w+)\)", l)
            if ml:
                unit_rows.append((ml.group(1), int_lit(r)))
            elif mp:
                mr = re.fullmatch(r"(0x[0-9a-fA-F]+|\d+)\s*\+\s*%s" % mp.group(2), r)
                if mr:
                    param_rows.append((mp.group(1), int_lit(mr.group(1))))
                elif r == mp.group(2):
                    param_rows.append((mp.group(1), 0))
                else:
                    raise TranslateError("arm %s => %s of %s" % (l, r, type_name))
            else:
                raise TranslateError("arm %r of %s::to_primitive" % (l, type_name))
        return unit_rows, param_rows
    ca_unit, ca_param = primitive_table(CLOCK_ACC_RS, "ClockAccuracy")
    ts_unit, ts_param = primitive_table(TIME_SRC_RS, "TimeSource")

    ps = strip_comments(open(PORT_RS).read())
    mps = re.search(r"pub\s+enum\s+PortState\s*\{", ps)
    if not mps:
        raise TranslateError("PortState not found")
    pb = ps[mps.end():match_close(ps, mps.end() - 1, "{", "}")]
    port_states = []
    for a in split_top(pb):
        ma = re.fullmatch(r"(\w+)\s*=\s*(\w+)", norm(a))
        if not ma:
            raise TranslateError("PortState variant %r" % a)
        port_states.append((ma.group(1), int_lit(ma.group(2))))

    o = []
    o.append("(** GENERATED by translate/gen_metric_table.py from /repo/statime-linux/src/metrics/format.rs")
    o.append("    (and the to_primitive tables of statime).  Do not edit. *)")
    o.append("From Coq Require Import String List ZArith.")
    o.append("Import ListNotations.")
    o.append("Local Open Scope string_scope.")
    o.append("Local Open Scope Z_scope.")
    o.append("")
    o.append("Inductive munit := Seconds | Nanoseconds" + "".join(" | U_%s" % n for n, _ in units if n not in ("Seconds", "Nanoseconds")) + ".")
    o.append("Inductive mtype := Gauge | Counter" + "".join(" | T_%s" % n for n, _ in mtypes if n not in ("Gauge", "Counter")) + ".")
    o.append("")
    o.append("Record metric := mkMetric {")
    o.append("  m_name : string;          (* base name, without prefix and unit suffix *)")
    o.append("  m_help : string;")
    o.append("  m_unit : option munit;")
    o.append("  m_type : mtype;")
    o.append("  m_src : list string;      (* source expression(s) of the published value *)")
    o.append("  m_bool : bool;            (* value goes through format_bool! *)")
    o.append("  m_group : string;         (* function of format.rs that serves it *)")
    o.append("  m_cond : string           (* enclosing condition, \"\" = always served *)")
    o.append("}.")
    o.append("")
    o.append("Definition metric_table : list metric := [")
    lines = []
    for r in rows:
        u = "None" if r["unit"] is None else "(Some %s)" % (r["unit"] if r["unit"] in ("Seconds", "Nanoseconds") else "U_" + r["unit"])
        t = r["type"] if r["type"] in ("Gauge", "Counter") else "T_" + r["type"]
        lines.append("  mkMetric %s\n    %s\n    %s %s [%s] %s %s %s" % (
            coq_str(r["name"]), coq_str(r["help"]), u, t, "; ".join(coq_str(s) for s in r["src"]),
            "true" if r["bool"] else "false", coq_str(r["group"]), coq_str(r["cond"])))
    o.append(";\n".join(lines))
    o.append("].")
    o.append("")
    o.append("(* format_bool!: what `true` / `false` are published as *)")
    o.append("Definition bool_enc_true : Z := %d." % enc_true)
    o.append("Definition bool_enc_false : Z := %d." % enc_false)
    o.append("")
    o.append("Definition name_prefix : string := %s." % coq_str(prefix))
    o.append("Definition trailer : string := %s." % coq_str(trailer.rstrip("\n")))
    o.append("Definition unit_str (u : munit) : string :=\n  match u with\n" + "".join(
        "  | %s => %s\n" % (n if n in ("Seconds", "Nanoseconds") else "U_" + n, coq_str(s)) for n, s in units) + "  end.")
    o.append("Definition mtype_str (t : mtype) : string :=\n  match t with\n" + "".join(
        "  | %s => %s\n" % (n if n in ("Gauge", "Counter") else "T_" + n, coq_str(s)) for n, s in mtypes) + "  end.")
    o.append("")

    def tbl(name, rows_):
        return "Definition %s : list (string * Z) := [\n  %s\n]." % (name, ";\n  ".join("(%s, %d)" % (coq_str(n), v) for n, v in rows_))
    o.append("(* variant -> to_primitive(); parametrised variants: variant -> base (value = base + argument) *)")
    o.append(tbl("clock_accuracy_units", ca_unit))
    o.append(tbl("clock_accuracy_params", ca_param))
    o.append(tbl("time_source_units", ts_unit))
    o.append(tbl("time_source_params", ts_param))
    o.append(tbl("port_state_table", port_states))
    o.append("")
    return "\n".join(o)


def main():
    text = generate()
    os.makedirs(os.path.dirname(OUT), exist_ok=True)
    try:
        if open(OUT).read() == text:
            return 0
    except FileNotFoundError:
        pass
    with open(OUT, "w") as f:
        f.write(text)
    return 0


if __name__ == "__main__":
    try:
        sys.exit(main())
    except TranslateError as e:
        sys.stderr.write("gen_metric_table: %s\n" % e)
        sys.exit(1)
