#!/bin/sh
# Builds the whole framework from files on disk, offline.
set -e
cd "$(dirname "$0")"
export CARGO_NET_OFFLINE=true
python3 - <<'PY'
import sys, os
sys.path.insert(0, "lib")
import vlib
for name in sorted(os.listdir("translate")) if os.path.isdir("translate") else []:
    if name.startswith("gen_") and name.endswith(".py"):
        rc, out = vlib.sh([sys.executable, os.path.join("translate", name)])
        print(name, "rc=%d" % rc, out[-500:])
vlib.regen_coqproject()
PY
(cd coq && timeout 7000 make -k -j16 2>&1 | tail -30) || echo "WARNING: some Coq files did not build"
cp /repo/Cargo.lock harness/Cargo.lock
(cd harness && CARGO_TARGET_DIR=../.cache/target RUSTFLAGS="--cfg statime_verif" cargo build --offline 2>&1 | tail -5)
(cd harness && CARGO_TARGET_DIR=../.cache/target RUSTFLAGS="--cfg statime_verif" cargo build --offline --release 2>&1 | tail -5)
echo setup done
