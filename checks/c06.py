import subprocess, sys, os
from vlib import standard_check, ROOT
import portcheck

META = {
    "property_id": "C06",
    "technique": "Coq invariants over the foreign-master-list model (selection needs >= 2 stored Announces; stored Announces never own identity / >= 255 steps; expiry by ageing) with the constants regenerated from the source + executable oracle ok_C06 evaluated in Coq on implementation traces + trace correspondence",
    "category": "proof",
    "text": "Whole histories: C06_main - for every valid set-up and EVERY valid event list the COMPLETE oracle ok_C06 accepts the model's own trace. Walk conjunct (C06_walk_main): slave of a parent after a BMCA run only with >= 2 Announces of that parent within the foreign-master time window (in BMCA runs), passive by BMCA only with such a master or under the multiport rule, no call outside a BMCA run makes a port slave (ok_C06 implies it: C06_oracle_implies_walk). Liveness half (C06_steady_main): on every steady history (one better master announcing before every BMCA run with consecutive sequence ids, also across 65535 -> 0) every BMCA run from the second Announce on leaves the port slave of that master. Proved for every foreign master list (hence after every history): a BMCA run selects an Erbest only from a master with at least two stored Announces; registration, ageing and selection preserve the invariant that stored Announces are filed under their sender, never carry the own clock identity and never report stepsRemoved >= 255; after n silent BMCA runs with n*bmca_interval >= 4 announce intervals no Announce of a master is left. THRESHOLD = 2 and WINDOW = 4 are read from foreign_master.rs on every run (coq/Generated/Consts.v) and tied to the model by proof. History level (necessary condition for becoming/staying slave or passive in terms of received Announces within the window, measured in BMCA runs; steady single master never dropped across 65535->0) is the executable oracle ok_C06 evaluated in Coq on implementation traces.",
    "design_ref": "DESIGN.md section 6 (C06)",
    "level_note": "Theorems about Port/Bmc.v (closed under the global context). 'Two Announce messages' is read as two receptions (a duplicated frame counts twice: the code accepts a repeated sequence id), see DESIGN. Not proved: that stored records correspond one-to-one to distinct receptions (ghost arrival indices), and the never-dropped half for more than one master; both are checked on traces only. Beyond 8 masters only the necessary condition is claimed.",
}


def _consts():
    rc = subprocess.call([sys.executable, os.path.join(ROOT, "translate", "gen_consts.py")])
    if rc != 0:
        raise RuntimeError("gen_consts.py failed")


S = portcheck.make(
    "C06", "Port.OracleC06",
    [("c06", "debug", 400, 8000), ("c06", "release", 150, 3000), ("mix", "debug", 150, 3000)],
    rule="arrival patterns of 1,2,3 or 9 masters over 8-20 BMCA runs: present/absent per interval, duplicates, stale and far-ahead sequence ids, receipt timeouts, own-identity announces, 0-2 BMCA runs per interval, 1-2 ports; a quarter of the cases are steady single-master histories starting near sequence id 65535 or 32767; class = mode : outcome : masters : ports : kinds : states",
    trivial=(),
)
S.translators = [_consts]


def run(tier, seed, replay=None):
    return standard_check(S, tier, seed, replay)
