from vlib import Spec, standard_check

META = {
    "property_id": "C16",
    "technique": "Coq proof (lia over unbounded Z bit patterns) of the fixed-point time model + differential correspondence of the model against the public Time/Duration API (debug and release)",
    "category": "proof",
    "text": "Theorems C16_main/C16_wire_roundtrip/C16_add_sub/C16_diff/C16_interval_roundtrip/C16_duration_to_interval_floor/C16_log_interval are proved in Coq for every bit pattern (no bound) about a hand-written Gallina model of statime::time and the wire timestamp conversions; the model is tied to the code on every run by executing the same operations through the public Rust API (debug build with overflow checks, release build without) and comparing bit patterns in Coq; the executable oracle ok_C16 is also evaluated on the implementation's own outputs.",
    "design_ref": "DESIGN.md section 6 (C16)",
    "level_note": "Trusted: Coq 8.16.1 kernel + vm_compute; hand-written model of fixed 1.31 arithmetic (validated, not verified); Rust harness + generators; theorems are closed under the global context (no axioms). F18 (from_log_interval n>=66 overflows) is a recorded known finding.",
}


class S(Spec):
    prop = "C16"
    prop_file = "Properties/C16.v"
    case_module = "Time.TimeCases"
    model_targets = ["Time/TimeCases.vo"]
    bins = [("c16", "debug", 3000, 200000, []), ("c16", "release", 1500, 100000, [])]
    allowed_axioms = set()
    trusted_base = [
        "Coq 8.16.1 kernel, coqc, vm_compute (no native_compute)",
        "no axioms: every theorem of Properties/C16.v is closed under the global context",
        "hand-written model Time/TimeModel.v of fixed-1.31 U96F32/I96F32/I48F16 semantics (modelled, validated by this run's correspondence)",
        "harness/src/bin/c16.rs (drives the public Time/Duration API from bit patterns) and lib/vlib.py",
    ]
    assumptions = [
        "fixed-point semantics of the `fixed` crate are as modelled (checked by correspondence only)",
        "2^n * 1e9 is computed exactly by f64 powi/mul for every i8 n (argued in TimeModel.v, checked by correspondence for all 256 values)",
    ]
    rule = ("cases are drawn per index from boundary lattices (second/nanosecond carries, 2^32/2^63/2^64 ns, PTP range end, "
            "sign changes, extremes) plus uniform values; all 256 log intervals are enumerated; a case class is "
            "(operation kind, panicked or not, log-interval value); all classes are non-trivial")
    shard = 500


def run(tier, seed, replay=None):
    return standard_check(S, tier, seed, replay)
