from vlib import standard_check
import portcheck

META = {
    "property_id": "C12",
    "technique": "Coq lemmas on the port model (every transition requests the timers of the new state; firing re-arms with the exact interval) + timed-host oracle ok_C12 (timer book, virtual clock, safety and bounded liveness) evaluated in Coq on implementation traces + trace correspondence",
    "category": "proof",
    "text": "Whole histories: C12_walk_main - for every valid set-up and EVERY valid event list the safety walk of the oracle (walk12: after every call the timers the port states rely on are armed, F22 flagged) never rejects the model's own trace. The bounded-liveness conjuncts (final_ok, dreq_cadence_ok) are evaluated on traces only; their logic is proved for every history: C12_silence_settles (from any reachable state, silent events with enough BMCA runs for four announce intervals empty every foreign-master list and lapse every multiport block), C12_settled_step / C12_settled_run / C12_settled_reach_master (from then on MASTER stays MASTER, a BMCA run makes every port MASTER that is neither FAULTY nor LISTENING, an announce receipt timeout makes every non-faulty port MASTER), C12_announce_gap / C12_sync_gap / C12_delay_request_gap (between two firings of the announce / sync / delay request timer of a port that stays master / slave of the same master nothing touches that timer, so an obedient next firing comes one configured interval later, resp. at most two delay request intervals later: C12_delay_request_duration_bound); what stays trace-only is the arithmetic of the obedient host's schedule. Proved on the model for every state and configuration: the announce receipt timeout yields MASTER with announce/sync timers due at once (LISTENING with the receipt timer for slave-only instances; a faulty port stays faulty with the timer re-armed); Sync/Announce emission re-arms the timer with exactly the configured interval and keeps the port master (so emissions continue at the configured cadence); an E2E slave re-arms the delay request timer; BMCA transitions to SLAVE / MASTER carry the timer requests of the new state. The stuck state F22 is exhibited by a kernel-evaluated model run (theorem C12_timer_sane_refuted) and is a recorded known finding. History level: a simulated host that obeys the timer actions continues arbitrary prefixes with silence, with a steady better master, or both; the oracle ok_C12 keeps the timer book and a virtual clock and checks after every call that the timers the port state relies on are armed, and at the end of a silent tail (longer than the stated bound) that every eligible port is MASTER and its last Announce/Sync emissions are exactly one interval apart; Delay_Req cadence below two intervals.",
    "design_ref": "DESIGN.md section 6 (C12)",
    "level_note": "Theorems closed under the global context. The bounded-liveness statements over histories (silence_to_master, steady_better_master_to_slave) are not proved in Coq: they are evaluated by the oracle on implementation traces under the simulated host (time exact in ns, RNG scripted). The simulated host mirrors handle_actions of statime-linux/src/main.rs (one deadline per timer, immediate transmit timestamps, optional loss).",
}

S = portcheck.make(
    "C12", "Port.OracleC12",
    [("c12", "debug", 110, 3000), ("c12", "release", 30, 1000)],
    rule="random prefix of host calls (no time passing), then a host that obeys the timer actions in simulated time: total silence, a steadily announcing/syncing better master answering delay requests, or that master falling silent; lost transmit timestamps in a quarter of the cases; one case in eight is the directed peer-delay fault/recovery scenario; class = outcome : mode : ports : flags : final states : states visited",
    shard=10,
)


def run(tier, seed, replay=None):
    return standard_check(S, tier, seed, replay)
