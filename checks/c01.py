from vlib import standard_check
import portcheck

META = {
    "property_id": "C01",
    "technique": "PARTIAL: Coq lemmas for the per-node ingredients (S1 takes stepsRemoved+1, advertised steps = current steps, no parent cycle under +1 labelling, selection soundness) + network-level oracle (converged /\\ stable, figure-level ranking) evaluated in Coq on simulated networks of real PtpInstances, every node's trace compared with the model",
    "category": "proof",
    "text": "Two instances and the wire between them (Inst/TwoNode.v): C01_two_nodes - an instance that is its own grandmaster emits two Announces, a one-port instance that has heard nobody receives exactly those octets and runs the BMCA: its port becomes SLAVE of the sender (PASSIVE if its clockClass is in 1..127) exactly when its own data set loses the comparison of Figures 34/35, with parentDS = the sender's port, grandmaster = the sender's clock, stepsRemoved 1; C01_two_views_opposite - the two directions never both demote or both keep; the premises hold after init and after every silent history (C01_quiet_init / C01_quiet_run); C01_two_clock_network - two clocks on one link, for every pair of valid one-port configurations with different identities: start, receipt timeout, two Announces each, each hears the octets of the other, BMCA: exactly one port stays MASTER (the clock whose data set wins Figures 34/35), the other is SLAVE or PASSIVE. Partial by design (DESIGN section 6, C01). Proved for every node of every network: a slave port's decision installs the selected Announce's grandmaster with stepsRemoved+1 and the sender as parent; a master port advertises exactly the node's current stepsRemoved and grandmaster; a labelling that grows by one along every parent link admits no parent cycle and reaches a root within stepsRemoved hops; each node's Ebest/Erbest is a candidate not worse than any other. NOT proved: that networks reach such a steady state (convergence, bounded time, no flapping). That part is evaluated: networks of 2-4 real PtpInstances (pair, line, ring, shared segment, star, double attachment) under a synchronous round schedule with strict rankings by each comparison attribute, an optional clockClass<128 best node and slave-only leaf, and the single-fault scripts (cut, cut-and-restore, silence, quality change); the oracle ok_C01 checks, per connected component, the unique grandmaster, one slave port per other node with parent = a master port on the same segment and stepsRemoved = parent's + 1, exactly one master port per segment, and stability over the last 6 BMCA runs. Each node's full trace is also compared with the Coq model.",
    "design_ref": "DESIGN.md section 6 (C01)",
    "level_note": "The convergence statement itself is exploration (bounded, synchronous schedule), not a theorem; asynchronous delays/jitter/BMCA phases are not explored. Slave-only nodes are leaves (they do not relay timing), a clockClass<128 instance that is not the best of its component is known finding F28 (it goes PASSIVE and splits the tree, as IEEE 1588 figure 33 prescribes); kf_C01 accepts such a network only if it passes the whole oracle with those instances treated as ends of the tree. Theorems closed under the global context.",
}

S = portcheck.make(
    "C01", "Inst.NetOracle",
    [("c01", "debug", 60, 1500), ("c01", "release", 20, 500)],
    rule="topology family x deciding attribute (priority1 / clockClass / priority2 / identity) x random strict ranking x optional low-class best node x optional slave-only worst node x fault script in {none, cut, cut-restore, silence, quality}; 14+6n rounds to settle before and after the fault; class = topology : ranking attribute : flags : fault : final port states",
    shard=4,
)


def run(tier, seed, replay=None):
    return standard_check(S, tier, seed, replay)
