from vlib import standard_check
import portcheck

META = {
    "property_id": "C07",
    "technique": "Coq stutter lemmas for every class of ignored traffic + non-interference theorem by induction over histories + two-run oracle (history with and without insertions) evaluated in Coq on implementation traces + trace correspondence",
    "category": "proof",
    "text": "Proved on the port model for every frame, timestamp and port state: frames of another domain/sdoId, other PTP version or malformed; Announces bearing the port's own identity or from outside the acceptable master list; Sync/Follow_Up/Delay_Resp not from the port's selected master or answering someone else's request — each leaves port state, data sets, RNG position and pending actions unchanged and emits nothing but lock reads (stutter). By induction over histories of any length, inserting stuttering events changes neither the final state nor any other event's result. On the implementation, the harness runs each generated history twice (with and without inserted frames of these classes, classified by the oracle itself from the property text and the getters) and ok_C07 requires the run with insertions to be identical, event by event, after erasing the insertions.",
    "design_ref": "DESIGN.md section 6 (C07)",
    "level_note": "Theorems closed under the global context. The Sync/Follow_Up/Delay_Resp lemmas are stated for the port-local remote master; that it always equals parentDS.parentPortIdentity for a slave port (slave_remote_master_eq_parent) and that a slave port's parent is always acceptable to it are invariants checked on traces (the oracle judges by parentDS) but not yet proved.",
}

S = portcheck.make(
    "C07", "Port.OracleC07",
    [("c07", "debug", 350, 6000), ("c07", "release", 120, 2000)],
    rule="base history from the scenario generators (slave exchanges, boundary clock, peer delay, master, mixed); up to 40 frames of the ignorable classes inserted at random positions of the replay, chosen by port state (on slave ports mostly Sync/Follow_Up/Delay_Resp from strangers or for other requesters); class = outcome : insertions : (kind, port state code) pairs",
    shard=25,
)


def run(tier, seed, replay=None):
    return standard_check(S, tier, seed, replay)
