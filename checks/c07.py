from vlib import standard_check
import portcheck

META = {
    "property_id": "C07",
    "technique": "Coq stutter lemmas for every class of ignored traffic + non-interference theorem by induction over histories + two-run oracle (history with and without insertions) evaluated in Coq on implementation traces + trace correspondence",
    "category": "proof",
    "text": "Whole histories: C07_main - for every valid set-up, EVERY valid event list and EVERY set of insertion positions the complete oracle ok_C07 accepts the model's own pair of runs (history with / without the inserted events): an inserted event of an ignorable class produces nothing but lock reads and leaves every getter unchanged, every other event produces exactly what it produces in the base run. C07_ignorable_stutters_reachable: in every reachable state every frame of ANY ignorable class (Announce class included) is a stuttering step; C07_slave_follows_parent: a slave port's selected master always equals parentDS.parentPortIdentity. Proved on the port model for every frame, timestamp and port state: frames of another domain/sdoId, other PTP version or malformed; Announces bearing the port's own identity or from outside the acceptable master list; Sync/Follow_Up/Delay_Resp not from the port's selected master or answering someone else's request — each leaves port state, data sets, RNG position and pending actions unchanged and emits nothing but lock reads (stutter). By induction over histories of any length, inserting stuttering events changes neither the final state nor any other event's result. On the implementation, the harness runs each generated history twice (with and without inserted frames of these classes, classified by the oracle itself from the property text and the getters) and ok_C07 requires the run with insertions to be identical, event by event, after erasing the insertions.",
    "design_ref": "DESIGN.md section 6 (C07)",
    "level_note": "Theorems closed under the global context. The invariants the earlier lemmas assumed are now proved for every reachable state: slave_follows_parent (ParentInv.v) and inst_acc (MainC07b.v: every stored foreign-master record and every slave port's selected master passed the acceptable-master filter and is not the port itself). Not modelled: the network below the port interface.",
}

S = portcheck.make(
    "C07", "Port.OracleC07",
    [("c07", "debug", 350, 6000), ("c07", "release", 120, 2000)],
    rule="base history from the scenario generators (slave exchanges, boundary clock, peer delay, master, mixed); up to 40 frames of the ignorable classes inserted at random positions of the replay, chosen by port state (on slave ports mostly Sync/Follow_Up/Delay_Resp from strangers or for other requesters); class = outcome : insertions : (kind, port state code) pairs",
    shard=25,
)


def run(tier, seed, replay=None):
    return standard_check(S, tier, seed, replay)
