import json
import os
import re

import vlib
from vlib import Spec, standard_check

META = {
    "property_id": "C13",
    "technique": "Coq proofs (primitive binary64 floats, Flocq for the rounding bound) about a bit-faithful Gallina model of statime's KalmanFilter and BasicFilter + differential correspondence of the model against the real filters behind a scripted recording clock (debug and release), commands compared as bit patterns",
    "category": "proof",
    "text": "See Properties/C13.v (model of /repo after fixes 4d80470, 3d2d7f9, b057ba6): C13_freq_cmd_bounded -- along every trajectory (any events, clock replies, length, exp, build mode, ANY estimator state incl. NaN/inf) every frequency command of the Kalman servo is finite with |f| <= max_freq_offset (exact); C13_step_cmd -- steer steps iff not |offset estimate| < threshold and the step is from_seconds(-estimate), otherwise at most one frequency command; C13_demobilize_once / C13_fresh_filter_quiet; C13_basic_finite -- every command of the basic filter is finite from any state; C13_F15_site_removed. The step-magnitude clause is checked by the oracle on implementation traces and by a kernel-evaluated lattice (C13_step_magnitude_grid_partial), not proved in general. The model is tied to the code on every run by feeding identical measurement streams and clock replies to the real filters and to the model (debug and release); the executable oracle ok_C13 is evaluated on the implementation's own command traces; any violation (no known findings remain) is reported as VIOLATION.",
    "design_ref": "DESIGN.md section 6 (C13)",
    "level_note": "Trusted: Coq 8.16.1 kernel + vm_compute; Coq.Floats axioms (binary64 specification of the primitive float operations) and Flocq; hand-written model (validated by correspondence, not verified); libm exp is a parameter of the model (cases where a p-value comes within 1e-9 of a threshold are skipped and counted); Rust harness + generators. The step-magnitude clause is not proved in general (see evidence: not_proved). F12, F13, F15 are fixed in /repo; historic witnesses are kept as C13_prefix_* theorems.",
}

_skips = {"n": 0, "shards": 0}


def _eval_shard_ext(args):
    """Like vlib.eval_shard, but evaluates run_cases_ext (which also counts the cases whose
    comparison is skipped by the exp-threshold rule) and avoids storing the big term in a .vo."""
    workdir, name, module, terms, timeout = args[:5]
    prelude = args[5] if len(args) > 5 else ""
    text = "From SV Require Import %s.\nSet Printing Width 1000000.\nSet Printing Depth 1000000.\n%s\nEval vm_compute in (run_cases_ext [\n%s\n]).\n" % (module, prelude, ";\n".join(terms))
    rc, out = vlib.coq_eval(name, text, timeout=timeout, workdir=workdir)
    if rc != 0:
        return None, out
    # long lists are wrapped by the printer ("( 7, 24)"): normalise before parsing, and never drop an entry silently
    flat = re.sub(r"\s+", " ", out).replace("%Z", "").replace("%N", "")
    flat = flat.replace("( ", "(").replace(" )", ")").replace("[ ", "[").replace(" ]", "]")
    m = re.search(r"= \((\d+), ?\[([^\]]*)\], ?\[([^\]]*)\], ?(\d+)\)", flat)
    if not m:
        return None, out
    total = int(m.group(1))
    mm = [int(x) for x in re.findall(r"-?\d+", m.group(2))]
    bad = [(int(a), int(b)) for a, b in re.findall(r"\(\s*(-?\d+)\s*,\s*(-?\d+)\s*\)", m.group(3))]
    if m.group(3).count("(") != len(bad):
        return None, out
    _skips["n"] += int(m.group(4))
    _skips["shards"] += 1
    return (total, mm, bad), out


# Everything `Print Assumptions` may list for the theorems of Properties/C13.v.  All of it is
# Coq standard library / kernel: none is declared by this development.
PRIMITIVES = {  # kernel primitive types and operations (listed by Print Assumptions, not axioms)
    "PrimFloat.abs", "PrimFloat.add", "PrimFloat.div", "PrimFloat.eqb", "PrimFloat.float", "PrimFloat.frshiftexp",
    "PrimFloat.ldshiftexp", "PrimFloat.leb", "PrimFloat.ltb", "PrimFloat.mul", "PrimFloat.next_up", "PrimFloat.next_down",
    "PrimFloat.normfr_mantissa", "PrimFloat.of_uint63", "PrimFloat.opp", "PrimFloat.sqrt", "PrimFloat.sub",
    "PrimFloat.compare", "PrimFloat.classify",
    "PrimInt63.add", "PrimInt63.eqb", "PrimInt63.int", "PrimInt63.land", "PrimInt63.leb", "PrimInt63.lor", "PrimInt63.lsl",
    "PrimInt63.lsr", "PrimInt63.ltb", "PrimInt63.sub", "PrimInt63.mul", "PrimInt63.div", "PrimInt63.mod", "PrimInt63.lxor",
}
STDLIB_FLOAT_AXIOMS = {"FloatAxioms." + a for a in vlib.FLOAT_AXIOMS}
STDLIB_UINT63_AXIOMS = {"Uint63." + a for a in (
    "add_spec", "sub_spec", "mul_spec", "eqb_correct", "eqb_refl", "leb_spec", "ltb_spec", "lor_spec", "land_spec",
    "lsl_spec", "lsr_spec", "lxor_spec", "of_to_Z", "div_spec", "mod_spec")}
STDLIB_REAL_AXIOMS = {  # classical real numbers, used by Flocq's rounding theory
    "ClassicalDedekindReals.sig_forall_dec", "ClassicalDedekindReals.sig_not_dec",
    "FunctionalExtensionality.functional_extensionality_dep", "Classical_Prop.classic",
}
FILTER_AXIOMS = PRIMITIVES | STDLIB_FLOAT_AXIOMS | STDLIB_UINT63_AXIOMS | STDLIB_REAL_AXIOMS | {"Axioms"}  # "Axioms" = the header line


class S(Spec):
    prop = "C13"
    prop_file = "Properties/C13.v"
    case_module = "Filter.FilterCases"
    model_targets = ["Filter/FilterCases.vo"]
    bins = [("c13", "debug", 1400, 12000, ["--len", "60"]), ("c13", "release", 800, 8000, ["--len", "60"])]
    allowed_axioms = FILTER_AXIOMS
    trusted_base = [
        "Coq 8.16.1 kernel, coqc, vm_compute (no native_compute)",
        "Coq.Floats.FloatAxioms (stdlib axioms specifying the primitive binary64 operations w.r.t. SpecFloat): " + ", ".join(sorted(vlib.FLOAT_AXIOMS)),
        "Flocq 4 (IEEE754.PrimFloat bridge, rounding theory) and the classical real-number axioms it uses (sig_forall_dec, sig_not_dec, functional_extensionality_dep, classic)",
        "hand-written models Filter/KalmanModel.v (with the model-only switch c_f24 = impl_f24_fixed between kalman.rs as it is and kalman.rs after the proposed F24 patch; every C13 theorem holds for both values), Filter/BasicModel.v, Filter/FloatBits.v (fixed<->f64 conversions of the fixed/az crates, f64::clamp/max/signum, Iterator::sum from -0.0): modelled, validated by this run's correspondence",
        "libm exp: a parameter of the model; evaluation uses Filter/FloatBits.exp_eval; streams where a wander p-value lies within 1e-9 (relative) of a decision threshold are not compared and are counted (exp_threshold_skips)",
        "harness/src/bin/c13.rs (plant + recording clock driving the public Filter API) and lib/vlib.py",
    ]
    assumptions = [
        "Coq primitive floats and Rust f64 agree bit-for-bit on + - * / sqrt abs neg and comparisons (IEEE-754 binary64, round to nearest even); checked by every correspondence run",
        "fixed-1.31 / az conversions are as modelled in Filter/FloatBits.v (nearest-even both ways; NaN/inf panic; overflow panics with debug assertions and wraps without)",
        "the clock passed to the filter behaves as a function of the call sequence (scripted replies)",
    ]
    rule = ("each case is one closed-loop stream (4..60 events in the quick tier) for one filter and one configuration; a case class is "
            "(filter, stream family of ten: nominal / equal+backward event times / offsets to 1e9 s / zero variance / mixed kinds / "
            "failing clock / saturating frequency / garbage / lagging or frozen clock / lifecycle, configuration variant, outcome "
            "features: step, slew, saturated, overshoot, non-finite, panic); every class is non-trivial")
    shard = 70


def run(tier, seed, replay=None):
    vlib.eval_shard = _eval_shard_ext
    _skips["n"] = 0
    _skips["shards"] = 0
    if tier == "thorough":
        S.shard = 250
        S.bins = [("c13", "debug", 260, 12000, ["--len", "120"]), ("c13", "release", 140, 8000, ["--len", "120"])]
    rc = standard_check(S, tier, seed, replay)
    if replay:
        return rc
    # add the skip count and the honest list of what is not proved to the evidence
    path = os.path.join(vlib.EVID, "C13.json")
    try:
        ev = json.load(open(path))
        cov = ev.setdefault("coverage", {})
        cov["exp_threshold_skips"] = _skips["n"]
        cov["not_proved"] = [
            "step magnitude >= threshold up to quantisation: checked by the oracle on every implementation trace and by a kernel-evaluated boundary lattice (C13_step_magnitude_grid_partial), not proved in general",
            "absence of panics is not part of C13: a NaN estimator state (F24: zero measurement-noise estimate absorbed onto a zero prior variance -> 1/0; port-producible, e.g. five 0 ns peer delay measurements) makes Duration::from_seconds panic before any command; such streams are generated here and must correspond; they are JUDGED by C03 (checks/c03_filters.py, Filter/C03Filters.v: finding F24, kf=24, theorem C03f_kalman_patched_no_panic for the patched model)",
        ]
        json.dump(ev, open(path, "w"), indent=1)
    except (OSError, ValueError):
        pass
    return rc
