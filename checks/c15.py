from vlib import standard_check
import portcheck

META = {
    "property_id": "C15",
    "technique": "Coq refinement of the announce TLV loop to a FIFO specification (induction over the queue) + size and sender lemmas + loop-discard lemma + executable oracle ok_C15 evaluated in Coq on implementation traces + trace correspondence",
    "category": "proof",
    "text": "Whole histories: C15_main - for every valid set-up and EVERY valid event list the complete oracle ok_C15 accepts the model's own trace (emitted suffix = path-trace TLV + FIFO prefix of the parent's TLVs that fits, decodable by the library's parser; received Announce forwards all propagating TLVs or none, from the parent always unless the path-trace rule discards it; no other call forwards). Proved for provider queues of any length and TLVs of any size: the TLVs a master port appends to its Announce are exactly the FIFO prefix that fits the remaining room, with entries from senders other than the parent and (path trace on) PATH_TRACE TLVs consumed but not forwarded — unmodified, in arrival order, each at most once — and the loop never panics; the encoded TLVs never exceed the room (frame <= MAX_DATA_LEN); an Announce from the parent whose path contains the own identity is discarded with all data sets untouched. History level (TLV suffix of every emitted Announce = path TLV ++ specification; every emitted frame decodes; ForwardTLV actions = the propagating TLVs of the parent's Announce; pathTraceDS follows the parent's path, cleared when absent, discarded on loop or overlong path) is the oracle ok_C15 evaluated in Coq on implementation traces.",
    "design_ref": "DESIGN.md section 6 (C15)",
    "level_note": "The TLV provider handed to every announce timer is the daemon's real statime_linux::tlvforwarder::TlvForwarder (one duplicate per port of one broadcast channel, every ForwardTLV action forwarded to it as in main.rs: per-port duplicates, the forwarding port included, lag beyond the channel capacity of 128 loses the oldest). The model is fed, per announce event, with the queue a faithful forwarder holds at that point (FIFO; head kept while it does not fit; harness/src/port.rs FwdProvider keeps that specification queue beside the real forwarder), so a forwarder that loses, reorders, duplicates or alters a TLV makes the emitted Announce differ from the model's and is judged by ok_C15 on the trace. empty() (ethernet task only) is not exercised: F17 (ethernet task empties the queue when the port IS master) and F16 (an oversize TLV at the head blocks the queue; the property restricts itself to TLVs 'small enough to fit in an Announce at all') remain recorded observations (DESIGN section 7). Repaired and now covered: F3, F4, F5, F14, F23.",
}

S = portcheck.make(
    "C15", "Port.OracleC15",
    [("c15", "debug", 200, 6000), ("c15", "release", 60, 2000), ("mix", "debug", 100, 3000)],
    rule="boundary clock (2-3 ports, path trace on in 2/3 of the cases): port 0 slave of a parent whose Announces carry PATH_TRACE TLVs (0-200 entries, sometimes containing the own identity) and 0-3 further TLVs of propagating / non-propagating / reserved / experimental types with value lengths 0, exactly the room, room-2, room+2, 900-980, 1100 and small; a second master announcing as well; announce timers on the master ports, BMCA, parent take-over; class = outcome : path trace : forwarded TLVs : kinds : states",
    shard=25,
)


def run(tier, seed, replay=None):
    return standard_check(S, tier, seed, replay)
