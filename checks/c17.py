import subprocess, sys, os
from vlib import standard_check, ROOT
import portcheck

META = {
    "property_id": "C17",
    "technique": "Coq lemmas on the lock events of the model (reads only / one write section per update, never nested) + snapshot-atomicity theorem over serial section orders + lock-site inventory translator + logging PtpInstanceStateMutex in every port-level correspondence run, oracle ok_C17 evaluated in Coq",
    "category": "proof",
    "text": "Whole histories: C17_main - for EVERY set-up and EVERY event list (no hypothesis on the events) the model's own trace satisfies the complete oracle ok_C17 (never requested while held, at most one write section per call, data sets change only in a call that has one, reads precede it, a BMCA run is exactly one write section). The model emits an acquisition event exactly where the code calls with_ref/with_mut (22 sites, inventory regenerated from the source each run and proved unchanged). Proved: Announce emission takes only read sections, one per provided TLV, for queues of any length; Announce reception takes at most one read followed by one write section that contains the whole S1 update, and the data sets change only inside it; for every serial order of sections (every interleaving a reader-writer lock admits) each value a reader extracts is the view after a whole number of write sections, so snapshots never mix two updates. On the implementation every port-level run uses a PtpInstanceStateMutex that logs each acquisition with its nesting depth; ok_C17 requires depth 0 everywhere, at most one write section per call, a write section whenever the data sets changed, reads before the write, and a single write section for the whole BMCA.",
    "design_ref": "DESIGN.md section 6 (C17)",
    "level_note": "The section model abstracts std::sync::RwLock: fairness, poisoning and the actual thread scheduler are trusted, not modelled (a Gallina model cannot exhibit them). The lock-shape lemmas cover Announce emission/reception; the other handlers take at most one read section by inspection of the model and are checked on traces. Theorems closed under the global context.",
}


def _sites():
    rc = subprocess.call([sys.executable, os.path.join(ROOT, "translate", "gen_sites.py")], stdout=subprocess.DEVNULL)
    if rc != 0:
        raise RuntimeError("gen_sites.py failed")


S = portcheck.make(
    "C17", "Port.OracleC17",
    [("mix", "debug", 200, 5000), ("c11", "debug", 150, 3000), ("c15", "debug", 80, 2000), ("c08", "release", 150, 3000)],
    rule="all histories of the mixed, boundary-clock, TLV-forwarding and role generators, run over the logging lock; class = the generator's class",
    shard=30,
)
S.translators = [_sites]


def run(tier, seed, replay=None):
    return standard_check(S, tier, seed, replay)
