from vlib import standard_check
import portcheck

META = {
    "property_id": "C14",
    "technique": "Coq theorems on the port model (peer delay formula exact; second responder => Faulty, response unused; faulty port inert and not rescued by the receipt timer) + executable oracle ok_C14 evaluated in Coq on implementation traces + trace correspondence",
    "category": "proof",
    "text": "Whole histories: C14_main - for every valid set-up and EVERY valid event list the complete oracle ok_C14 accepts the model's own trace (exact link delay from one request / one responder; second responder => faulty, nothing measured, contested exchange dead; faulty port inert; faulty left only into Listening through a clean exchange, entered only through a conflict). Found F26 while being proved (repaired). Also proved for all timestamp/correction values (below 2^100 units): the link delay handed to the filter is ((t4-t1)-(t3-t2))/2 truncated at 2^-32 ns, computed from the four stored times of one request id and one responder; a Pdelay_Resp with the request's id from a second identity, during or after the measurement, puts the port into Faulty and produces no measurement; a faulty port emits no Sync/Announce/Follow_Up/Delay_Resp and stays faulty on announce receipt timeout; the faulty state is left (to Listening) exactly when a complete exchange is measured. The history-level statement over all interleavings is the executable oracle ok_C14 (recomputes the formula from the inputs; checks entering/leaving Faulty), evaluated in Coq on the implementation's traces.",
    "design_ref": "DESIGN.md section 6 (C14)",
    "level_note": "Theorems closed under the global context (MainC14.v: coupling cp14 between PeerDelayState and the oracle's record, carried through every handler, the BMCA and every history). Saturating Time arithmetic: as for C09 the oracle judges histories whose corrected timestamps are non-negative. Known finding F22 (port listening without a running receipt timer after recovery) belongs to C12.",
}

S = portcheck.make(
    "C14", "Port.OracleC14",
    [("c14", "debug", 400, 8000), ("c14", "release", 150, 3000), ("mix", "debug", 150, 3000)],
    rule="P2P port (slave of a master in half of the cases): Pdelay_Req timer, transmit timestamps, Pdelay_Resp / Pdelay_Resp_Follow_Up from one or two responders, one- and two-step, follow-up first, duplicates, stale ids, wrong requester, follow-up on the event interface, interleaved with announce receipt timeouts, BMCA, master-role timers, Announces bearing the own clock identity from a lower-numbered port (multiport rule), optionally after a scripted prefix (own Announce, request, two responders => faulty); class = outcome : measurements : kinds : states visited (s2 = faulty); m0 without faulty is trivial",
    trivial=(),
)


def run(tier, seed, replay=None):
    return standard_check(S, tier, seed, replay)
