from vlib import standard_check
import portcheck

META = {
    "property_id": "C08",
    "technique": "Coq lemmas on the port model (emitters guarded by the port state; non-BMCA handlers never create a slave) + role oracle ok_C08 evaluated in Coq on implementation traces + trace correspondence",
    "category": "proof",
    "text": "Proved on the model for all inputs: Sync, Follow_Up, Announce and Delay_Resp are produced only in the MASTER state and an end-to-end Delay_Req only in the SLAVE state (otherwise the handlers return no action and leave the port unchanged); measurement handling and the slave-side message handlers never turn a non-slave port into a slave. History level (at most one slave port after every call; master-only ports never slave; no master port while slave-only is in force since the last BMCA run or from the start; role of every emitted frame, measurement and clock call w.r.t. the state shown before the call) is the executable oracle ok_C08 evaluated in Coq on the implementation's traces for 1-3 port instances in all combinations of master-only / slave-only / E2E / P2P.",
    "design_ref": "DESIGN.md section 6 (C08)",
    "level_note": "Theorems closed under the global context. The instance-level invariant at_most_one_slave over whole histories (needs: distinct port identities, S1 only for the port whose Erbest is Ebest, every other slave port leaves the slave state in the same run) is not yet proved; it is checked on traces by ok_C08. With the recording filter no clock steering call exists; that the Kalman filter does not steer on peer-delay-only measurements is C13's C13_fresh_filter_quiet.",
}

S = portcheck.make(
    "C08", "Port.OracleC08",
    [("c08", "debug", 400, 8000), ("c08", "release", 150, 3000), ("mix", "debug", 150, 3000)],
    rule="1-3 ports, a quarter slave-only instances, a quarter master-only ports; walk over the whole host-call alphabet with qualifying announce pairs from 1-3 masters (better/worse than the own clock), BMCA runs, run-time slave-only switches, timers, transmit timestamps, own-identity announces; class = ports : outcome : so/mo flags : (port, state) pairs visited",
)


def run(tier, seed, replay=None):
    return standard_check(S, tier, seed, replay)
