from vlib import standard_check
import portcheck

META = {
    "property_id": "C08",
    "technique": "Coq instance invariant proved inductive over every host call (at most one slave, master-only never slave, slave-only: no master after the next BMCA run and none later; Port/Inv*.v) + whole-history theorem that the model's own trace satisfies the complete oracle (C08_main) + emitters guarded by the port state + role oracle ok_C08 evaluated in Coq on implementation traces + trace correspondence",
    "category": "proof",
    "text": "Proved for EVERY valid set-up and EVERY sequence of host calls (frames of arbitrary octets, timestamps in [0,2^63 ns), timers, any TLV queue, BMCA runs, run-time slave-only / quality changes): at every reachable state at most one port is slave and a master-only port is not (C08_at_most_one_slave_always); an instance slave-only from the start never has a master port (C08_slave_only_from_start_never_master); after slave-only is switched on, no port is master once the next BMCA run has completed and none becomes master later (C08_slave_only_switch_on); the model's own trace satisfies the COMPLETE oracle ok_C08 for every history (C08_main: states, master-only, slave-only enforcement, role predicates, and per call and port: every emitted frame decodes, master-role frames only from a port that was master, Delay_Req only from the slave port, sync/delay measurements only on the slave port, clock properties only for the port that is slave afterwards). Per handler, for all inputs: Sync, Follow_Up, Announce and Delay_Resp are produced only in the MASTER state and an end-to-end Delay_Req only in the SLAVE state; measurement handling never turns a non-slave port into a slave. On implementation traces the full oracle ok_C08 is evaluated in Coq (incl. role of every emitted frame, measurement and clock call, and Port::is_steering()/is_master() - the predicates statime-linux acts on - agreeing with the port state) for 1-3 port instances in all combinations of master-only / slave-only / E2E / P2P.",
    "design_ref": "DESIGN.md section 6 (C08)",
    "level_note": "Theorems closed under the global context; they are about the hand-written model, tied to the code by the correspondence of complete traces (the oracle ok_C08 that C08_main is about is the function evaluated on implementation traces). Hypotheses of the whole-history theorems: setup_valid (1..65534 ports, documented configuration ranges, wire-representable instance configuration) and event_valid (octets 0..255, timestamps in [0,2^63 ns), timestamp contexts and forwarded TLVs as the library hands them out, representable clock quality). With the recording filter no clock steering call exists; that the Kalman filter does not steer on peer-delay-only measurements is C13's C13_fresh_filter_quiet.",
}

S = portcheck.make(
    "C08", "Port.OracleC08",
    [("c08", "debug", 400, 8000), ("c08", "release", 150, 3000), ("mix", "debug", 150, 3000)],
    rule="1-3 ports, a quarter slave-only instances, a quarter master-only ports; walk over the whole host-call alphabet with qualifying announce pairs from 1-3 masters (better/worse than the own clock), BMCA runs, run-time slave-only switches, timers, transmit timestamps, own-identity announces; class = ports : outcome : so/mo flags : (port, state) pairs visited",
)


def run(tier, seed, replay=None):
    return standard_check(S, tier, seed, replay)
