from vlib import standard_check
import portcheck

META = {
    "property_id": "C10",
    "technique": "Coq theorems about the port model (timestamp exactness via lia, sequence ids via modular algebra) + executable oracle ok_C10 evaluated in Coq on implementation traces + differential correspondence of complete observable traces",
    "category": "proof",
    "text": "C10_main - for every valid set-up and EVERY valid event list the COMPLETE oracle ok_C10 accepts the model's own trace (frames, sequence ids, at most one event frame per call, and the responses: Follow_Up, Delay_Resp, Pdelay_Resp, Pdelay_Resp_Follow_Up with exact timestamps, corrections and echoed identifiers; no other call emits a response). Whole histories: C10_frames_main - for every valid set-up and every host-call sequence every frame the model emits decodes under the modelled parser, carries own identity, instance domain/sdoId, has exactly its declared size <= 1024 and uses the channel of its type (the frame conjunct of ok_C10, which ok_C10 implies: C10_oracle_implies_frames); C10_seq_main - for every history of any length the sequence ids of Sync / Delay_Req / Pdelay_Req / Announce of each port increase by one modulo 2^16 from one emission to the next (the sequence conjunct seq_check of ok_C10, C10_oracle_implies_seq). Proved in Coq for all timestamps in [0,2^63 ns) and all request headers: Follow_Up origin+correction equals the transmit time to 2^-16 ns, Delay_Resp / Pdelay_Resp / Pdelay_Resp_Follow_Up carry the receive/origin time to the nanosecond with saturating correction and echo requester and sequence id; sequence generators give (x+n) mod 2^16 after n emissions for every n (no unrolling). The whole-trace statement (every emitted frame decodes under the modelled parser, own identity, domain, sdoId, size, at most one event send per action set, exactly-one response rule) is the executable oracle ok_C10; it is evaluated inside Coq on the traces of the real implementation for generated histories (debug and release), and the model that the theorems are about is compared event by event with the implementation.",
    "design_ref": "DESIGN.md section 6 (C10)",
    "level_note": "Theorems are about the hand-written model (constructors msg_follow_up/msg_delay_resp/..., gen16); they are closed under the global context. The frame conjunct of ok_C10 is proved for all histories (C10_frames_main); the sequence conjunct is proved for all histories (C10_seq_main); the remaining conjunct (exactly-one-response with exact timestamps, at most one event send per call) is proved per handler and evaluated on traces. Trusted: Coq kernel/vm_compute, model, harness.",
}

S = portcheck.make(
    "C10", "Port.OracleC10",
    [("c10", "debug", 300, 6000), ("c10", "release", 150, 3000), ("mix", "debug", 150, 3000), ("warm", "debug", 4, 48), ("warm", "release", 4, 64)],
    rule="histories: ports forced to master, then sync timers, transmit timestamps on a boundary lattice (second/ns carries, 2^63 ns end, sub-ns fractions), Delay_Req/Pdelay_Req with random headers incl. correction i64::MAX/MIN, announces that make the port leave master, plus the mixed generator; the 16-bit wrap is crossed by warm; = one emitting host call repeated 65520+ times unobserved (model iterates step), then an observed tail across the wrap of each of the four sequence id generators (quick and thorough). class = generator : ports : outcome : request kinds : port states visited; classes that never reach master (no 's6') are trivial",
    trivial=(),
)


def run(tier, seed, replay=None):
    return standard_check(S, tier, seed, replay)
