"""Driver for the REAL statime-metrics-exporter binary (properties C19 and C20).

The exporter is started as a subprocess with a scratch configuration, fed by a
scripted observation Unix socket and exercised by scripted TCP clients.  It is
always killed again (context manager, also on exceptions).

Nothing here knows the expected behaviour: it only produces and records
behaviour; the comparison with the Coq model and the property oracle happen in
Coq (checks/c19.py, checks/c20.py).
"""
import os
import select
import shutil
import socket
import struct
import subprocess
import time

ROOT = os.path.dirname(os.path.dirname(os.path.abspath(__file__)))
CACHE = os.path.join(ROOT, ".cache")
SCRATCH = os.path.join(CACHE, "scratch-obs")
# SV_REPO_OVERRIDE is a test hook (mutation experiments on a scratch copy of the
# repository); without it the exporter is always built from /repo.
REPO = os.environ.get("SV_REPO_OVERRIDE", "/repo")
REPO_TARGET = os.path.join(CACHE, "target-repo" if REPO == "/repo" else "scratch-obs/target-fixed")
EXPORTER = os.path.join(REPO_TARGET, "debug", "statime-metrics-exporter")

CLK_TCK = os.sysconf("SC_CLK_TCK")


def build_exporter(timeout=1500):
    """Builds the exporter from /repo's CURRENT working tree (incremental).  Returns (ok, log)."""
    env = dict(os.environ)
    env["CARGO_NET_OFFLINE"] = "true"
    env["CARGO_TARGET_DIR"] = REPO_TARGET
    try:
        p = subprocess.run(["cargo", "build", "--offline", "-p", "statime-linux", "--bin", "statime-metrics-exporter"],
                           cwd=REPO, env=env, stdout=subprocess.PIPE, stderr=subprocess.STDOUT, timeout=timeout)
    except subprocess.TimeoutExpired:
        return False, "cargo build timed out"
    return p.returncode == 0 and os.path.exists(EXPORTER), p.stdout.decode("utf-8", "replace")


def free_port():
    s = socket.socket(socket.AF_INET, socket.SOCK_STREAM)
    s.bind(("127.0.0.1", 0))
    p = s.getsockname()[1]
    s.close()
    return p


def listening(port):
    """True when some socket LISTENs on 127.0.0.1:port (read from /proc, no connection is made:
    a probe connection would itself be a client that closes prematurely)."""
    want = "0100007F:%04X" % port
    try:
        with open("/proc/net/tcp") as f:
            for line in f:
                parts = line.split()
                if len(parts) > 3 and parts[1] == want and parts[3] == "0A":
                    return True
    except OSError:
        pass
    return False


class ObsSocket:
    """Scripted daemon side of the observation socket.

    mode: 'valid'   -> write the payload, close (what observer.rs does)
          'chunked' -> the payload in several writes with pauses, close
          'trunc'   -> write the first half of the payload, close
          'invalid' -> write bytes that are not JSON of an ObservableState, close
          'early'   -> accept and close without writing
          'refused' -> nothing listens on the path

    Two orthogonal knobs make every mode SLOW (the exporter sits in read_to_end
    on the observation connection meanwhile):
      delay: seconds to wait between accept and the answer (a slow daemon; the
             client is patient);
      hold:  a callable run between accept and the answer.  The answer is held
             back until it returns - this is how "the client resets while its
             response is pending" is made deterministic: the callable performs
             the reset and returns once the kernel has delivered it (no sleep
             that races with the exporter).
    """

    def __init__(self, path, payload):
        self.path = path
        self.payload = payload
        self.lst = None
        self.mode = "valid"
        self.served = 0
        self.hook = None        # callable run after accept, before answering (old name of `hold`)
        self.hold = None        # callable run after accept; the answer waits for its return
        self.delay = 0.0        # seconds between accept and the answer
        self.set_mode("valid")

    def _listen(self):
        if self.lst is None:
            try:
                os.unlink(self.path)
            except FileNotFoundError:
                pass
            self.lst = socket.socket(socket.AF_UNIX, socket.SOCK_STREAM)
            self.lst.bind(self.path)
            self.lst.listen(8)
            self.lst.setblocking(False)

    def _unlisten(self):
        if self.lst is not None:
            self.lst.close()
            self.lst = None
        try:
            os.unlink(self.path)
        except FileNotFoundError:
            pass

    def set_mode(self, mode, payload=None, delay=0.0):
        self.mode = mode
        self.delay = delay
        if payload is not None:
            self.payload = payload
        if mode == "refused":
            self._unlisten()
        else:
            self._listen()

    def fileno_list(self):
        return [self.lst] if self.lst is not None else []

    def serve_one(self):
        """Called when the listener is readable."""
        try:
            c, _ = self.lst.accept()
        except (BlockingIOError, OSError):
            return
        self.served += 1
        try:
            if self.hook:
                self.hook()
            if self.hold:
                self.hold()
            if self.delay:
                time.sleep(self.delay)
            c.setblocking(True)
            if self.mode == "valid":
                c.sendall(self.payload)
            elif self.mode == "chunked":
                # the same bytes, delivered in several writes with pauses (the reader sees
                # several reads before EOF)
                n = len(self.payload)
                cuts = sorted(set([0, 1, n // 7, n // 3, n // 2, (2 * n) // 3 + 1, max(n - 5, 0), n]))
                for a, b in zip(cuts, cuts[1:]):
                    c.sendall(self.payload[a:b])
                    time.sleep(0.002)
            elif self.mode == "trunc":
                c.sendall(self.payload[: len(self.payload) // 2])
            elif self.mode == "invalid":
                c.sendall(b'{"program":{"version":"x"},"instance":[1,2,3]}')
            elif self.mode == "early":
                pass
        except OSError:
            pass
        finally:
            c.close()

    def close(self):
        self._unlisten()


class Exporter:
    """The real binary under a scratch config.  Use as a context manager."""

    def __init__(self, tag, payload, binary=EXPORTER):
        self.dir = os.path.join(SCRATCH, "run-%s-%d" % (tag, os.getpid()))
        self.payload = payload
        self.binary = binary
        self.proc = None
        self.obs = None
        self.port = None

    def __enter__(self):
        shutil.rmtree(self.dir, ignore_errors=True)
        os.makedirs(self.dir, exist_ok=True)
        self.obs = ObsSocket(os.path.join(self.dir, "observe.sock"), self.payload)
        for attempt in range(5):
            self.port = free_port()
            cfg = os.path.join(self.dir, "statime.toml")
            with open(cfg, "w") as f:
                f.write('loglevel = "error"\n\n[[port]]\ninterface = "lo"\n\n[observability]\n'
                        'observation-path = "%s"\nmetrics-exporter-listen = "127.0.0.1:%d"\n' % (self.obs.path, self.port))
            self.errlog = open(os.path.join(self.dir, "stderr.txt"), "wb")
            self.proc = subprocess.Popen([self.binary, "-c", cfg], stdout=subprocess.DEVNULL, stderr=self.errlog,
                                         stdin=subprocess.DEVNULL, cwd=self.dir)
            t0 = time.time()
            while time.time() - t0 < 10:
                if self.proc.poll() is not None:
                    break
                if listening(self.port):
                    return self
                time.sleep(0.005)
            self.kill()
        raise RuntimeError("exporter did not start listening: " + self.stderr_tail())

    def stderr_tail(self):
        try:
            return open(os.path.join(self.dir, "stderr.txt"), "rb").read()[-600:].decode("utf-8", "replace")
        except OSError:
            return ""

    def kill(self):
        if self.proc is not None:
            try:
                self.proc.kill()
            except OSError:
                pass
            try:
                self.proc.wait(timeout=5)
            except Exception:
                pass
        try:
            self.errlog.close()
        except Exception:
            pass

    def __exit__(self, *a):
        self.kill()
        if self.obs:
            self.obs.close()
        shutil.rmtree(self.dir, ignore_errors=True)
        return False

    # ---- observation of the process
    def exit_code(self):
        return self.proc.poll()

    def wait_exit(self, t=1.0):
        """Exit status if the process ends within t seconds (a dying process may still hold
        its listener for a moment), else None."""
        try:
            return self.proc.wait(timeout=t)
        except subprocess.TimeoutExpired:
            return None

    def cpu_ticks(self):
        try:
            with open("/proc/%d/stat" % self.proc.pid) as f:
                s = f.read()
            rest = s[s.rindex(")") + 2:].split()
            return int(rest[11]) + int(rest[12])      # utime + stime
        except (OSError, ValueError, IndexError):
            return None

    def final_state(self, window=0.25):
        """'exit' / 'spin' / 'idle' from poll() and the CPU time consumed during `window` seconds."""
        if self.exit_code() is not None:
            return "exit"
        for _ in range(3):
            a = self.cpu_ticks()
            t0 = time.time()
            time.sleep(window)
            b = self.cpu_ticks()
            dt = time.time() - t0
            if self.exit_code() is not None or a is None or b is None:
                return "exit"
            share = (b - a) / float(CLK_TCK) / dt
            if share >= 0.30:
                return "spin"
            if share <= 0.08:
                return "idle"
            window *= 2          # ambiguous (loaded machine): measure longer
        return "spin" if share >= 0.2 else "idle"

    # ---- clients
    def connect(self):
        s = socket.socket(socket.AF_INET, socket.SOCK_STREAM)
        s.setsockopt(socket.IPPROTO_TCP, socket.TCP_NODELAY, 1)
        s.settimeout(2.0)
        s.connect(("127.0.0.1", self.port))
        return s

    def pump(self, sock, deadline, want_response=True, until_eof=False):
        """Waits for the server's reaction on `sock` while serving the observation socket.
        Returns ('status', code, raw) | ('closed', None, raw) | ('none', None, raw).
        until_eof: keep reading after a complete response until the exporter closes the
        connection (it always does), so that EVERYTHING it wrote is returned - e.g. a second
        response glued to the first; when the deadline passes first, what arrived is returned."""
        data = b""
        t_end = time.time() + deadline
        sock.setblocking(False)
        while True:
            left = t_end - time.time()
            if left <= 0:
                if until_eof and data:
                    break
                return ("none", None, data)
            rl = [sock] + self.obs.fileno_list()
            r, _, _ = select.select(rl, [], [], min(left, 0.05))
            if self.obs.lst is not None and self.obs.lst in r:
                self.obs.serve_one()
            if sock in r:
                try:
                    chunk = sock.recv(65536)
                except BlockingIOError:
                    continue
                except (ConnectionResetError, BrokenPipeError, OSError):
                    chunk = b""
                if not chunk:
                    break
                data += chunk
                if complete_response(data) and not until_eof:
                    break
            elif not r and self.exit_code() is not None and not data:
                # process gone and nothing buffered: one last non-blocking read decides
                try:
                    chunk = sock.recv(65536)
                    if chunk:
                        data += chunk
                        continue
                except (BlockingIOError, OSError):
                    pass
                break
        if data.startswith(b"HTTP/1.1 ") and len(data) >= 12:
            try:
                return ("status", int(data[9:12]), data)
            except ValueError:
                pass
        if not data:
            return ("closed", None, data)
        return ("garbage", None, data)


def complete_response(data):
    i = data.find(b"\r\n\r\n")
    if i < 0:
        return False
    head = data[:i].decode("latin-1").lower()
    for line in head.split("\r\n")[1:]:
        if line.startswith("content-length:"):
            try:
                n = int(line.split(":", 1)[1].strip())
            except ValueError:
                return False
            return len(data) >= i + 4 + n
    return False


def rst_close(sock):
    sock.setsockopt(socket.SOL_SOCKET, socket.SO_LINGER, struct.pack("ii", 1, 0))
    sock.close()


def peer_socket_present(server_port, client_port):
    """True / False: the server-side socket of the connection 127.0.0.1:client_port ->
    127.0.0.1:server_port is still in the kernel's table; None when /proc cannot tell."""
    loc = "0100007F:%04X" % server_port
    rem = "0100007F:%04X" % client_port
    try:
        with open("/proc/net/tcp") as f:
            for line in f:
                parts = line.split()
                if len(parts) > 3 and parts[1] == loc and parts[2] == rem:
                    return True
        return False
    except OSError:
        return None


def rst_close_confirmed(sock, server_port, deadline=2.0):
    """Resets the connection (SO_LINGER 0 -> RST, not FIN) and returns once the kernel has
    delivered the RST to the server side: a reset socket is unhashed at once, i.e. it
    disappears from /proc/net/tcp.  Returns True when that was seen before the deadline."""
    try:
        client_port = sock.getsockname()[1]
    except OSError:
        client_port = None
    rst_close(sock)
    if client_port is None:
        time.sleep(0.05)
        return False
    t_end = time.time() + deadline
    while True:
        st = peer_socket_present(server_port, client_port)
        if st is False:
            return True
        if st is None:
            time.sleep(0.05)        # no /proc: loopback delivers the RST inside close() anyway
            return False
        if time.time() >= t_end:
            return False
        time.sleep(0.002)


GET_REQ = b"GET /metrics HTTP/1.1\r\nHost: localhost\r\nUser-Agent: sv\r\n\r\n"
POST_REQ = b"POST /metrics HTTP/1.1\r\nHost: localhost\r\nContent-Length: 0\r\n\r\n"


def get_then_reset_while_pending(exp, request=None, deadline=3.0):
    """Client behaviour "complete GET, then reset while the reply is pending".

    The observation socket (whatever its mode: valid / trunc / invalid / early, i.e. the
    200 path or the 500 path) accepts the exporter's connection and HOLDS its answer; at
    that moment the exporter has read the whole request and sits in handler(); the client
    connection is reset and the reset is confirmed delivered; only then does the observation
    socket answer, so the exporter's write_all meets a reset connection.
    Not available for mode 'refused' (nothing to hold).
    Returns (held, confirmed): the answer was held / the reset was seen delivered."""
    if exp.obs.lst is None:
        raise ValueError("the observation socket must listen (mode != 'refused')")
    state = {"held": False, "confirmed": False}
    try:
        s = exp.connect()
    except OSError:
        return (False, False)
    box = [s]

    def hold():
        state["held"] = True
        state["confirmed"] = rst_close_confirmed(box.pop(), exp.port)

    try:
        s.sendall(request or GET_REQ)
        exp.obs.hold = hold
        t_end = time.time() + deadline
        while time.time() < t_end and not state["held"] and exp.exit_code() is None:
            r, _, _ = select.select([exp.obs.lst], [], [], 0.05)
            if r:
                exp.obs.serve_one()
    except OSError:
        pass
    finally:
        exp.obs.hold = None
        if box:                       # never held (the exporter did not call its handler): reset anyway
            try:
                rst_close_confirmed(box.pop(), exp.port, 0.5)
            except OSError:
                pass
    return (state["held"], state["confirmed"])


def http_get(exp, deadline=5.0, until_eof=False):
    """One well-formed request against a running exporter; returns (kind, code, raw)."""
    try:
        s = exp.connect()
    except OSError:
        return ("none", None, b"")
    try:
        s.sendall(GET_REQ)
        return exp.pump(s, deadline, until_eof=until_eof)
    except OSError:
        return ("closed", None, b"")
    finally:
        try:
            s.close()
        except OSError:
            pass

