"""Driver for the REAL statime-metrics-exporter binary (properties C19 and C20).

The exporter is started as a subprocess with a scratch configuration, fed by a
scripted observation Unix socket and exercised by scripted TCP clients.  It is
always killed again (context manager, also on exceptions).

Nothing here knows the expected behaviour: it only produces and records
behaviour; the comparison with the Coq model and the property oracle happen in
Coq (checks/c19.py, checks/c20.py).
"""
import os
import select
import shutil
import socket
import struct
import subprocess
import time

ROOT = os.path.dirname(os.path.dirname(os.path.abspath(__file__)))
CACHE = os.path.join(ROOT, ".cache")
SCRATCH = os.path.join(CACHE, "scratch-obs")
# SV_REPO_OVERRIDE is a test hook (mutation experiments on a scratch copy of the
# repository); without it the exporter is always built from /repo.
REPO = os.environ.get("SV_REPO_OVERRIDE", "/repo")
REPO_TARGET = os.path.join(CACHE, "target-repo" if REPO == "/repo" else "scratch-obs/target-fixed")
EXPORTER = os.path.join(REPO_TARGET, "debug", "statime-metrics-exporter")

CLK_TCK = os.sysconf("SC_CLK_TCK")


def build_exporter(timeout=1500):
    """Builds the exporter from /repo's CURRENT working tree (incremental).  Returns (ok, log)."""
    env = dict(os.environ)
    env["CARGO_NET_OFFLINE"] = "true"
    env["CARGO_TARGET_DIR"] = REPO_TARGET
    try:
        p = subprocess.run(["cargo", "build", "--offline", "-p", "statime-linux", "--bin", "statime-metrics-exporter"],
                           cwd=REPO, env=env, stdout=subprocess.PIPE, stderr=subprocess.STDOUT, timeout=timeout)
    except subprocess.TimeoutExpired:
        return False, "cargo build timed out"
    return p.returncode == 0 and os.path.exists(EXPORTER), p.stdout.decode("utf-8", "replace")


def free_port():
    s = socket.socket(socket.AF_INET, socket.SOCK_STREAM)
    s.bind(("127.0.0.1", 0))
    p = s.getsockname()[1]
    s.close()
    return p


def listening(port):
    """True when some socket LISTENs on 127.0.0.1:port (read from /proc, no connection is made:
    a probe connection would itself be a client that closes prematurely)."""
    want = "0100007F:%04X" % port
    try:
        with open("/proc/net/tcp") as f:
            for line in f:
                parts = line.split()
                if len(parts) > 3 and parts[1] == want and parts[3] == "0A":
                    return True
    except OSError:
        pass
    return False


class ObsSocket:
    """Scripted daemon side of the observation socket.

    mode: 'valid'   -> write the payload, close (what observer.rs does)
          'chunked' -> the payload in several writes with pauses, close
          'trunc'   -> write the first half of the payload, close
          'invalid' -> write bytes that are not JSON of an ObservableState, close
          'early'   -> accept and close without writing
          'refused' -> nothing listens on the path
    """

    def __init__(self, path, payload):
        self.path = path
        self.payload = payload
        self.lst = None
        self.mode = "valid"
        self.served = 0
        self.hook = None        # callable run after accept, before answering
        self.set_mode("valid")

    def _listen(self):
        if self.lst is None:
            try:
                os.unlink(self.path)
            except FileNotFoundError:
                pass
            self.lst = socket.socket(socket.AF_UNIX, socket.SOCK_STREAM)
            self.lst.bind(self.path)
            self.lst.listen(8)
            self.lst.setblocking(False)

    def _unlisten(self):
        if self.lst is not None:
            self.lst.close()
            self.lst = None
        try:
            os.unlink(self.path)
        except FileNotFoundError:
            pass

    def set_mode(self, mode, payload=None):
        self.mode = mode
        if payload is not None:
            self.payload = payload
        if mode == "refused":
            self._unlisten()
        else:
            self._listen()

    def fileno_list(self):
        return [self.lst] if self.lst is not None else []

    def serve_one(self):
        """Called when the listener is readable."""
        try:
            c, _ = self.lst.accept()
        except (BlockingIOError, OSError):
            return
        self.served += 1
        try:
            if self.hook:
                self.hook()
            c.setblocking(True)
            if self.mode == "valid":
                c.sendall(self.payload)
            elif self.mode == "chunked":
                # the same bytes, delivered in several writes with pauses (the reader sees
                # several reads before EOF)
                n = len(self.payload)
                cuts = sorted(set([0, 1, n // 7, n // 3, n // 2, (2 * n) // 3 + 1, max(n - 5, 0), n]))
                for a, b in zip(cuts, cuts[1:]):
                    c.sendall(self.payload[a:b])
                    time.sleep(0.002)
            elif self.mode == "trunc":
                c.sendall(self.payload[: len(self.payload) // 2])
            elif self.mode == "invalid":
                c.sendall(b'{"program":{"version":"x"},"instance":[1,2,3]}')
            elif self.mode == "early":
                pass
        except OSError:
            pass
        finally:
            c.close()

    def close(self):
        self._unlisten()


class Exporter:
    """The real binary under a scratch config.  Use as a context manager."""

    def __init__(self, tag, payload, binary=EXPORTER):
        self.dir = os.path.join(SCRATCH, "run-%s-%d" % (tag, os.getpid()))
        self.payload = payload
        self.binary = binary
        self.proc = None
        self.obs = None
        self.port = None

    def __enter__(self):
        shutil.rmtree(self.dir, ignore_errors=True)
        os.makedirs(self.dir, exist_ok=True)
        self.obs = ObsSocket(os.path.join(self.dir, "observe.sock"), self.payload)
        for attempt in range(5):
            self.port = free_port()
            cfg = os.path.join(self.dir, "statime.toml")
            with open(cfg, "w") as f:
                f.write('loglevel = "error"\n\n[[port]]\ninterface = "lo"\n\n[observability]\n'
                        'observation-path = "%s"\nmetrics-exporter-listen = "127.0.0.1:%d"\n' % (self.obs.path, self.port))
            self.errlog = open(os.path.join(self.dir, "stderr.txt"), "wb")
            self.proc = subprocess.Popen([self.binary, "-c", cfg], stdout=subprocess.DEVNULL, stderr=self.errlog,
                                         stdin=subprocess.DEVNULL, cwd=self.dir)
            t0 = time.time()
            while time.time() - t0 < 10:
                if self.proc.poll() is not None:
                    break
                if listening(self.port):
                    return self
                time.sleep(0.005)
            self.kill()
        raise RuntimeError("exporter did not start listening: " + self.stderr_tail())

    def stderr_tail(self):
        try:
            return open(os.path.join(self.dir, "stderr.txt"), "rb").read()[-600:].decode("utf-8", "replace")
        except OSError:
            return ""

    def kill(self):
        if self.proc is not None:
            try:
                self.proc.kill()
            except OSError:
                pass
            try:
                self.proc.wait(timeout=5)
            except Exception:
                pass
        try:
            self.errlog.close()
        except Exception:
            pass

    def __exit__(self, *a):
        self.kill()
        if self.obs:
            self.obs.close()
        shutil.rmtree(self.dir, ignore_errors=True)
        return False

    # ---- observation of the process
    def exit_code(self):
        return self.proc.poll()

    def cpu_ticks(self):
        try:
            with open("/proc/%d/stat" % self.proc.pid) as f:
                s = f.read()
            rest = s[s.rindex(")") + 2:].split()
            return int(rest[11]) + int(rest[12])      # utime + stime
        except (OSError, ValueError, IndexError):
            return None

    def final_state(self, window=0.25):
        """'exit' / 'spin' / 'idle' from poll() and the CPU time consumed during `window` seconds."""
        if self.exit_code() is not None:
            return "exit"
        for _ in range(3):
            a = self.cpu_ticks()
            t0 = time.time()
            time.sleep(window)
            b = self.cpu_ticks()
            dt = time.time() - t0
            if self.exit_code() is not None or a is None or b is None:
                return "exit"
            share = (b - a) / float(CLK_TCK) / dt
            if share >= 0.30:
                return "spin"
            if share <= 0.08:
                return "idle"
            window *= 2          # ambiguous (loaded machine): measure longer
        return "spin" if share >= 0.2 else "idle"

    # ---- clients
    def connect(self):
        s = socket.socket(socket.AF_INET, socket.SOCK_STREAM)
        s.setsockopt(socket.IPPROTO_TCP, socket.TCP_NODELAY, 1)
        s.settimeout(2.0)
        s.connect(("127.0.0.1", self.port))
        return s

    def pump(self, sock, deadline, want_response=True):
        """Waits for the server's reaction on `sock` while serving the observation socket.
        Returns ('status', code, raw) | ('closed', None, raw) | ('none', None, raw)."""
        data = b""
        t_end = time.time() + deadline
        sock.setblocking(False)
        while True:
            left = t_end - time.time()
            if left <= 0:
                return ("none", None, data)
            rl = [sock] + self.obs.fileno_list()
            r, _, _ = select.select(rl, [], [], min(left, 0.05))
            if self.obs.lst is not None and self.obs.lst in r:
                self.obs.serve_one()
            if sock in r:
                try:
                    chunk = sock.recv(65536)
                except BlockingIOError:
                    continue
                except (ConnectionResetError, BrokenPipeError, OSError):
                    chunk = b""
                if not chunk:
                    break
                data += chunk
                if complete_response(data):
                    break
            elif not r and self.exit_code() is not None and not data:
                # process gone and nothing buffered: one last non-blocking read decides
                try:
                    chunk = sock.recv(65536)
                    if chunk:
                        data += chunk
                        continue
                except (BlockingIOError, OSError):
                    pass
                break
        if data.startswith(b"HTTP/1.1 ") and len(data) >= 12:
            try:
                return ("status", int(data[9:12]), data)
            except ValueError:
                pass
        if not data:
            return ("closed", None, data)
        return ("garbage", None, data)


def complete_response(data):
    i = data.find(b"\r\n\r\n")
    if i < 0:
        return False
    head = data[:i].decode("latin-1").lower()
    for line in head.split("\r\n")[1:]:
        if line.startswith("content-length:"):
            try:
                n = int(line.split(":", 1)[1].strip())
            except ValueError:
                return False
            return len(data) >= i + 4 + n
    return False


def rst_close(sock):
    sock.setsockopt(socket.SOL_SOCKET, socket.SO_LINGER, struct.pack("ii", 1, 0))
    sock.close()


GET_REQ = b"GET /metrics HTTP/1.1\r\nHost: localhost\r\nUser-Agent: sv\r\n\r\n"
POST_REQ = b"POST /metrics HTTP/1.1\r\nHost: localhost\r\nContent-Length: 0\r\n\r\n"


def http_get(exp, deadline=5.0):
    """One well-formed request against a running exporter; returns (kind, code, raw)."""
    try:
        s = exp.connect()
    except OSError:
        return ("none", None, b"")
    try:
        s.sendall(GET_REQ)
        return exp.pump(s, deadline)
    except OSError:
        return ("closed", None, b"")
    finally:
        try:
            s.close()
        except OSError:
            pass

