from vlib import standard_check
import portcheck

META = {
    "property_id": "C09",
    "technique": "Coq theorems on the slave-port model (measurement = IEEE formula, exact) + executable oracle ok_C09 recomputing the formula from the history's inputs, evaluated in Coq on implementation traces + trace correspondence",
    "category": "proof",
    "text": "Whole histories: C09_main - for every valid set-up and EVERY valid event list the complete oracle ok_C09 accepts the model's own trace: every Sync/Delay measurement handed to the filter is exactly t2-t1-asymmetry resp. t3-t4-asymmetry (corrections applied, units of 2^-32 ns) of ONE Sync/Follow_Up resp. Delay_Req timestamp/Delay_Resp pair with equal sequence id from the parent shown by parentDS within the current slave episode; offset = raw - mean delay; delay = (last raw sync - raw)/2; only a slave port emits them. C09_not_from_parent_ignored: in every reachable state Sync/Follow_Up/Delay_Resp not from the parent change nothing. Proved for all operand values (below 2^100 units of 2^-32 ns): a completed Sync exchange yields raw offset recv - send - asymmetry and offset raw - mean_delay exactly; a completed Delay exchange yields send - recv - asymmetry and delay (last_raw_sync - raw)/2 truncated. The history-level statement (every measurement equals the formula on messages with one sequence id from the selected parent, whatever the interleaving, duplication or loss) is the executable oracle ok_C09, which recomputes the values from the inputs alone and is evaluated inside Coq on the real implementation's traces; the model is compared with the implementation event by event.",
    "design_ref": "DESIGN.md section 6 (C09)",
    "level_note": "Theorems closed under the global context. The coupling invariant (MainC09.cpl: the pending halves of SlaveState stem from recorded messages with the stored sequence id from the selected master; nothing complete is ever left unconsumed) is proved through every handler, the BMCA and every history. Saturating Time arithmetic: the oracle (and the theorem) judge only histories whose corrected timestamps are non-negative, as before. Exchanges are identified by sequence id, as in the code.",
}

S = portcheck.make(
    "C09", "Port.OracleC09",
    [("c09", "debug", 400, 8000), ("c09", "release", 150, 3000), ("mix", "debug", 150, 3000), ("warmdr", "debug", 6, 32), ("warmdr", "release", 2, 16)],
    rule="port 0 is made slave of a master, then Sync (one/two-step), Follow_Up, Delay_Req timer, transmit timestamps and Delay_Resp are delivered with duplication, re-ordering (Follow_Up first), omission, stale/advanced sequence ids, wrong requester, another master (sometimes another PORT of the parent's clock), parent take-over; warmdr = 65533+ Delay_Req timers unobserved (the model iterates step), then the same mix while the Delay_Req sequence id wraps, with transmit timestamps of the request before the wrap arriving after the request after it (case type Port/WarmCases.v, judged by ok_warm_C09); class = outcome : number of measurements (capped 9) : kinds exercised : port states; cases with m0 (no measurement) are trivial",
    trivial=("c09:ok:m0",),
)


def run(tier, seed, replay=None):
    return standard_check(S, tier, seed, replay)
