"""C03, filter part: every call of the clock filters returns (no panic / overflow) on measurement
streams as a port produces them.  Run from checks/c03.py after the port part; the evidence of
both parts is merged into evidence/C03.json.

    from checks import c03_filters
    def run(tier, seed, replay=None):
        if replay and c03_filters.owns(replay):
            return c03_filters.run(tier, seed, replay)
        rc = standard_check(S, tier, seed, replay)
        if replay:
            return rc
        return c03_filters.run(tier, seed, merge_with_previous=True) or rc
"""
import json
import os

import vlib
from vlib import Spec, standard_check

from checks import c13 as _c13

TEXT = ("Filter part (Filter/C03Filters.v): C03f_today_refuted -- the model of kalman.rs BEFORE the F24 repair (c_f24 = false) does not return from the "
        "fifth of five 0 ns peer delay measurements, nor from the tenth of alternating equal-time Sync/Delay_Resp "
        "measurements (Duration::from_seconds(NaN), both build modes): finding F24, kf=24; "
        "C03f_kalman_patched_no_panic -- for the model of kalman.rs as it is since the F24 repair (ba079f9; model switch c_f24 = true = impl_f24_fixed), every "
        "configuration in the documented ranges, every stream of measurements/update/demobilize of any length with event "
        "times and clock replies below 2^127 (bit patterns) and ANY offsets, both build modes, any exp: every call and "
        "every current_estimates() returns (invariant kinv preserved by every call; C03f_kalman_measurement_returns; "
        "C03f_from_seconds_total). C03f_basic_no_panic -- BasicFilter AS IT IS, gain in [0, 1]: every stream of any length, event "
        "times below 2^126, any offsets, any clock: every call returns (offset confidence stays in [0, 2 s], frequency confidence "
        "never negative by monotonicity of binary64 rounding); C03f_basic_gain_above_one_panics shows the gain bound is needed "
        "(configuration only). The model is tied to the real filters on every run: port-shaped streams (equal / "
        "coarse / frozen event times, zero-variance samples, master-controlled offsets, extreme timestamps, failing / "
        "frozen / unsteppable clocks, 1000+ event warm-ups that drive the wander estimate to infinity) are fed to the "
        "real KalmanFilter and BasicFilter (debug and release) and to the model; observations incl. the place of a "
        "panic must agree and ok_C03f is evaluated on the implementation's observations.")


class SF(Spec):
    prop = "C03"
    prop_file = "Filter/C03Filters.v"
    case_module = "Filter.PanicCases"
    model_targets = ["Filter/PanicCases.vo"]
    bins = [("c03f", "debug", 300, 6000, ["--len", "40"]), ("c03f", "release", 150, 3000, ["--len", "40"])]
    allowed_axioms = _c13.FILTER_AXIOMS
    trusted_base = [
        "Coq 8.16.1 kernel, coqc, vm_compute (no native_compute)",
        "Coq.Floats.FloatAxioms, Uint63 axioms, Flocq 4 and the classical real-number axioms it uses (same list as C13)",
        "hand-written models Filter/KalmanModel.v (incl. the model-only switch c_f24 between kalman.rs before and after the F24 repair), Filter/BasicModel.v, Filter/FloatBits.v: validated by this run's correspondence (every Panic site incl. the event at which it is reached)",
        "libm exp: a parameter of the model; streams where a wander p-value lies within 1e-9 (relative) of a decision threshold are not compared and are counted (exp_threshold_skips)",
        "harness/src/bin/c03f.rs (port-shaped stream generators, scripted clock, unobserved warm-up) + harness/src/bin/c13.rs (printing) and lib/vlib.py",
    ]
    assumptions = [
        "filter level: Measurements are built as port/slave.rs builds them (one raw offset kind per Measurement); the port itself is covered by the port part of C03",
        "event times and clock replies below 2^127 as U96F32 bit patterns (2^95 ns); the property needs 2^63 ns",
        "KalmanConfiguration within its documented ranges (precision_hysteresis <= 127, estimation boundaries not (0, >0), non-negative max_steer / max_freq_offset); BasicFilter gain in [0, 1]",
        "the theorem C03f_kalman_patched_no_panic is about the model with c_f24 = true, i.e. kalman.rs since the F24 repair (fix: ba079f9 in /repo); impl_f24_fixed = true ties the correspondence to that model",
    ]
    rule = ("each case is one stream for one filter, one configuration, one clock behaviour (good / read-at-event / frozen / failing / "
            "unsteppable / flaky); families: frozen event times, coarse (quantised) event times, P2P with constant peer delay, "
            "master-controlled offset jumps, extreme timestamps and offsets, lifecycle (update / demobilize), basic filter; indices 0-3 "
            "(4 in the thorough tier: 18 330 events) are the fixed witnesses of finding F24; class = (filter, family, clock, configuration "
            "variant, outcome: panic / step / slew)")
    shard = 30


def owns(replay):
    try:
        obj = json.load(open(replay if os.path.isabs(replay) else os.path.join(vlib.ROOT, replay)))
    except (OSError, ValueError):
        return False
    return obj.get("bin") == "c03f"


def _merge(prev, new):
    """evidence of the port part (prev) + evidence of the filter part (new)"""
    out = dict(prev)
    pc, nc = dict(prev.get("coverage", {})), new.get("coverage", {})
    for k in ("evaluations", "distinct_nontrivial", "traces_validated_against_impl", "obligations", "discharged",
              "model_impl_disagreements"):
        if k in pc or k in nc:
            pc[k] = int(pc.get(k, 0)) + int(nc.get(k, 0))
    hist = dict(pc.get("class_histogram", {}))
    for k, v in nc.get("class_histogram", {}).items():
        hist["filter:" + k] = v
    pc["class_histogram"] = hist
    th = dict(pc.get("theorems", {}))
    th.update(nc.get("theorems", {}))
    pc["theorems"] = th
    pc["proof_files"] = sorted(set(pc.get("proof_files", [])) | set(nc.get("proof_files", [])))
    pc["trusted_base"] = list(pc.get("trusted_base", [])) + [t for t in nc.get("trusted_base", []) if t not in pc.get("trusted_base", [])]
    pc["checker_cmd"] = "%s ; %s" % (pc.get("checker_cmd", ""), nc.get("checker_cmd", ""))
    pc["rule"] = "%s || FILTER PART: %s" % (pc.get("rule", ""), nc.get("rule", ""))
    pc["samples"] = list(pc.get("samples", []))[:6] + list(nc.get("samples", []))[:4]
    pc["filters"] = nc
    out["coverage"] = pc
    out["assumptions"] = list(prev.get("assumptions", [])) + [a for a in new.get("assumptions", []) if a not in prev.get("assumptions", [])]
    out["wall_s"] = round(float(prev.get("wall_s", 0)) + float(new.get("wall_s", 0)), 2)
    out["violations"] = int(prev.get("violations", 0)) + int(new.get("violations", 0))
    return out


def run(tier, seed, replay=None, merge_with_previous=False):
    vlib.eval_shard = _c13._eval_shard_ext
    _c13._skips["n"] = 0
    _c13._skips["shards"] = 0
    SF.bins = [("c03f", "debug", 300, 6000, ["--len", "40"]), ("c03f", "release", 150, 3000, ["--len", "40"])]
    SF.shard = 30
    if tier == "thorough":
        SF.shard = 120
        # index 4 becomes the default-configuration wander witness (18 330 events, about a minute of vm_compute)
        SF.bins = [("c03f", "debug", 300, 6000, ["--len", "80", "--long"]), ("c03f", "release", 150, 3000, ["--len", "80"])]
    path = os.path.join(vlib.EVID, "C03.json")
    prev = None
    if not replay:
        try:
            prev = json.load(open(path))
        except (OSError, ValueError):
            prev = None
    rc = standard_check(SF, tier, seed, replay)
    if replay:
        return rc
    try:
        ev = json.load(open(path))
        cov = ev.setdefault("coverage", {})
        cov["exp_threshold_skips"] = _c13._skips["n"]
        cov["not_proved"] = [
            "KalmanFilter before the F24 repair (commit ba079f9 in /repo): refuted (C03f_today_refuted, model switch c_f24 = false, kept as the historic model)",
        ]
        if merge_with_previous and prev is not None and "filters" not in prev.get("coverage", {}):
            ev = _merge(prev, ev)
        elif not merge_with_previous and prev is not None:
            # stand-alone run (./check c03_filters): leave the evidence of the full C03 run alone
            side = os.path.join(vlib.CACHE, "scratch-filter", "C03-filters-evidence.json")
            os.makedirs(os.path.dirname(side), exist_ok=True)
            json.dump(ev, open(side, "w"), indent=1)
            ev = prev
        json.dump(ev, open(path, "w"), indent=1)
    except (OSError, ValueError):
        pass
    return rc
