import os
import sys

from vlib import Spec, standard_check

sys.path.insert(0, os.path.join(os.path.dirname(os.path.dirname(os.path.abspath(__file__))), "translate"))
import gen_tables  # noqa: E402

META = {
    "property_id": "C04",
    "technique": "Coq proof (induction over byte strings, generic big-endian round-trip lemmas, exhaustive vm_compute over 256/65536-value tables regenerated from the Rust sources) about a Gallina transliteration of the wire codec, judged by an independently written Clause-13 layout table; differential correspondence of the model against statime::fuzz::FuzzMessage (debug and release)",
    "category": "proof",
    "text": "C04_main: for every octet string and every serialisation buffer size the model's behaviour satisfies the executable oracle ok_C04 written from the property text with the independent codec WireSpec (accepted iff well-formed per WireSpec; re-encoding has exactly the declared length, decodes to an equal message, agrees with the input on every field of the Clause-13 table after canonicalisation of reserved values, carries the same TLV octets; nothing beyond max(34, messageLength) influences the result). Readable theorems: C04_decode_local, C04_decode_spec, C04_encode_spec, C04_reencode, C04_encode_decode, C04_decode_wf, C04_decode_vs_spec, C04_encode_decode_tlvs, C04_f5_repaired, and table theorems (MessageType, ControlField, ClockAccuracy, TimeSource, TlvType, ManagementAction, announce_propagate) over Generated/Tables.v. The model is tied to the code on every run: each generated frame is decoded, re-serialised (2048-byte and other buffer sizes incl. too small ones), re-decoded and iterated by the real library and compared with the model inside Coq; the oracle is also evaluated on the implementation's own outputs.",
    "design_ref": "DESIGN.md section 6 (C04)",
    "level_note": "Trusted: Coq 8.16.1 kernel + vm_compute; hand-written model Wire/WireImpl.v (validated by correspondence, not verified); the layout table Wire/WireSpec.v as a rendering of IEEE 1588-2019 Clause 13/14.1; Rust harness + byte-level generators; translate/gen_tables.py (regex level). All theorems are closed under the global context. Management message fields (Clause 15) are tabulated as implemented (one octet later than Table 59) and are outside the Clause-13 claim. F5 is repaired in /repo (4fcd0b5) and no longer excused.",
}


class S(Spec):
    prop = "C04"
    prop_file = "Properties/C04.v"
    case_module = "Wire.WireCases"
    model_targets = ["Wire/WireCases.vo"]
    # one pass of the `sweep` stream is 12706 cases (every message type, every value of 27 single
    # octets, all 4096 flag combinations, every messageLength / buffer length relation, TLV layouts);
    # `sweep16` enumerates 9 sixteen-bit fields exhaustively in 589824 cases (prefixes are spread).
    bins = [
        ("c04", "debug", 12706, 63530, ["sweep"]),
        ("c04", "debug", 3000, 60000, ["struct"]),
        ("c04", "debug", 2000, 50000, ["random"]),
        ("c04", "debug", 1300, 589824, ["sweep16"]),
        ("c04", "release", 1000, 20000, ["struct"]),
    ]
    translators = [gen_tables.main]
    case_prelude = "Open Scope uint63_scope."
    allowed_axioms = set()
    trusted_base = [
        "Coq 8.16.1 kernel, coqc, vm_compute (no native_compute)",
        "no axioms: every theorem of Properties/C04.v is closed under the global context",
        "hand-written model Wire/WireImpl.v of statime/src/datastructures/{messages,common} (modelled, validated by this run's correspondence)",
        "Wire/WireSpec.v: layout table written from IEEE 1588-2019 Clause 13 / 14.1 (Management, Clause 15, as implemented)",
        "translate/gen_tables.py (regex-level extraction of the enum match arms into Generated/Tables.v)",
        "harness/src/bin/c04.rs (byte-level frame generators, FuzzMessage driver, Debug-rendering parser for TLVs) and lib/vlib.py",
    ]
    assumptions = [
        "inputs are strings of octets (every element in [0,256)); buffers handed to deserialize are complete slices",
        "FuzzMessage::{deserialize,serialize,tlv} are thin wrappers of Message::{deserialize,serialize} and TlvSet::tlv (read in messages/mod.rs)",
        "the re-serialisation buffer is zero-filled (octets the serializer never writes, announce octet 46 and management octet 44, are observed as 0)",
    ]
    rule = ("inputs are built by a byte-level generator independent of the library: for each of the 10 message types a valid frame; "
            "every value of 27 single octets (octet 0, version, length octets, domain, sdoId, both flag octets, control, "
            "logMessageInterval, clockAccuracy, timeSource, clockClass, priorities, reserved octets, management action ...); all 4096 "
            "combinations of the 12 defined flags; every messageLength in [0,len+2] and every buffer length in [0,len]; 12 TLV layouts "
            "(none, one, several, empty value last/inner, odd, truncated, trailing 1..4, huge length, many, large, garbage) per type; "
            "boundary/random wide fields; random byte strings of lengths 0..200 and around 34/44/54/64/1024/2048; 9 sixteen-bit fields "
            "enumerated by a spread permutation (exhaustive in the thorough tier). A class is (generator kind, message type, outcome).")
    shard = 400


def run(tier, seed, replay=None):
    return standard_check(S, tier, seed, replay)
