from vlib import Spec, standard_check

META = {
    "property_id": "C18",
    "technique": "Coq proof (induction over operation sequences of any length with an invariant; lia/div-mod reasoning over unbounded Z bit patterns; the f64 ppm is a Coq primitive float converted by an exact round-to-nearest-even model of to_fixed) of an executable model of statime::OverlayClock + differential correspondence of the model against the public OverlayClock API over a scripted underlying clock (debug and release)",
    "category": "proof",
    "text": "Theorems C18_main (uniform: kf=0 -> oracle accepts, any sequence length), C18_all_but_F9, C18_no_overflow, C18_freq_change_continuous, C18_debug_assert_never_fails, C18_step_returned_is_reading, C18_convert_agrees_with_now, C18_conversion_is_affine, C18_rate_bound (error < 1 unit of 2^-32 ns, hence the stated 2^-32 ns*(2+dt/1e6)), C18_ppm_conversion, C18_step_exact_zero_ppm are proved about the model of the code as it is; C18_step_exact_refuted / C18_refuted_on_current_code exhibit finding F9 (step_clock with ppm != 0 jumps by the wrong amount); C18_step_exact_fixed / C18_main_fixed prove the full property for the proposed repair. The model is tied to the code on every run: the same operation sequences (length 0..50, set_frequency, step_clock, advances, now, time_from_underlying) are executed through the public OverlayClock over a scripted Clock implementation, observed bit patterns are compared with the model inside Coq, and the oracle ok_C18 (written on observed readings only) is evaluated on the implementation's own outputs.",
    "design_ref": "DESIGN.md section 6 (C18), section 7 (F9)",
    "level_note": "Trusted: Coq 8.16.1 kernel + vm_compute incl. its primitive Int63/Float64 operations (listed by Print Assumptions as primitives) and the stdlib axiom FloatAxioms.SF2Prim_Prim2SF (used only to split 'ppm is a float zero' into +0.0 / -0.0); hand-written model of fixed-1.31 arithmetic and of f64 -> I96F32 conversion (validated by correspondence, not verified against the fixed crate's source); Rust harness and its scripted clock. Theorems quantify over ALL floats ppm through computed hypotheses: ppm_ok f (its I96F32 conversion is within +-500 and the f64 reciprocal 1e6/(1e6+f) converts to within 1/1000 of 1.0) is evaluated for every generated value; that every f64 in [-500,500] satisfies ppm_ok is NOT proved in Coq (it would need the FloatAxioms specs of + and /). Domain restrictions of the oracle (stated in OverlayCases.v): start >= 11 s*(length+1) so that the unsigned overlay reading cannot be stepped below zero; converted timestamps not older than the last adjustment (older ones are mapped with the NEW affine map by design; not claimed). F9 is a recorded known finding (kf=1): exact-jump checks of step_clock calls made while ppm != 0 are the only relaxed checks; at ppm = +-0 exactness is proved.",
}

PRIMS = {
    "PrimInt63.int", "PrimInt63.sub", "PrimInt63.add", "PrimInt63.mul", "PrimInt63.lsr", "PrimInt63.lsl",
    "PrimInt63.lor", "PrimInt63.land", "PrimInt63.lxor", "PrimInt63.eqb", "PrimInt63.ltb", "PrimInt63.leb",
    "PrimInt63.compare", "PrimInt63.div", "PrimInt63.mod",
    "PrimFloat.float", "PrimFloat.opp", "PrimFloat.abs", "PrimFloat.of_uint63", "PrimFloat.normfr_mantissa",
    "PrimFloat.ltb", "PrimFloat.leb", "PrimFloat.eqb", "PrimFloat.compare", "PrimFloat.classify",
    "PrimFloat.ldshiftexp", "PrimFloat.frshiftexp", "PrimFloat.div", "PrimFloat.add", "PrimFloat.sub", "PrimFloat.mul",
}


class S(Spec):
    prop = "C18"
    prop_file = "Properties/C18.v"
    case_module = "Clock.OverlayCases"
    model_targets = ["Clock/OverlayCases.vo"]
    bins = [("c18", "debug", 2600, 20000, []), ("c18", "release", 1300, 10000, [])]
    allowed_axioms = PRIMS | {"FloatAxioms.SF2Prim_Prim2SF", "SF2Prim_Prim2SF", "Axioms"}  # "Axioms" = the header line of Print Assumptions, matched by vlib's name regex
    trusted_base = [
        "Coq 8.16.1 kernel, coqc, vm_compute (no native_compute), including the kernel's primitive Int63 / Float64 operations (PrimInt63.*, PrimFloat.* are reported by Print Assumptions as primitives, not logical axioms)",
        "stdlib axiom FloatAxioms.SF2Prim_Prim2SF : SF2Prim (Prim2SF x) = x (only to derive f = +0.0 \\/ f = -0.0 from float_is_zero f)",
        "hand-written model Clock/OverlayModel.v of overlay_clock.rs and Time/TimeModel.v of fixed-1.31 U96F32/I96F32 semantics, f64 -> I96F32 = round to nearest even (modelled, validated by this run's correspondence)",
        "Coq primitive floats agree bit-for-bit with Rust f64 for + and / (IEEE 754 binary64; validated by correspondence on the reciprocal 1e6/(1e6+ppm))",
        "harness/src/bin/c18.rs (scripted statime::Clock implementation, drives the public OverlayClock API, prints bit patterns) and lib/vlib.py",
    ]
    assumptions = [
        "fixed-point semantics of the `fixed` crate are as modelled (mul = floor of the wide product, div by integer = truncation, float conversion = nearest-even); checked by correspondence only",
        "every f64 ppm in [-500, 500] satisfies ppm_ok (conversion within +-500*2^32, reciprocal within 1/1000 of 1.0): evaluated for each generated value, not proved for all floats",
        "the underlying clock is an arbitrary non-decreasing sequence of readings below 2^111 units of 2^-32 ns; the overlay clock starts at least 11 s * (number of operations + 1) after the epoch",
        "time_from_underlying is only claimed for timestamps not older than the last adjustment",
    ]
    rule = ("operation sequences of length 0..50 (indices 0..50 sweep the lengths) drawn per index from four operation mixes; starts from a lattice "
            "(epoch, just below / at the domain margin, 2^32 s, 2^63 ns, today, end of the PTP range, uniform); ppm from +-0, +-500, neighbours of +-500, "
            "multiples of 2^-10, arbitrary mantissas, sub-resolution values, exact rounding ties, rarely out-of-domain (NaN, inf, 1e30); offsets 0, +-1 bit, +-10 s, "
            "uniform, rarely out of range; advances 0, 1 bit, 1 ns, 1 s, 10^4 s, uniform; conversions at/after/before the anchor and in the future. "
            "A case class is (start kind, returned or panicked, length decade, step at ppm=0 / step at ppm!=0 / stale conversion / out-of-domain input present, build); "
            "classes with len0 and no step are the only near-trivial ones")
    shard = 100


def run(tier, seed, replay=None):
    return standard_check(S, tier, seed, replay)
