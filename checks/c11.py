from vlib import standard_check
import portcheck

META = {
    "property_id": "C11",
    "technique": "Coq theorems on the port model (Announce fields = data sets, S1 update exact, grandmaster view) + executable oracle ok_C11 evaluated in Coq on implementation traces + trace correspondence",
    "category": "proof",
    "text": "C11_full_main - the complete oracle of the check, clauses (a)-(c) and clause (d) (a BMCA run that keeps the parent keeps stepsRemoved / parentDS / timePropertiesDS; C11_clause_d_main, Port/MainC11d.v), accepts the model's own trace for every valid set-up and every valid event list. C11_main - for every valid set-up and EVERY valid event list the COMPLETE oracle ok_C11 accepts the model's own trace (emission, take-over of the parent's Announce with the path-trace rule, grandmaster view after a BMCA run that leaves no slave). Whole histories: C11_emission_main - for every valid set-up and every host-call sequence every Announce the model emits carries exactly the data sets held at emission (the emission conjunct of ok_C11, which ok_C11 implies: C11_oracle_implies_emission). Proved for all data sets: every field of an emitted Announce is the corresponding field of parentDS/currentDS/timePropertiesDS at emission (flags <-> time properties incl. leap59 precedence); an Announce from the parent with stepsRemoved 0..254 replaces the data sets by its contents with stepsRemoved+1; decision M1/M2 installs the own attributes with stepsRemoved 0. The history-level statement (every Announce in every history reflects the data sets the getters showed before the call; parent Announce => data sets after the call; grandmaster view after each BMCA run) is the executable oracle ok_C11 evaluated in Coq on the implementation's traces.",
    "design_ref": "DESIGN.md section 6 (C11)",
    "level_note": "Clause (d) of the oracle (ok_C11d: a BMCA run that leaves the slave port slave of the same parent does not change stepsRemoved / parentDS / timePropertiesDS, is proved for every history as well (C11_clause_d_main, Port/MainC11d.v; C11_full_main = clauses (a)-(d)); the guard is: the sequence ids of that master on that port have moved forward by less than 2^15 in total. Histories with sequence-id anomalies of the parent are not judged by (d): observation F27 (DESIGN 14.3, Example C11_observation_F27_flipflop). Theorems closed under the global context (MainC11.v, MainC11b.v). The fixed constants of the M1/M2 time properties (ptp_timescale = true, time source internal oscillator) are statime's choice and are part of the oracle.",
}

S = portcheck.make(
    "C11", "Port.OracleC11",
    [("c11", "debug", 400, 8000), ("c11", "release", 150, 3000), ("mix", "debug", 150, 3000)],
    rule="boundary clocks with 2-3 ports: port 0 hears a master whose Announce contents change (all 64 flag combinations, utc offset, time source, quality, stepsRemoved incl. 254/255/65535, foreign grandmaster), other ports are master and send Announces, quality changes, take-over by a second master, path-trace TLVs incl. loops; class = outcome : announces sent : kinds : states",
    trivial=("c11:ok:a0",),
)


def run(tier, seed, replay=None):
    return standard_check(S, tier, seed, replay)
