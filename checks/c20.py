"""C20 - The metrics exporter cannot be wedged by its clients.

Coq: Exporter/AcceptLoop.v (small-step machine of exporter.rs's accept loop over
abstract I/O results; `step_fixed` = code as it is since the F19 repair b7381c9,
`step_before_fix` = historic loop),
Exporter/AcceptLemmas.v (proofs), Properties/C20.v (statements).

Tie: the REAL statime-metrics-exporter binary (built from /repo's current
working tree on every run) is started once per behaviour sequence, driven by
scripted TCP clients and a scripted observation socket (checks/obs_driver.py);
per-connection outcomes + liveness (idle / spinning via /proc/<pid>/stat / exited
via poll()) are compared inside Coq with the model's prediction, and the
property oracle ok_C20 is evaluated on the IMPLEMENTATION's outcomes.
"""
import binascii
import itertools
import os
import random
import re
import select
import sys
import time
from concurrent.futures import ThreadPoolExecutor

sys.path.insert(0, os.path.dirname(os.path.abspath(__file__)))
import obs_driver as D
import vlib
from vlib import Spec

META = {
    "property_id": "C20",
    "technique": "Coq proof about a small-step machine of the exporter's accept loop over abstract I/O results (induction over connection-script lists of any length) + exhaustive behaviour-sequence correspondence against the real statime-metrics-exporter subprocess",
    "category": "proof",
    "text": "Theorems of Properties/C20.v: C20_main (for EVERY finite list of connection scripts - any chunking, premature close, oversize, non-GET, reset, write error on the 200 or the 500 path, any handler outcome - the model tied to the binary satisfies the oracle ok_C20, no exemption), C20_serves_next (unrestricted: after any list of scripts the follow-up GET is being answered within the step budget from a response buffer holding exactly this request's handler output, the process never exits), C20_write_error_on_500_survived (handler failure AND client reset together), C20_accept_error_exits; historic C20_before_fix_* (spin / exit refutations of the loop before commit b7381c9, for all n). The model is tied to the code by running the real binary under all client/observation-socket behaviour sequences up to length 2 (thorough: 3; longer ones sampled) and comparing outcome classes in Coq.",
    "design_ref": "DESIGN.md section 6 (C20), section 7 (F19)",
    "level_note": "Trusted: Coq 8.16.1 kernel + vm_compute; the hand-written model of exporter.rs (validated by correspondence, not verified); the mapping from concrete client behaviours to abstract read/handler/write results in checks/c20.py; tokio, Linux TCP/Unix-socket semantics and timing (observed, with deadlines); no axioms. F19 is repaired (b7381c9); no known finding is excused.",
}

GET = D.GET_REQ
POST = D.POST_REQ
PARTIAL = b"GET /metr"
# terminator ends exactly at byte 2048 (still fits) / at byte 2049 (does not)
_HEAD = b"GET /metrics HTTP/1.1\r\nX-Pad: "
GET_2048 = _HEAD + b"a" * (2048 - len(_HEAD) - 4) + b"\r\n\r\n"
GET_2049 = _HEAD + b"a" * (2049 - len(_HEAD) - 4) + b"\r\n\r\n"
OVER_3000 = b"A" * 3000
OVER_2048 = b"GET /" + b"b" * (2048 - 5)
assert len(GET_2048) == 2048 and len(GET_2049) == 2049 and len(OVER_2048) == 2048

OBS_MODES = ["valid", "trunc", "invalid", "refused", "early"]

SLOW = 0.30       # a slow observation socket answers after this many seconds

# symbol -> (kind of client, argument)
#   G:<m>   well-formed GET, patient client, observation socket behaves as <m>
#   GS:<m>  the same with a SLOW observation socket (accept, wait SLOW, then <m>)
#   GR:<m>  complete GET, then the client RESETS while the reply is pending: the observation
#           socket holds its answer <m> until the reset has been delivered, so write_all fails -
#           on the 200 path (<m> = valid) or on the 500 path (<m> = early / invalid)
SYMBOLS = (["G:" + m for m in OBS_MODES] + ["S:valid", "S:refused", "T:valid", "GB:valid", "P",
           "C0", "Cn", "H0", "Hn", "O3", "O2", "OB", "R2",
           "GR:valid", "GR:early", "GR:invalid", "GS:valid", "GS:early"])


def coq_bytes(b):
    """Concrete syntax of a chunk list for `mk_chunk`, run-length compressed."""
    parts, i = [], 0
    while i < len(b):
        j = i
        while j < len(b) and b[j] == b[i]:
            j += 1
        if j - i >= 16:
            parts.append("repeat %d %d" % (b[i], j - i))
        else:
            parts.append("[" + "; ".join(str(x) for x in b[i:j]) + "]")
        i = j
    # merge adjacent literal lists
    merged = []
    for p in parts:
        if merged and merged[-1].startswith("[") and p.startswith("["):
            merged[-1] = merged[-1][:-1] + "; " + p[1:]
        else:
            merged.append(p)
    return "(" + " ++ ".join(merged) + ")" if merged else "[]"


def reads_term(chunks, end):
    """chunks: list of bytes; end: 'eof' | 'err' | None (= the peer takes the response)."""
    t = {"eof": "[REof]", "err": "[RErr]", None: "[]"}[end]
    for c in reversed(chunks):
        t = "(mk_chunk %s %s)" % (coq_bytes(c), t)
    return t


def conn_term(chunks, end, hnd_ok, wr_ok, gone):
    # the bytes the handler appends to the response buffer are not observed by this check
    # (status codes and liveness only; the content is C19's business): left empty
    return "Conn (mkConn %s %s %s %s)" % (reads_term(chunks, end), "(HOk [])" if hnd_ok else "(HErr [])",
                                          "WOk" if wr_ok else "WErr", "true" if gone else "false")


def model_item(sym):
    """The abstract I/O script that the behaviour `sym` stands for."""
    if sym == "GR":
        sym = "GR:valid"
    if sym.startswith("G:") or sym.startswith("GS:"):
        return conn_term([GET], None, sym.endswith(":valid"), True, False)
    if sym.startswith("GR:"):
        # request read completely, handler outcome by the observation socket, write_all fails
        return conn_term([GET], None, sym == "GR:valid", False, True)
    if sym.startswith("S:"):
        return conn_term([GET[:3], GET[3:30], GET[30:]], None, sym == "S:valid", True, False)
    if sym.startswith("T:"):
        # the request arrives in two segments, cut in the middle of the \r\n\r\n terminator
        return conn_term([GET[:-2], GET[-2:]], None, True, True, False)
    if sym.startswith("GB:"):
        return conn_term([GET_2048], None, True, True, False)
    return {
        "P": conn_term([POST], None, True, True, False),
        "C0": conn_term([], "eof", True, True, True),
        "Cn": conn_term([PARTIAL], "eof", True, True, True),
        "H0": conn_term([], "eof", True, True, False),
        "Hn": conn_term([PARTIAL], "eof", True, True, False),
        "O3": conn_term([OVER_3000], "eof", True, True, False),
        "O2": conn_term([OVER_2048], "eof", True, True, False),
        "OB": conn_term([GET_2049], "eof", True, True, False),
        "R2": conn_term([b"GE"], "err", True, True, True),
    }[sym]


# --------------------------------------------------------------------------
# Driving the real binary

GR_STATS = {"played": 0, "held": 0, "confirmed": 0}     # pending-response resets (coverage only)

REACT = 0.30      # base wait for a reaction the server owes (close / response)
EXTEND = 4.0      # extension while the process is alive and idle (loaded machine)


def await_reaction(exp, sock, base=REACT):
    r = exp.pump(sock, base)
    if r[0] == "none" and exp.final_state(0.1) == "idle":
        r = exp.pump(sock, EXTEND)
    return r


def settle(exp, t=0.12):
    t_end = time.time() + t
    while time.time() < t_end:
        if exp.exit_code() is not None:
            return
        time.sleep(0.005)


def outcome_term(r):
    if r[0] == "status":
        return "OStatus %d" % r[1]
    if r[0] == "closed":
        return "ODropped"
    if r[0] == "none":
        return "ONone"
    return "OStatus 0"


def play(exp, sym):
    """Plays one client behaviour; returns the Coq term of what the client saw."""
    mode = sym.split(":")[1] if ":" in sym else "valid"
    kind = sym.split(":")[0]
    exp.obs.set_mode(mode, delay=SLOW if kind == "GS" else 0.0)
    if kind == "GR":
        # deterministic: the observation socket holds its answer until the reset is delivered
        held, confirmed = D.get_then_reset_while_pending(exp, GET)
        GR_STATS["played"] += 1
        GR_STATS["held"] += 1 if held else 0
        GR_STATS["confirmed"] += 1 if confirmed else 0
        settle(exp, 0.02)
        return "OGone"
    try:
        s = exp.connect()
    except OSError:
        return "OGone" if sym in ("C0", "Cn", "R2") else "ONone"
    try:
        if kind in ("G", "GS", "GB") or sym == "P":
            s.sendall(GET_2048 if kind == "GB" else POST if sym == "P" else GET)
            return outcome_term(await_reaction(exp, s, REACT + (SLOW if kind == "GS" else 0.0)))
        if sym.startswith("S:") or sym.startswith("T:"):
            for part in ((GET[:3], GET[3:30], GET[30:]) if sym.startswith("S:") else (GET[:-2], GET[-2:])):
                s.sendall(part)
                time.sleep(0.02)
            return outcome_term(await_reaction(exp, s))
        if sym in ("C0", "Cn"):
            if sym == "Cn":
                s.sendall(PARTIAL)
            s.close()
            settle(exp)
            return "OGone"
        if sym in ("H0", "Hn", "O3", "O2", "OB"):
            data = {"H0": b"", "Hn": PARTIAL, "O3": OVER_3000, "O2": OVER_2048, "OB": GET_2049}[sym]
            if data:
                s.sendall(data)
            if sym in ("H0", "Hn"):
                s.shutdown(1)
            return outcome_term(await_reaction(exp, s))
        if sym == "R2":
            s.sendall(b"GE")
            time.sleep(0.02)
            D.rst_close(s)
            s = None
            settle(exp)
            return "OGone"
        raise ValueError(sym)
    except OSError:
        return "ODropped"
    finally:
        exp.obs.delay = 0.0
        if s is not None:
            try:
                s.close()
            except OSError:
                pass


def run_sequence(args):
    """Starts a fresh exporter, plays `seq` followed by a well-formed request."""
    idx, seq, payload, binary = args
    full = list(seq) + ["G:valid"]
    outs = []
    with D.Exporter("c20-%d" % idx, payload, binary) as exp:
        for sym in full:
            outs.append(play(exp, sym))
        fin = exp.final_state(0.12)
    items = "[%s]" % "; ".join(model_item(s) for s in full)
    obs = "([%s], %s)" % ("; ".join(outs), {"idle": "FIdle", "spin": "FSpin", "exit": "FExit"}[fin])
    cls = "%s|%s|%s" % (",".join(seq) if seq else "-", " ".join(o.replace("OStatus ", "") for o in outs), fin)
    return (idx, cls, "(%s, %s)" % (items, obs))


def sequences(tier, seed):
    """length 0..2 exhaustively; quick: 40 + 30 sampled of length 3 / 4;
    thorough: length 3 exhaustively + 2000 sampled of length 4."""
    seqs = [()]
    seqs += [(a,) for a in SYMBOLS]
    seqs += list(itertools.product(SYMBOLS, repeat=2))
    rng = random.Random(seed)
    if tier == "quick":
        for n, k in ((40, 3), (30, 4)):
            for _ in range(n):
                seqs.append(tuple(rng.choice(SYMBOLS) for _ in range(k)))
    else:
        seqs += list(itertools.product(SYMBOLS, repeat=3))
        for _ in range(2000):
            seqs.append(tuple(rng.choice(SYMBOLS) for _ in range(4)))
    return seqs


# --------------------------------------------------------------------------

class S(Spec):
    prop = "C20"
    prop_file = "Properties/C20.v"
    case_module = "Exporter.AcceptCases"
    model_targets = ["Exporter/AcceptCases.vo"]
    allowed_axioms = set()
    trusted_base = [
        "Coq 8.16.1 kernel, coqc, vm_compute (no native_compute)",
        "no axioms: every theorem of Properties/C20.v is closed under the global context",
        "hand-written model Exporter/AcceptLoop.v of the accept loop of statime-linux/src/metrics/exporter.rs (validated by this run's correspondence with the real binary)",
        "checks/c20.py + checks/obs_driver.py: mapping of concrete client / observation-socket behaviours to abstract read/handler/write results, process observation (/proc/<pid>/stat CPU time, poll())",
        "tokio, Linux TCP and Unix-socket semantics, timing (deadlines 0.3 s, extended to 4 s while the process is alive and idle)",
        "harness/src/bin/c20obs.rs (real ObservableState serialised with serde_json) and lib/vlib.py",
    ]
    assumptions = [
        "a client that keeps its connection open without sending is outside the property (\"and then goes away\"); the exporter serves connections sequentially",
        "listener-level failures (accept errors) are outside the property; the model exits on them",
        "reset behaviours are made deterministic by the driver: the observation socket accepts the handler's connection and holds its answer until the client's RST has been delivered (the server-side socket has left /proc/net/tcp); 'refused' cannot be combined with a pending-response reset (nothing to hold)",
    ]
    rule = ("every sequence over 22 behaviour symbols (GET x 5 observation-socket behaviours, split-write GET x 2, GET whose terminator ends at byte 2048, "
            "POST, full close after 0/n bytes, half close after 0/n bytes, 3000 and exactly 2048 bytes without terminator, terminator ending at byte 2049, "
            "RST after 2 bytes, RST while the response is pending x 3 observation-socket behaviours (valid = write error on the 200 path; closes early / invalid JSON = "
            "write error on the 500 path; the observation socket holds its answer until the reset is confirmed delivered), patient GET against a slow (0.3 s) "
            "observation socket x 2 (valid, closes early)) of length 0..2 exhaustively (thorough: 0..3), longer ones up to length 4 sampled by seed, each on a fresh exporter "
            "process and followed by a well-formed request; a case class is (sequence, outcomes, final state); only the empty sequence is trivial")
    level = "proof"


def run(tier, seed, replay=None):
    spec = S
    ctx = vlib.Ctx(spec, tier, seed)
    prop = spec.prop
    kfs = vlib.known_findings(prop)
    with vlib.BuildLock():
        ok_model, out_model = vlib.coq_make(spec.model_targets)
        if not ok_model:
            ctx.problems.append("model does not compile: " + vlib.tail_err(out_model))
        prop_vo = spec.prop_file[:-2] + ".vo"
        if tier == "thorough":
            for f in vlib.dep_cone(spec.prop_file):
                if f.startswith("Base/"):
                    continue
                for ext in (".vo", ".vok", ".vos", ".glob"):
                    try:
                        os.remove(os.path.join(vlib.COQ, f[:-2] + ext))
                    except FileNotFoundError:
                        pass
        ok_proof, out_proof = vlib.coq_make([prop_vo])
        if not ok_proof:
            ctx.problems.append("proof obligations of %s do not check: %s" % (spec.prop_file, vlib.tail_err(out_proof)))
        okb, outb = vlib.cargo_build("debug", ["c20obs"])
        if not okb:
            ctx.problems.append("harness build failed: " + outb[-1500:])
            vlib.write_fail(ctx, "harness-build", "The harness no longer builds against /repo:\n" + outb[-4000:])
            return vlib.finish(ctx)
        oke, oute = D.build_exporter()
        if not oke:
            ctx.problems.append("statime-metrics-exporter does not build from /repo: " + oute[-1500:])
            vlib.write_fail(ctx, "exporter-build", "cargo build -p statime-linux --bin statime-metrics-exporter failed:\n" + oute[-4000:])
            return vlib.finish(ctx)

    cone = vlib.dep_cone(spec.prop_file)
    obligations = vlib.count_qed(cone)
    names = vlib.theorem_names(spec.prop_file)
    assum = {}
    if ok_proof:
        assum, raw = vlib.print_assumptions(spec.prop_file[:-2].replace("/", "."), names)
        if assum is None:
            ctx.problems.append("Print Assumptions failed: " + raw[-800:])
            assum = {}
        for n, axs in assum.items():
            extra = [a for a in axs if a.split(".")[-1] not in spec.allowed_axioms]
            if extra:
                ctx.problems.append("theorem %s depends on axioms outside the allow-list: %s" % (n, ", ".join(extra)))
        if tier == "thorough":
            rc, out = vlib.sh(["coqchk", "-silent", "-o", "-Q", ".", "SV", "SV." + spec.prop_file[:-2].replace("/", ".")], cwd=vlib.COQ, timeout=3000)
            ctx.cov["coqchk"] = "exit %d: %s" % (rc, re.sub(r"\s+", " ", out[-600:]))
            if rc != 0:
                ctx.problems.append("coqchk failed: " + out[-800:])
    hits = vlib.forbidden_scan()
    if hits:
        ctx.problems.append("forbidden vernacular in coq/: " + "; ".join(hits[:5]))
    ctx.cov.update({
        "obligations": obligations,
        "discharged": obligations if (ok_proof and ok_model) else 0,
        "checker_cmd": "cd coq && coq_makefile -f _CoqProject -o Makefile && make -j16 %s  (coqc 8.16.1, full .vo)" % prop_vo,
        "trusted_base": list(spec.trusted_base),
        "theorems": {n: (assum.get(n) if assum.get(n) else "closed under the global context") for n in names},
        "proof_files": cone,
    })
    if not ok_model:
        vlib.write_fail(ctx, "model-broken", "The Coq model/case files do not compile.\n" + out_model[-4000:])
        return vlib.finish(ctx)

    rc, out = vlib.run_bin("debug", "c20obs", [])
    try:
        payload = binascii.unhexlify(out.strip().split("\n")[-1])
    except (binascii.Error, ValueError):
        ctx.problems.append("c20obs did not produce a state: " + out[-500:])
        vlib.write_fail(ctx, "harness-run", out[-2000:])
        return vlib.finish(ctx)

    if replay:
        obj = vlib.json.load(open(replay if os.path.isabs(replay) else os.path.join(vlib.ROOT, replay)))
        if "sequence" not in obj:
            vlib.log("replay file names a broken obligation, not an input:")
            vlib.log(vlib.json.dumps(obj, indent=1)[:3000])
            return 1
        c = run_sequence((0, tuple(obj["sequence"]), payload, D.EXPORTER))
        vlib.log("replayed on the current binary: " + c[1])
        mm, bad, err = vlib.eval_cases(prop, spec.case_module, [c], tag="replay")
        if err:
            vlib.log(err)
            return 2
        vlib.log("model/implementation disagreement: %s" % ("yes" if mm else "no"))
        vlib.log("property oracle rejects implementation output: %s" % ("yes" if bad else "no"))
        if bad:
            vlib.log("VIOLATION property=%s replay=%s" % (prop, replay))
            return 1
        return 0

    seqs = sequences(tier, seed)
    jobs = [(i, s, payload, D.EXPORTER) for i, s in enumerate(seqs)]
    cases, errors = [], []
    with ThreadPoolExecutor(max_workers=8) as ex:
        futs = [ex.submit(run_sequence, j) for j in jobs]
        for j, f in zip(jobs, futs):
            try:
                cases.append(f.result())
            except Exception as e:          # driver trouble (not a verdict)
                errors.append("%s: %r" % (",".join(j[1]), e))
    if errors:
        # one retry, sequentially
        retry = [j for j in jobs if any(e.startswith(",".join(j[1]) + ":") for e in errors)]
        errors = []
        for j in retry:
            try:
                cases.append(run_sequence(j))
            except Exception as e:
                errors.append("%s: %r" % (",".join(j[1]), e))
    cases.sort()
    if errors:
        ctx.problems.append("driver could not run %d sequence(s): %s" % (len(errors), "; ".join(errors[:3])))

    mm, bad, err = vlib.eval_cases(prop, spec.case_module, cases, shard=40, tag="drv")
    mism = []
    if err:
        ctx.problems.append("case evaluation failed: " + err)
        mm, bad = [], []
    # a disagreement or an unlisted rejection may be a timing artefact: re-run once before reporting
    suspicious = {c[0] for c in mm} | {c[0] for (c, kf) in bad if not (kf != 0 and kf in kfs)}
    if suspicious:
        redo = [run_sequence(j) for j in jobs if j[0] in suspicious]
        mm2, bad2, err2 = vlib.eval_cases(prop, spec.case_module, redo, shard=40, tag="redo")
        if not err2:
            keep = [c for c in cases if c[0] not in suspicious]
            mm = [c for c in mm if c[0] not in suspicious] + mm2
            bad = [(c, kf) for (c, kf) in bad if c[0] not in suspicious] + bad2
            cases = sorted(keep + redo)
            ctx.cov["rerun_after_first_disagreement"] = len(redo)
    for (c, kf) in bad:
        if kf != 0 and kf in kfs:
            line = "KNOWN-FINDING: property=%s kf=%d %s" % (prop, kf, kfs[kf])
            if line not in ctx.known_lines:
                ctx.known_lines.append(line)
            continue
        if len(ctx.violations) < 5:
            path = vlib.write_replay(prop, "seq-%d" % c[0], {
                "property": prop, "sequence": list(seqs[c[0]]), "seed": seed, "observed": c[1], "case": c[2],
                "what": "the real exporter's per-connection outcomes / final state (second component of the case) are rejected by the property oracle ok_C20 evaluated in Coq",
                "how_to_replay": "./check C20 --replay <this file>"})
            ctx.violations.append((path, ""))
    for c in mm:
        mism.append(c)
    classes = {}
    for c in cases:
        classes.setdefault(c[1], c)
    nontrivial = [k for k in classes if not k.startswith("-|")]
    ctx.known_lines.sort()
    ctx.samples = [classes[k][1] + "  ::  " + classes[k][2][:300] for k in sorted(classes)[:6]]
    hist = {}
    for c in cases:
        k = c[1].split("|")[-1]
        hist[k] = hist.get(k, 0) + 1
    ctx.cov.update({
        "evaluations": len(cases),
        "distinct_nontrivial": len(nontrivial),
        "rule": spec.rule,
        "traces_validated_against_impl": len(cases) - len(mism),
        "final_state_histogram": hist,
        "model_impl_disagreements": len(mism),
        "exhaustive": False,
        "exhaustive_up_to_length": 2 if tier == "quick" else 3,
        "pending_response_resets": dict(GR_STATS),
    })
    if mism:
        c = mism[0]
        ctx.problems.append("correspondence: model and real binary disagree on %d sequence(s), first: [%s] observed %s" % (
            len(mism), ",".join(seqs[c[0]]), c[1]))
    if ctx.problems and not ctx.violations:
        detail = {"property": prop, "broken": ctx.problems,
                  "searched": "%d behaviour sequences on the real binary evaluated by ok_C20 in Coq; none rejected outside the known findings" % len(cases)}
        if mism:
            detail["first_disagreement"] = {"sequence": list(seqs[mism[0][0]]), "observed": mism[0][1], "case": mism[0][2]}
        path = vlib.write_replay(prop, "broken", detail)
        ctx.violations.append((path, "no-failing-input-found"))
    return vlib.finish(ctx)
