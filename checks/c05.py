from vlib import standard_check
import portcheck

META = {
    "property_id": "C05",
    "technique": "Coq refinement proofs (implemented comparison = Figures 34/35 for all data sets; lexicographic-order characterisation => selected best not worse than any candidate and order-independent; decision = Figure 33; pairwise winner selected; C05_main: the complete oracle ok_C05 accepts the model's trace for every valid set-up and every history) + figure-level oracle ok_C05 evaluated in Coq on implementation traces + trace correspondence",
    "category": "proof",
    "text": "Proved in Coq, for all data sets and candidate lists of any length: ds_compare never hits its unreachable arm and returns the outcome of the independently written Figures 34/35; on GM-consistent candidates not sent by the receiver's own clock the comparison is a lexicographic total order, so the selected Erbest/Ebest is a candidate, is not worse than any other candidate, and is independent of the presentation order (Permutation) when keys are distinct; the recommended state is Figure 33 for every own data set, Ebest, Erbest and prior state, with statime's deviation for LISTENING ports. An explicit counter-example shows the figures are intransitive without GM-consistency. The instance-level statement (port states and parent/current/time-properties data sets after each BMCA run are those the figures and Tables 30-33 prescribe for the qualified masters) is the executable oracle ok_C05, computed from the figure-level specification and evaluated in Coq on implementation traces; C05_main proves that this oracle accepts the model's own trace for every valid set-up and every valid event list (coupling MainC05.cp5 between every port's foreign-master list and the oracle's candidates; Erbest and Ebest are the pairwise winners by C05_condorcet_winner_selected, which needs neither transitivity nor grandmaster consistency), so a disagreement between implementation and oracle is always also a disagreement between implementation and model.",
    "design_ref": "DESIGN.md section 6 (C05)",
    "level_note": "The oracle judges a BMCA run only when every master a port has heard announced at least twice since the previous run, no Announce bore the clock's own identity, no sequence id moved backwards or by 2^15 in total, at most eight masters were heard on a port and the figure-level comparison has a pairwise winner (stated in OracleC05.v; other runs are skipped, not excused). Theorems are about Port/Bmc.v vs Port/BmcaSpec.v (closed under the global context). BmcaSpec.v is the author's reading of IEEE 1588-2019 Figures 33-35 (the standard's text is not available in the sandbox). The M1/M2 time-properties constants are statime's choice (adopted, see DESIGN). Data set update tables are checked through the oracle and C11's lemmas; the dead-assertion lemmas for master-only ports are part of C03.",
}

S = portcheck.make(
    "C05", "Port.OracleC05",
    [("c05", "debug", 500, 20000), ("c05", "release", 150, 4000), ("mix", "debug", 100, 2000)],
    rule="1-3 ports (some master-only), 1-3 foreign masters announcing on random subsets of ports twice per round in shuffled order, grandmaster attributes from a 3-entry table over small domains (priority1/2 in {127,128}, class in {6,127,128,248}, accuracy, variance), stepsRemoved in {0,1,2,3,254}, sender identities below/above the own identity, prior states Listening/Master/Slave/Passive over 1-3 rounds with quality / grandmaster / steps / slave-only changes between rounds; class = outcome : ports : masters : rounds : changes : final states",
    trivial=(),
)


def run(tier, seed, replay=None):
    return standard_check(S, tier, seed, replay)
