"""C19 - Observability data reaches the metrics endpoint unaltered.

Coq: Generated/MetricTable.v (translated from format.rs on every run),
Obs/Json.v (serde/JSON model), Obs/Prom.v (format.rs model, driven by the
table), Obs/MetricSpec.v + Obs/ObsCases.v (classification, oracle),
Obs/*Lemmas.v (proofs), Properties/C19.v (statements).

Tie: harness/src/bin/c19.rs builds observable states with the REAL statime /
statime-linux types and serialises them with serde_json::to_vec (what
observer.rs sends); the bytes are served on a scripted observation socket to
the REAL statime-metrics-exporter binary (built from /repo's current working
tree on every run); its HTTP response is fetched over TCP.  In Coq: the model's
print (to_json s) must equal the JSON bytes, the model's render must equal the
HTTP response byte for byte, and the oracle ok_C19 (written from the property
text) judges the IMPLEMENTATION's bytes.

The exporter is ONE long-running process whose response buffer lives across
requests (Exporter/AcceptLoop.v carries it as state; Properties/C19.v:
C19_wire_fresh, C19_reply_is_own_observation).  Therefore every state is served
after a HISTORY of other clients (see `history_of`): resets while a response is
pending (write error on the 200 path with ANOTHER state's response in the
buffer, and on the 500 path), failing / slow observation sockets, premature
closes.  Everything the exporter writes on the judged connection is read up to
EOF, so the oracle sees whether it is exactly ONE response with the values of
the state served for THAT request.
"""
import binascii
import os
import re
import sys

sys.path.insert(0, os.path.dirname(os.path.abspath(__file__)))
import obs_driver as D
import vlib
from vlib import Spec

sys.path.insert(0, os.path.join(vlib.ROOT, "translate"))
import gen_metric_table

META = {
    "property_id": "C19",
    "technique": "Coq proof (JSON print/parse round trip for all values and all states, exposition-format rendering parses back, finite theorems over the metric table translated from format.rs) + byte-exact correspondence of the JSON and HTTP/Prometheus model against serde_json and the real statime-metrics-exporter binary",
    "category": "proof",
    "text": "Properties/C19.v: table theorems over the metric table regenerated from format.rs on every run (unit in the name = unit of the value, boolean help text = true-as-1 encoding, for EVERY row, no exemption), json_roundtrip (of_json (parse (print (to_json s))) = Some s for every well-formed state, path trace lists and port lists of any length, integers of any size), render/parse theorems for the exposition format and Content-Length; C19_wire_fresh / C19_reply_is_own_observation (accept-loop machine carrying the response buffer across requests: for EVERY list of connection scripts each client receives exactly its own request's handler output, nothing of an earlier reply - after resets, write errors, failing handlers), C19_clear_after_write_refuted (the counterfactual 'clear after a successful write' serves stale bytes).  Tie: states built with the real statime types -> serde_json::to_vec bytes == model bytes; same bytes served to the real exporter binary; everything the exporter wrote on the connection (read up to EOF) == model's render byte for byte; oracle ok_C19 evaluated on the implementation's bytes.  All states go through ONE exporter process, 5 of every 12 after a history of other clients (resets while a 200 response of ANOTHER state / a 500 response is pending, failing observation sockets, premature close), every 40th from a slow observation socket.",
    "design_ref": "DESIGN.md section 6 (C19), section 7 (F10, F11)",
    "level_note": "Trusted: Coq 8.16.1 kernel + vm_compute (+ primitive 63-bit integers, used only to transport bytes into case files); translate/gen_metric_table.py and the hand-written classification Obs/MetricSpec.v; hand-written models Obs/Json.v, Obs/Prom.v (validated byte for byte by this run's correspondence); f64 Display / serde_json float printing and parsing are NOT modelled (decimal tokens are supplied by the implementation and compared as strings; the oracle reads them as exact rationals); serde, serde_json, tokio, harness, drivers. The snapshot getters (instance state -> observable data sets) are covered by the port/instance correspondences, not here. F10, F11, the one-ulp uptime change and the 16 KiB single read are repaired (fef2df5, 906e592, 84ad86f, 04bf296); no known finding is excused.",
}


class S(Spec):
    prop = "C19"
    prop_file = "Properties/C19.v"
    case_module = "Obs.ObsCases"
    model_targets = ["Obs/ObsCases.vo", "Obs/MetricSpec.vo"]
    allowed_axioms = set()
    trusted_base = [
        "Coq 8.16.1 kernel, coqc, vm_compute (no native_compute); primitive Uint63 only as byte transport of case files",
        "no axioms: every theorem of Properties/C19.v is closed under the global context",
        "translate/gen_metric_table.py (format.rs -> Generated/MetricTable.v, re-run every time) and the hand-written classification Obs/MetricSpec.v",
        "hand-written models Obs/Json.v (serde / serde_json) and Obs/Prom.v (format.rs), validated byte for byte by this run",
        "f64 Display, serde_json's float printer and parser: abstract tokens supplied by the implementation",
        "harness/src/bin/c19.rs (real statime types -> state term, tokens, serde_json::to_vec), checks/c19.py + checks/obs_driver.py, lib/vlib.py",
        "hand-written model Exporter/AcceptLoop.v of the accept loop incl. the response buffer (its status/liveness side is validated by C20's correspondence; its content side by this run: every reply after a history equals the render of the state served for that request)",
        "Linux TCP semantics for the reset histories (RST delivery observed through /proc/net/tcp before the observation socket answers)",
    ]
    assumptions = [
        "strings in the state (version, commit, date) are free of double quotes and backslashes (the JSON model has no escapes)",
        "ClockAccuracy::ProfileSpecific(v) / TimeSource::ProfileSpecific(v) only with values reachable from the wire (0x80+v, 0xf0+v fit u8)",
        "the daemon closes the observation connection after one message (read_json reads to EOF)",
        "snapshot getters (live data sets -> observable data sets) are not part of this check",
    ]
    rule = ("case i of seed s: role by i mod 3 (grandmaster / slave / boundary clock), time-properties combination and port-state rotation by i div 3, "
            "delay mechanism by (i + port) mod 5, path trace length from {0,1,2,8,127,128,random}, offsets/delays from a lattice "
            "(0, 1 bit, 1 ns, 1.5 us, 1 ms, 1 s, 2^63 +-1, 2^64+, 10 s, uniform) with both signs, uptimes incl. exponent notation and 17-digit values; "
            "big boundary clocks (52-71 ports, JSON > 16 KiB) are a family of their own; every third state and every large one reaches the exporter in several chunks; "
            "all states are served by ONE exporter process; by i mod 12 a state is requested after a history of other clients on the same process "
            "(2: reset while the 200 response of the PREVIOUS state is pending; 4: reset while a 500 is pending (observation socket closes early); 6: the same with invalid JSON, then a patient client answered 500; "
            "8: premature close, two pending-response resets; 10: truncated JSON answered 500, then a pending-response reset), i mod 40 = 7: slow (0.3 s) observation socket; "
            "the observation socket holds its answer until the reset is confirmed delivered; everything written on the judged connection is read up to EOF; "
            "a class is (role, size flag, ports, path length class, offset sign/size, time-property bits, port states, delivery, history and its outcomes); all classes are non-trivial")
    level = "proof"


def pack(b):
    return "[" + "; ".join(str(int.from_bytes(b"\x01" + b[i:i + 7], "big")) for i in range(0, len(b), 7)) + "]%uint63"


def translate():
    gen_metric_table.main()




SLOW = 0.30      # a slow observation socket answers after this many seconds

# What other clients did to the SAME exporter process right before state i is requested
# (a pure function of the index, so a replay reproduces it on a fresh process).
HISTORIES = {
    2: ["rst:valid"],                       # reset while the 200 response (of ANOTHER state) is pending
    4: ["rst:early"],                       # reset while the 500 response is pending
    6: ["rst:invalid", "get:early"],        # the same with invalid JSON, then a patient client getting 500
    8: ["close", "rst:valid", "rst:valid"],  # premature close, two pending-response resets in a row
    10: ["get:trunc", "rst:valid"],         # truncated JSON answered with 500, then a reset on the 200 path
}


def history_of(i):
    return HISTORIES.get(i % 12, [])


def slow_of(i):
    """Every 40th state comes from a SLOW observation socket (patient client)."""
    return SLOW if i % 40 == 7 else 0.0


def play_history(exp, hist, other_js):
    """Plays the behaviours of `hist`; `other_js`: valid JSON of a DIFFERENT state (what the
    observation socket serves to the clients that reset).  Returns a tag for the case class."""
    tags = []
    for h in hist:
        if exp.exit_code() is not None:
            break
        kind, _, mode = h.partition(":")
        if kind == "rst":
            if mode == "valid" and other_js is None:
                mode = "early"
            exp.obs.set_mode(mode, other_js if mode == "valid" else None)
            held, confirmed = D.get_then_reset_while_pending(exp)
            tags.append("%s%s" % (h, "" if (held and confirmed) else "(unconfirmed)"))
        elif kind == "get":
            exp.obs.set_mode(mode, other_js if other_js is not None else None)
            r = D.http_get(exp, 5.0, until_eof=True)
            tags.append("%s=%s" % (h, r[1] if r[0] == "status" else r[0]))
        elif kind == "close":
            try:
                s = exp.connect()
                s.sendall(b"GET /metr")
                s.close()
            except OSError:
                pass
            tags.append(h)
    return ",".join(tags)


class Proc:
    """ONE exporter process for all cases; started again only when it has exited."""

    def __init__(self, binary):
        self.binary, self.exp, self.starts = binary, None, 0

    def get(self):
        if self.exp is not None and self.exp.exit_code() is not None:
            self.close()
        if self.exp is None:
            self.starts += 1
            self.exp = D.Exporter("c19-%d" % self.starts, b"{}", self.binary).__enter__()
        return self.exp

    def close(self):
        if self.exp is not None:
            self.exp.__exit__(None, None, None)
            self.exp = None


def drive_cases(lines, binary, only=None, notes=None):
    """Feeds every state to ONE exporter process, each after its history; returns cases
    [(index, class, term)].  only: set of indices to judge (the others only lend their JSON to
    the histories).  notes: list receiving remarks (exporter exits)."""
    cases = []
    proc = Proc(binary)
    other_js = None
    try:
        for (i, cls, term) in lines:
            st, ft, hx = term.split(" @@ ")
            js = binascii.unhexlify(hx)
            if only is not None and i not in only:
                other_js = js
                continue
            exp = proc.get()
            hist = history_of(i)
            htag = play_history(exp, hist, other_js) if hist else ""
            # every third state and every large one is delivered in several chunks
            chunked = (i % 3 == 1) or len(js) > 16384
            exp.obs.set_mode("chunked" if chunked else "valid", js, delay=slow_of(i))
            # everything the exporter writes on this connection, up to its close
            r = D.http_get(exp, 5.0 + slow_of(i), until_eof=True)
            exp.obs.delay = 0.0
            tag = str(r[1]) if r[0] == "status" else r[0]
            if r[0] != "status":
                exp.wait_exit(1.0)          # no response at all: has the process gone?
            if exp.exit_code() is not None:
                tag += ":exited(%s)" % exp.exit_code()
                if notes is not None:
                    notes.append("exporter exited (status %s) while serving state #%d after history [%s]: %s" % (
                        exp.exit_code(), i, htag, exp.stderr_tail()[-300:]))
            cases.append((i, "%s:%s%s%s%s" % (cls, tag, ":chunked" if chunked else "", ":slow" if slow_of(i) else "",
                                             (":after[" + htag + "]") if htag else ""),
                          "(%s, %s, %s, %s)" % (st, ft, pack(js), pack(r[2]))))
            other_js = js
    finally:
        proc.close()
    if notes is not None and proc.starts > 1:
        notes.append("the exporter had to be started %d times" % proc.starts)
    return cases


def run(tier, seed, replay=None):
    spec = S
    ctx = vlib.Ctx(spec, tier, seed)
    prop = spec.prop
    kfs = vlib.known_findings(prop)
    with vlib.BuildLock():
        try:
            translate()
        except Exception as ex:
            ctx.problems.append("translator gen_metric_table failed: %s" % ex)
        ok_model, out_model = vlib.coq_make(spec.model_targets)
        if not ok_model:
            ctx.problems.append("model does not compile: " + vlib.tail_err(out_model))
        prop_vo = spec.prop_file[:-2] + ".vo"
        if tier == "thorough":
            for f in vlib.dep_cone(spec.prop_file):
                if f.startswith("Base/"):
                    continue
                for ext in (".vo", ".vok", ".vos", ".glob"):
                    try:
                        os.remove(os.path.join(vlib.COQ, f[:-2] + ext))
                    except FileNotFoundError:
                        pass
        ok_proof, out_proof = vlib.coq_make([prop_vo])
        if not ok_proof:
            ctx.problems.append("proof obligations of %s do not check: %s" % (spec.prop_file, vlib.tail_err(out_proof)))
        okb, outb = vlib.cargo_build("debug", ["c19", "c19ulp"])
        if not okb:
            ctx.problems.append("harness build failed: " + outb[-1500:])
            vlib.write_fail(ctx, "harness-build", "The harness no longer builds against /repo:\n" + outb[-4000:])
            return vlib.finish(ctx)
        oke, oute = D.build_exporter()
        if not oke:
            ctx.problems.append("statime-metrics-exporter does not build from /repo: " + oute[-1500:])
            vlib.write_fail(ctx, "exporter-build", "cargo build -p statime-linux --bin statime-metrics-exporter failed:\n" + oute[-4000:])
            return vlib.finish(ctx)

    cone = vlib.dep_cone(spec.prop_file)
    obligations = vlib.count_qed(cone)
    names = vlib.theorem_names(spec.prop_file)
    assum = {}
    if ok_proof:
        assum, raw = vlib.print_assumptions(spec.prop_file[:-2].replace("/", "."), names)
        if assum is None:
            ctx.problems.append("Print Assumptions failed: " + raw[-800:])
            assum = {}
        for n, axs in assum.items():
            extra = [a for a in axs if a.split(".")[-1] not in spec.allowed_axioms]
            if extra:
                ctx.problems.append("theorem %s depends on axioms outside the allow-list: %s" % (n, ", ".join(extra)))
        if tier == "thorough":
            rc, out = vlib.sh(["coqchk", "-silent", "-o", "-Q", ".", "SV", "SV." + spec.prop_file[:-2].replace("/", ".")], cwd=vlib.COQ, timeout=3000)
            ctx.cov["coqchk"] = "exit %d: %s" % (rc, re.sub(r"\s+", " ", out[-600:]))
            if rc != 0:
                ctx.problems.append("coqchk failed: " + out[-800:])
    hits = vlib.forbidden_scan()
    if hits:
        ctx.problems.append("forbidden vernacular in coq/: " + "; ".join(hits[:5]))
    ctx.cov.update({
        "obligations": obligations,
        "discharged": obligations if (ok_proof and ok_model) else 0,
        "checker_cmd": "python3 translate/gen_metric_table.py && cd coq && coq_makefile -f _CoqProject -o Makefile && make -j16 %s  (coqc 8.16.1, full .vo)" % prop_vo,
        "trusted_base": list(spec.trusted_base),
        "theorems": {n: (assum.get(n) if assum.get(n) else "closed under the global context") for n in names},
        "proof_files": cone,
    })
    if not ok_model:
        vlib.write_fail(ctx, "model-broken", "The Coq model/case files do not compile.\n" + out_model[-4000:])
        return vlib.finish(ctx)

    if replay:
        obj = vlib.json.load(open(replay if os.path.isabs(replay) else os.path.join(vlib.ROOT, replay)))
        if "index" not in obj:
            vlib.log("replay file names a broken obligation, not an input:")
            vlib.log(vlib.json.dumps(obj, indent=1)[:3000])
            return 1
        # the state before it lends its JSON to the history (what the resetting clients were served)
        first = max(obj["index"] - 1, 0)
        rc, out = vlib.run_bin("debug", "c19", ["--seed", obj["seed"], "--start", first, "--count", obj["index"] - first + 1])
        notes = []
        cases = drive_cases(vlib.parse_case_lines(out), D.EXPORTER, only={obj["index"]}, notes=notes)
        vlib.log("regenerated state %d of seed %d and served it to a fresh process of the current exporter binary after its history %s: %s" % (
            obj["index"], obj["seed"], history_of(obj["index"]), cases[0][1]))
        for n in notes:
            vlib.log(n)
        mm, bad, err = vlib.eval_cases(prop, spec.case_module, cases, tag="replay")
        if err:
            vlib.log(err)
            return 2
        vlib.log("model/implementation disagreement: %s" % ("yes" if mm else "no"))
        vlib.log("property oracle rejects implementation output: %s" % ("yes" if bad else "no"))
        if bad:
            vlib.log("VIOLATION property=%s replay=%s" % (prop, replay))
            return 1
        return 0

    scale = 10 if ctx.problems else 1
    count = (360 if tier == "quick" else 20000) * scale
    rc, out = vlib.run_bin("debug", "c19", ["--seed", seed, "--count", count])
    if rc != 0:
        ctx.problems.append("harness c19 exited %d: %s" % (rc, out[-1500:]))
        vlib.write_fail(ctx, "harness-run", out[-3000:])
        return vlib.finish(ctx)
    lines = vlib.parse_case_lines(out)
    notes = []
    try:
        cases = drive_cases(lines, D.EXPORTER, notes=notes)
    except Exception as ex:
        ctx.problems.append("driving the exporter failed: %r" % ex)
        vlib.write_fail(ctx, "driver", repr(ex))
        return vlib.finish(ctx)

    # the only f64 of the state must survive serde_json's print -> parse exactly (float_roundtrip)
    rcu, outu = vlib.run_bin("debug", "c19ulp", ["--seed", seed, "--count", 200000 if tier == "quick" else 5000000])
    mu = re.match(r"\s*(\d+) (\d+)", outu.strip().split("\n")[-1]) if rcu == 0 else None
    if not mu:
        ctx.problems.append("c19ulp failed: " + outu[-300:])
    else:
        ctx.cov["uptime_json_hop"] = "%s of %s nanosecond-resolution uptimes changed" % (mu.group(1), mu.group(2))
        if int(mu.group(1)) != 0:
            path = vlib.write_replay(prop, "uptime-hop", {
                "property": prop, "what": "an f64 uptime does not survive serde_json::to_string -> from_str unchanged",
                "detail": outu.strip()[-300:], "how_to_replay": "harness binary c19ulp --seed %d --count 200000" % seed})
            ctx.violations.append((path, ""))

    mm, bad, err = vlib.eval_cases(prop, spec.case_module, cases, shard=25, tag="drv")
    if err:
        ctx.problems.append("case evaluation failed: " + err)
        mm, bad = [], []
    for (c, kf) in bad:
        if kf != 0 and kf in kfs:          # no known finding is registered for C19 any more
            line = "KNOWN-FINDING: property=%s kf=%d %s" % (prop, kf, kfs[kf])
            if line not in ctx.known_lines:
                ctx.known_lines.append(line)
            continue
        if len(ctx.violations) < 5:
            path = vlib.write_replay(prop, "c19-debug-%d" % c[0], {
                "property": prop, "bin": "c19", "profile": "debug", "seed": seed, "index": c[0], "class": c[1],
                "history": history_of(c[0]), "slow_observation_socket": bool(slow_of(c[0])),
                "case": c[2][:6000],
                "what": "the bytes produced by the implementation (serde_json::to_vec of the state / EVERYTHING the real exporter wrote on the connection of this request, after the history of other clients named here) are rejected by the property oracle ok_C19 evaluated in Coq: not exactly one response whose Content-Length matches and whose values are those of the state served for this request",
                "how_to_replay": "./check C19 --replay <this file>"})
            ctx.violations.append((path, ""))
    ctx.known_lines.sort()
    classes = {}
    for c in cases:
        classes.setdefault(c[1], c)
    ctx.samples = [classes[k][1] + "  ::  " + classes[k][2][:400] for k in sorted(classes)[:6]]
    hist = {}
    for c in cases:
        k = c[1].split(":")[0]
        hist[k] = hist.get(k, 0) + 1
    ctx.cov.update({
        "evaluations": len(cases),
        "distinct_nontrivial": len(classes),
        "rule": spec.rule,
        "traces_validated_against_impl": len(cases) - len(mm),
        "class_histogram": hist,
        "model_impl_disagreements": len(mm),
        "metric_table_rows": len(re.findall(r"mkMetric ", open(gen_metric_table.OUT).read())) - 1,
        "served_after_a_history": sum(1 for c in cases if ":after[" in c[1]),
        "pending_response_resets_unconfirmed": sum(c[1].count("(unconfirmed)") for c in cases),
        "driver_notes": notes[:5],
    })
    if not mm and not ctx.violations and not err:
        # the case files are large (every response travels into Coq); keep them only for diagnosis
        import shutil
        shutil.rmtree(os.path.join(vlib.WORK, prop), ignore_errors=True)
    if mm:
        c = mm[0]
        ctx.problems.append("correspondence: model and implementation disagree on %d case(s), first: state #%d %s" % (len(mm), c[0], c[1]))
    if ctx.problems and not ctx.violations:
        detail = {"property": prop, "broken": ctx.problems,
                  "searched": "%d states served to the real exporter and judged by ok_C19 in Coq; none rejected outside the known findings" % len(cases)}
        if mm:
            detail["first_disagreement"] = {"bin": "c19", "seed": seed, "index": mm[0][0], "class": mm[0][1]}
        path = vlib.write_replay(prop, "broken", detail)
        ctx.violations.append((path, "no-failing-input-found"))
    return vlib.finish(ctx)
