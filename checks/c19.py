"""C19 - Observability data reaches the metrics endpoint unaltered.

Coq: Generated/MetricTable.v (translated from format.rs on every run),
Obs/Json.v (serde/JSON model), Obs/Prom.v (format.rs model, driven by the
table), Obs/MetricSpec.v + Obs/ObsCases.v (classification, oracle),
Obs/*Lemmas.v (proofs), Properties/C19.v (statements).

Tie: harness/src/bin/c19.rs builds observable states with the REAL statime /
statime-linux types and serialises them with serde_json::to_vec (what
observer.rs sends); the bytes are served on a scripted observation socket to
the REAL statime-metrics-exporter binary (built from /repo's current working
tree on every run); its HTTP response is fetched over TCP.  In Coq: the model's
print (to_json s) must equal the JSON bytes, the model's render must equal the
HTTP response byte for byte, and the oracle ok_C19 (written from the property
text) judges the IMPLEMENTATION's bytes.
"""
import binascii
import os
import re
import sys

sys.path.insert(0, os.path.dirname(os.path.abspath(__file__)))
import obs_driver as D
import vlib
from vlib import Spec

sys.path.insert(0, os.path.join(vlib.ROOT, "translate"))
import gen_metric_table

META = {
    "property_id": "C19",
    "technique": "Coq proof (JSON print/parse round trip for all values and all states, exposition-format rendering parses back, finite theorems over the metric table translated from format.rs) + byte-exact correspondence of the JSON and HTTP/Prometheus model against serde_json and the real statime-metrics-exporter binary",
    "category": "proof",
    "text": "Properties/C19.v: table theorems over the metric table regenerated from format.rs on every run (unit in the name = unit of the value, boolean help text = true-as-1 encoding, for EVERY row, no exemption), json_roundtrip (of_json (parse (print (to_json s))) = Some s for every well-formed state, path trace lists and port lists of any length, integers of any size), render/parse theorems for the exposition format and Content-Length.  Tie: states built with the real statime types -> serde_json::to_vec bytes == model bytes; same bytes served to the real exporter binary; HTTP response == model's render byte for byte; oracle ok_C19 evaluated on the implementation's bytes.",
    "design_ref": "DESIGN.md section 6 (C19), section 7 (F10, F11)",
    "level_note": "Trusted: Coq 8.16.1 kernel + vm_compute (+ primitive 63-bit integers, used only to transport bytes into case files); translate/gen_metric_table.py and the hand-written classification Obs/MetricSpec.v; hand-written models Obs/Json.v, Obs/Prom.v (validated byte for byte by this run's correspondence); f64 Display / serde_json float printing and parsing are NOT modelled (decimal tokens are supplied by the implementation and compared as strings; the oracle reads them as exact rationals); serde, serde_json, tokio, harness, drivers. The snapshot getters (instance state -> observable data sets) are covered by the port/instance correspondences, not here. F10, F11, the one-ulp uptime change and the 16 KiB single read are repaired (fef2df5, 906e592, 84ad86f, 04bf296); no known finding is excused.",
}


class S(Spec):
    prop = "C19"
    prop_file = "Properties/C19.v"
    case_module = "Obs.ObsCases"
    model_targets = ["Obs/ObsCases.vo", "Obs/MetricSpec.vo"]
    allowed_axioms = set()
    trusted_base = [
        "Coq 8.16.1 kernel, coqc, vm_compute (no native_compute); primitive Uint63 only as byte transport of case files",
        "no axioms: every theorem of Properties/C19.v is closed under the global context",
        "translate/gen_metric_table.py (format.rs -> Generated/MetricTable.v, re-run every time) and the hand-written classification Obs/MetricSpec.v",
        "hand-written models Obs/Json.v (serde / serde_json) and Obs/Prom.v (format.rs), validated byte for byte by this run",
        "f64 Display, serde_json's float printer and parser: abstract tokens supplied by the implementation",
        "harness/src/bin/c19.rs (real statime types -> state term, tokens, serde_json::to_vec), checks/c19.py + checks/obs_driver.py, lib/vlib.py",
    ]
    assumptions = [
        "strings in the state (version, commit, date) are free of double quotes and backslashes (the JSON model has no escapes)",
        "ClockAccuracy::ProfileSpecific(v) / TimeSource::ProfileSpecific(v) only with values reachable from the wire (0x80+v, 0xf0+v fit u8)",
        "the daemon closes the observation connection after one message (read_json reads to EOF)",
        "snapshot getters (live data sets -> observable data sets) are not part of this check",
    ]
    rule = ("case i of seed s: role by i mod 3 (grandmaster / slave / boundary clock), time-properties combination and port-state rotation by i div 3, "
            "delay mechanism by (i + port) mod 5, path trace length from {0,1,2,8,127,128,random}, offsets/delays from a lattice "
            "(0, 1 bit, 1 ns, 1.5 us, 1 ms, 1 s, 2^63 +-1, 2^64+, 10 s, uniform) with both signs, uptimes incl. exponent notation and 17-digit values; "
            "big boundary clocks (52-71 ports, JSON > 16 KiB) are a family of their own; every third state and every large one reaches the exporter in several chunks; "
            "a class is (role, size flag, ports, path length class, offset sign/size, time-property bits, port states, delivery); all classes are non-trivial")
    level = "proof"


def pack(b):
    return "[" + "; ".join(str(int.from_bytes(b"\x01" + b[i:i + 7], "big")) for i in range(0, len(b), 7)) + "]%uint63"


def translate():
    gen_metric_table.main()




def drive_cases(lines, binary):
    """Feeds every state to ONE exporter process; returns cases [(index, class, term)]."""
    cases = []
    with D.Exporter("c19", b"{}", binary) as exp:
        for (i, cls, term) in lines:
            st, ft, hx = term.split(" @@ ")
            js = binascii.unhexlify(hx)
            # every third state and every large one is delivered in several chunks
            chunked = (i % 3 == 1) or len(js) > 16384
            exp.obs.set_mode("chunked" if chunked else "valid", js)
            r = D.http_get(exp, 5.0)
            if exp.exit_code() is not None:
                raise RuntimeError("exporter exited (status %s) while serving case %d: %s" % (exp.exit_code(), i, exp.stderr_tail()))
            tag = str(r[1]) if r[0] == "status" else r[0]
            cases.append((i, "%s:%s%s" % (cls, tag, ":chunked" if chunked else ""), "(%s, %s, %s, %s)" % (st, ft, pack(js), pack(r[2]))))
    return cases


def run(tier, seed, replay=None):
    spec = S
    ctx = vlib.Ctx(spec, tier, seed)
    prop = spec.prop
    kfs = vlib.known_findings(prop)
    with vlib.BuildLock():
        try:
            translate()
        except Exception as ex:
            ctx.problems.append("translator gen_metric_table failed: %s" % ex)
        ok_model, out_model = vlib.coq_make(spec.model_targets)
        if not ok_model:
            ctx.problems.append("model does not compile: " + vlib.tail_err(out_model))
        prop_vo = spec.prop_file[:-2] + ".vo"
        if tier == "thorough":
            for f in vlib.dep_cone(spec.prop_file):
                if f.startswith("Base/"):
                    continue
                for ext in (".vo", ".vok", ".vos", ".glob"):
                    try:
                        os.remove(os.path.join(vlib.COQ, f[:-2] + ext))
                    except FileNotFoundError:
                        pass
        ok_proof, out_proof = vlib.coq_make([prop_vo])
        if not ok_proof:
            ctx.problems.append("proof obligations of %s do not check: %s" % (spec.prop_file, vlib.tail_err(out_proof)))
        okb, outb = vlib.cargo_build("debug", ["c19", "c19ulp"])
        if not okb:
            ctx.problems.append("harness build failed: " + outb[-1500:])
            vlib.write_fail(ctx, "harness-build", "The harness no longer builds against /repo:\n" + outb[-4000:])
            return vlib.finish(ctx)
        oke, oute = D.build_exporter()
        if not oke:
            ctx.problems.append("statime-metrics-exporter does not build from /repo: " + oute[-1500:])
            vlib.write_fail(ctx, "exporter-build", "cargo build -p statime-linux --bin statime-metrics-exporter failed:\n" + oute[-4000:])
            return vlib.finish(ctx)

    cone = vlib.dep_cone(spec.prop_file)
    obligations = vlib.count_qed(cone)
    names = vlib.theorem_names(spec.prop_file)
    assum = {}
    if ok_proof:
        assum, raw = vlib.print_assumptions(spec.prop_file[:-2].replace("/", "."), names)
        if assum is None:
            ctx.problems.append("Print Assumptions failed: " + raw[-800:])
            assum = {}
        for n, axs in assum.items():
            extra = [a for a in axs if a.split(".")[-1] not in spec.allowed_axioms]
            if extra:
                ctx.problems.append("theorem %s depends on axioms outside the allow-list: %s" % (n, ", ".join(extra)))
        if tier == "thorough":
            rc, out = vlib.sh(["coqchk", "-silent", "-o", "-Q", ".", "SV", "SV." + spec.prop_file[:-2].replace("/", ".")], cwd=vlib.COQ, timeout=3000)
            ctx.cov["coqchk"] = "exit %d: %s" % (rc, re.sub(r"\s+", " ", out[-600:]))
            if rc != 0:
                ctx.problems.append("coqchk failed: " + out[-800:])
    hits = vlib.forbidden_scan()
    if hits:
        ctx.problems.append("forbidden vernacular in coq/: " + "; ".join(hits[:5]))
    ctx.cov.update({
        "obligations": obligations,
        "discharged": obligations if (ok_proof and ok_model) else 0,
        "checker_cmd": "python3 translate/gen_metric_table.py && cd coq && coq_makefile -f _CoqProject -o Makefile && make -j16 %s  (coqc 8.16.1, full .vo)" % prop_vo,
        "trusted_base": list(spec.trusted_base),
        "theorems": {n: (assum.get(n) if assum.get(n) else "closed under the global context") for n in names},
        "proof_files": cone,
    })
    if not ok_model:
        vlib.write_fail(ctx, "model-broken", "The Coq model/case files do not compile.\n" + out_model[-4000:])
        return vlib.finish(ctx)

    if replay:
        obj = vlib.json.load(open(replay if os.path.isabs(replay) else os.path.join(vlib.ROOT, replay)))
        if "index" not in obj:
            vlib.log("replay file names a broken obligation, not an input:")
            vlib.log(vlib.json.dumps(obj, indent=1)[:3000])
            return 1
        rc, out = vlib.run_bin("debug", "c19", ["--seed", obj["seed"], "--only", obj["index"]])
        cases = drive_cases(vlib.parse_case_lines(out), D.EXPORTER)
        vlib.log("regenerated state %d of seed %d and served it to the current exporter binary: %s" % (obj["index"], obj["seed"], cases[0][1]))
        mm, bad, err = vlib.eval_cases(prop, spec.case_module, cases, tag="replay")
        if err:
            vlib.log(err)
            return 2
        vlib.log("model/implementation disagreement: %s" % ("yes" if mm else "no"))
        vlib.log("property oracle rejects implementation output: %s" % ("yes" if bad else "no"))
        if bad:
            vlib.log("VIOLATION property=%s replay=%s" % (prop, replay))
            return 1
        return 0

    scale = 10 if ctx.problems else 1
    count = (360 if tier == "quick" else 20000) * scale
    rc, out = vlib.run_bin("debug", "c19", ["--seed", seed, "--count", count])
    if rc != 0:
        ctx.problems.append("harness c19 exited %d: %s" % (rc, out[-1500:]))
        vlib.write_fail(ctx, "harness-run", out[-3000:])
        return vlib.finish(ctx)
    lines = vlib.parse_case_lines(out)
    try:
        cases = drive_cases(lines, D.EXPORTER)
    except Exception as ex:
        ctx.problems.append("driving the exporter failed: %r" % ex)
        vlib.write_fail(ctx, "driver", repr(ex))
        return vlib.finish(ctx)

    # the only f64 of the state must survive serde_json's print -> parse exactly (float_roundtrip)
    rcu, outu = vlib.run_bin("debug", "c19ulp", ["--seed", seed, "--count", 200000 if tier == "quick" else 5000000])
    mu = re.match(r"\s*(\d+) (\d+)", outu.strip().split("\n")[-1]) if rcu == 0 else None
    if not mu:
        ctx.problems.append("c19ulp failed: " + outu[-300:])
    else:
        ctx.cov["uptime_json_hop"] = "%s of %s nanosecond-resolution uptimes changed" % (mu.group(1), mu.group(2))
        if int(mu.group(1)) != 0:
            path = vlib.write_replay(prop, "uptime-hop", {
                "property": prop, "what": "an f64 uptime does not survive serde_json::to_string -> from_str unchanged",
                "detail": outu.strip()[-300:], "how_to_replay": "harness binary c19ulp --seed %d --count 200000" % seed})
            ctx.violations.append((path, ""))

    mm, bad, err = vlib.eval_cases(prop, spec.case_module, cases, shard=25, tag="drv")
    if err:
        ctx.problems.append("case evaluation failed: " + err)
        mm, bad = [], []
    for (c, kf) in bad:
        if kf != 0 and kf in kfs:          # no known finding is registered for C19 any more
            line = "KNOWN-FINDING: property=%s kf=%d %s" % (prop, kf, kfs[kf])
            if line not in ctx.known_lines:
                ctx.known_lines.append(line)
            continue
        if len(ctx.violations) < 5:
            path = vlib.write_replay(prop, "c19-debug-%d" % c[0], {
                "property": prop, "bin": "c19", "profile": "debug", "seed": seed, "index": c[0], "class": c[1],
                "case": c[2][:6000],
                "what": "the bytes produced by the implementation (serde_json::to_vec of the state / HTTP response of the real exporter) are rejected by the property oracle ok_C19 evaluated in Coq",
                "how_to_replay": "./check C19 --replay <this file>"})
            ctx.violations.append((path, ""))
    ctx.known_lines.sort()
    classes = {}
    for c in cases:
        classes.setdefault(c[1], c)
    ctx.samples = [classes[k][1] + "  ::  " + classes[k][2][:400] for k in sorted(classes)[:6]]
    hist = {}
    for c in cases:
        k = c[1].split(":")[0]
        hist[k] = hist.get(k, 0) + 1
    ctx.cov.update({
        "evaluations": len(cases),
        "distinct_nontrivial": len(classes),
        "rule": spec.rule,
        "traces_validated_against_impl": len(cases) - len(mm),
        "class_histogram": hist,
        "model_impl_disagreements": len(mm),
        "metric_table_rows": len(re.findall(r"mkMetric ", open(gen_metric_table.OUT).read())) - 1,
    })
    if not mm and not ctx.violations and not err:
        # the case files are large (every response travels into Coq); keep them only for diagnosis
        import shutil
        shutil.rmtree(os.path.join(vlib.WORK, prop), ignore_errors=True)
    if mm:
        c = mm[0]
        ctx.problems.append("correspondence: model and implementation disagree on %d case(s), first: state #%d %s" % (len(mm), c[0], c[1]))
    if ctx.problems and not ctx.violations:
        detail = {"property": prop, "broken": ctx.problems,
                  "searched": "%d states served to the real exporter and judged by ok_C19 in Coq; none rejected outside the known findings" % len(cases)}
        if mm:
            detail["first_disagreement"] = {"bin": "c19", "seed": seed, "index": mm[0][0], "class": mm[0][1]}
        path = vlib.write_replay(prop, "broken", detail)
        ctx.violations.append((path, "no-failing-input-found"))
    return vlib.finish(ctx)
