import subprocess, sys, os
from vlib import standard_check, ROOT
import portcheck
from checks import c03_filters

META = {
    "property_id": "C03",
    "technique": "Coq instance invariant proved inductive over every host call (no Panic site reachable, whole histories) + Coq totality lemmas for the model's handlers (Panic = panic, failed assertion or overflow) + source site inventory (translator) proved equal to the reviewed inventory + mutated-extreme-input correspondence in debug and release builds with the oracle ok_C03 evaluated in Coq; 65.5k-call warm-up cases crossing the 16-bit sequence wrap",
    "category": "proof",
    "text": "Every potentially panicking expression of the modelled code is an explicit Panic outcome of the Gallina model. Proved for EVERY valid set-up and EVERY sequence of host calls: initialisation succeeds and no call reaches a Panic site (C03_no_host_call_sequence_panics; the instance invariant is inductive: C03_invariant_initial, C03_invariant_inductive), and the oracle ok_C03 accepts the model's own trace for every history (C03_main). Also proved per function for all inputs in the stated ranges: Time +/- Duration, data set comparison and best-master selection, every master-side handler (Sync, Follow_Up, Delay_Resp, Pdelay_Resp, Pdelay_Resp_Follow_Up, Delay_Req/Pdelay_Req emission) for all timestamps in [0, 2^63 ns) and all request headers, and Announce emission for provider queues of any length and TLV size return normally. The per-function inventory of potentially panicking expressions in statime/src (393 functions, 637 sites) is regenerated from the source on every run and proved equal to the reviewed inventory, so a new or changed site anywhere in the library breaks a proof obligation. On the implementation: all scenario generators run with frames and timestamps mutated towards extremes (corrections +-2^63, lengths around 34/44/54/64/1024/2048, timestamps 0 and 2^63 ns - 1, stepsRemoved 254/255/65535, random tails), debug build with overflow checks and release build without; ok_C03 requires every call to return and the model to predict no overflow (which a release build would hide).",
    "design_ref": "DESIGN.md section 6 (C03)",
    "level_note": "The unbounded statement is proved: C03_no_host_call_sequence_panics (Port/Inv*.v): for every valid set-up and EVERY sequence of host calls (arbitrary octets, timestamps in [0,2^63 ns), any TLV queue, timers, BMCA, setting changes) no Panic site of the model is reached; the proof is an instance invariant (stored times and durations bounded, foreign master lists well-formed, distinct port identities, path trace length) shown inductive over step. It is a theorem about the model; the correspondence ties the model (including each Panic site) to the code. Configuration domain: log intervals in [-7, 7], at least one port (F20: PtpInstance::bmca on an instance without ports overflows 2^127 s — outside the domain, recorded in DESIGN). Filters: the filter part (checks/c03_filters.py, coq/Filter/C03Filters.v: C03f_kalman_patched_no_panic, C03f_basic_no_panic; F24 repaired). The site inventory is token-level (translate/gen_sites.py), part of the trusted base.",
}


def _sites():
    for t in ("gen_sites.py", "gen_consts.py"):
        rc = subprocess.call([sys.executable, os.path.join(ROOT, "translate", t)], stdout=subprocess.DEVNULL)
        if rc != 0:
            raise RuntimeError(t + " failed")


S = portcheck.make(
    "C03", "Port.OracleC03",
    [("c03", "debug", 500, 20000), ("c03", "release", 250, 10000), ("warm", "debug", 4, 32), ("warm", "release", 4, 16)],
    rule="every scenario generator (mixed walk, slave exchanges, master, boundary clock, peer delay, TLV forwarding, foreign master patterns, roles) with received frames and timestamps mutated towards extreme values; class = c03 : underlying scenario class; warm = one host call (sync / announce / delay_req / pdelay_req timer) repeated 65520+ times unobserved, then an observed tail across the sequence-id wrap (case type Port/WarmCases.v)",
    shard=25,
)
S.translators = [_sites]


def run(tier, seed, replay=None):
    # filter part (KalmanFilter / BasicFilter never panic): second Spec, evidence merged into evidence/C03.json
    if replay and c03_filters.owns(replay):
        return c03_filters.run(tier, seed, replay)
    rc = standard_check(S, tier, seed, replay)
    if replay:
        return rc
    rc2 = c03_filters.run(tier, seed, merge_with_previous=True)
    return rc or rc2
