import subprocess, sys, os
from vlib import standard_check, ROOT
import portcheck

META = {
    "property_id": "C03",
    "technique": "Coq totality lemmas for the model's handlers (Panic = panic, failed assertion or overflow) + source site inventory (translator) proved equal to the reviewed inventory + mutated-extreme-input correspondence in debug and release builds with the oracle ok_C03 evaluated in Coq",
    "category": "proof",
    "text": "Every potentially panicking expression of the modelled code is an explicit Panic outcome of the Gallina model. Proved for all inputs in the stated ranges: Time +/- Duration, data set comparison and best-master selection, every master-side handler (Sync, Follow_Up, Delay_Resp, Pdelay_Resp, Pdelay_Resp_Follow_Up, Delay_Req/Pdelay_Req emission) for all timestamps in [0, 2^63 ns) and all request headers, and Announce emission for provider queues of any length and TLV size return normally. The per-function inventory of potentially panicking expressions in statime/src (393 functions, 637 sites) is regenerated from the source on every run and proved equal to the reviewed inventory, so a new or changed site anywhere in the library breaks a proof obligation. On the implementation: all scenario generators run with frames and timestamps mutated towards extremes (corrections +-2^63, lengths around 34/44/54/64/1024/2048, timestamps 0 and 2^63 ns - 1, stepsRemoved 254/255/65535, random tails), debug build with overflow checks and release build without; ok_C03 requires every call to return and the model to predict no overflow (which a release build would hide).",
    "design_ref": "DESIGN.md section 6 (C03)",
    "level_note": "Not yet proved: the global invariant (bounded stored times, well-formed foreign master lists, distinct port identities) that makes the slave-side handlers and the BMCA panic-free for every history; those paths are covered by the correspondence (the model predicts each panic site) and by C09/C14 lemmas under explicit range hypotheses. Configuration domain: log intervals in [-7, 7], at least one port (F20: PtpInstance::bmca on an instance without ports overflows 2^127 s — outside the domain, recorded in DESIGN). Filters: C13. The site inventory is token-level (translate/gen_sites.py), part of the trusted base.",
}


def _sites():
    for t in ("gen_sites.py", "gen_consts.py"):
        rc = subprocess.call([sys.executable, os.path.join(ROOT, "translate", t)], stdout=subprocess.DEVNULL)
        if rc != 0:
            raise RuntimeError(t + " failed")


S = portcheck.make(
    "C03", "Port.OracleC03",
    [("c03", "debug", 500, 20000), ("c03", "release", 250, 10000)],
    rule="every scenario generator (mixed walk, slave exchanges, master, boundary clock, peer delay, TLV forwarding, foreign master patterns, roles) with received frames and timestamps mutated towards extreme values; class = c03 : underlying scenario class",
    shard=25,
)
S.translators = [_sites]


def run(tier, seed, replay=None):
    return standard_check(S, tier, seed, replay)
